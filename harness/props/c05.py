"""C05 — Imports, re-exports and wildcards resolve exactly as CPython imports them.

(C) model (visit -> expand_exports -> expand_wildcards -> alias chains)  vs  griffe.load(..., resolve_aliases=True, resolve_implicit=True)
    on generated one-package programs (package __init__ + flat submodules)
(O) model py_import (CPython's import semantics over the same statement grammar)  vs  importing the package in a fresh interpreter
direct: griffe.load vs the fresh interpreter on richer generated packages (sub-packages, every import form, __all__ in every
        parsed form, re-export chains): visible names per module, defining object of every name, Module.exports vs __all__,
        and "a resolved alias presents its target" (kind, docstring, labels, parameters, members rebased under the alias path).
"""
from __future__ import annotations

import json
import os
import subprocess
import sys
from pathlib import Path

ID = "C05"
LEVEL_TEXT = ("Composition theorem (C05_composition, closed): for every program of the grammar (any number of modules and sub-packages, every import "
              "form, __all__ = / += assembled from strings and other modules' __all__, any depth of re-export chains) that satisfies the decidable side "
              "conditions wf_prog / wf_run, if CPython's import semantics (py_import) runs the modules in the given order without error, then the "
              "dependency-order schedule of Griffe's per-module rules (visitor, exports expansion, wildcard expansion with the line-number rule, "
              "self-alias skip, submodule special case, alias chains followed by `final` with the model's fuel) binds in every module exactly the "
              "names CPython binds, each resolving to the object CPython refers to, with the same __all__. Proved by induction over the order with "
              "an invariant per executed module; alias resolution is a relation (Res) with a fuel bound (number of modules + 1) and a stability "
              "lemma under updates of modules it never enters; the special case of apply_one is shown transparent by a simulation against the plain "
              "line rule. Supporting theorems for all member lists / statement lists: is_wildcard_exposed = CPython's `import *` set; visitor + "
              "line rule = in-order execution (later statement wins); an assembled __all__ expands to CPython's list; Alias.members rebases every path "
              "under the alias. The side conditions are exactly the per-module findings (F4 same line, F5 submodule exposure, F12 flow-insensitive "
              "source of an assembled __all__) plus the generator's name discipline; each open finding has a refutation proved by computation on a "
              "witness that is replayed on the implementation (F3, F4, F5, F7, F8, F10, F12); F1, F2, F6, F9, F11 are repaired, their witnesses are "
              "regression cases and F6/F11 programs are now inside the theorem. The faithful model of the real traversal "
              "(seen-sets, pending expansions, KeyError skips) is tied to the code by differential runs (model vs griffe.load vs a fresh interpreter) and by "
              "a translator that regenerates the is_wildcard_exposed ladder, the line-number comparison, the skipped `from . import b` test and the "
              "__all__ method names from the source on every run; the model is proved equal to the regenerated definitions.")
LEVEL_NOTE = ("Trusted: Coq kernel, extraction, the package->model abstraction in this file, CPython as authority. Real traversal: proved that "
              "expand_exports (for every table and fuel, unconditionally) and expand_wildcards (when every wildcard import names a module of the "
              "table) perform exactly the schedule's per-module steps in the order in which they mark the modules done (the orders are explicit: the "
              "reversed done-lists), so griffe_load is a two-phase schedule along its own completion orders (C05_load_phases_explicit); the "
              "extracted model evaluates both sides and the decidable side condition ok_runb on every generated package (it always held so far). "
              "End to end for a decidable sub-class (C05_real_traversal_agrees): programs whose __all__ statements list strings only, when the order in "
              "which the wildcard phase completes the modules satisfies the composition theorem's hypotheses (CPython can import in that order): the "
              "table griffe_load itself produces agrees with CPython -- no schedule assumed; the sub-class is about 15 % of generated packages and the "
              "conclusion is checked against griffe.load and the interpreter there. NOT proved: that this two-phase schedule equals the "
              "single dependency-order schedule (griffe_sched) when no gap event is reported; it is checked on every generated package (stat "
              "real_vs_sched_compared) and the gap events (pending wildcard read F3, dropped or stale __all__ source F8, pending exports read F10) "
              "are exact in that sense only empirically. The "
              "composition theorem is relative to py_import: attributes bound on a package by the import system are outside it (compared modulo such "
              "names; finding F5 is classified by signature); its hypotheses are evaluated by the extracted model on every generated package (they "
              "hold on about 80 %) and its conclusion is checked against the interpreter there. Docstring/labels/parameters of presented aliases are "
              "checked on the implementation only (the model carries kinds and paths). Alias-resolution caching is over-approximated: names whose "
              "alias chain crosses a replaced alias member, and entries whose special-case comparison crosses one, accept either outcome (F7).")
MODEL = ("Model.C05_wf", "run_C05w")
COQ_TARGETS = ["Proofs/C05_imports.vo", "Proofs/C05_main.vo", "Proofs/C05_realw.vo", "Proofs/C05_norefs.vo", "Proofs/C05_ladder.vo"]
RULE = ("hand-written packages (one per rule of the anchored code) and the finding witnesses; seeded random packages in three streams: flat "
        "(package __init__ + 1-4 modules), rich (1-3 modules, a sub-package with 1-2 modules, optionally a nested sub-package) and cyclic (rich or "
        "flat plus 1-2 imports pointing forward in the order; model-vs-implementation only). A random dependency order (each __init__ before, after "
        "or among its descendants), every module importing only from earlier ones with from-import (absolute/relative, aliased), wildcard, "
        "`import a.b.c [as x]`, `from pkg import submodule [as x]`, 1-6 statements over 6 names so that rebinding is frequent, __all__ = / += in "
        "list, tuple, +, starred and annotated forms and __all__.extend(...) placed anywhere, with duplicate entries, assembled from 0-3 other modules' __all__ in ONE "
        "statement (attribute form and name form mixed, the same module twice) through a module alias, a re-exported module alias, an imported "
        "__all__ name or a re-exported renamed __all__ name; a package __init__ imports from its own submodules; statements sit in `if [not] "
        "[typing.]TYPE_CHECKING:` / `else:` blocks (the ones that run are listed, type-checking-only ones bind fresh names); source names are listed in __all__ themselves (so wildcard imports rebind them) and "
        "are sometimes bound again after use (flow-sensitivity). Submodule attachment order is read from the directory listing (os.walk), as the "
        "loader does. A package counts for the direct comparison when the interpreter imports it identically under two submodule import orders "
        "without reading a partially initialised module; non-trivial = has a wildcard import or an __all__; distinct by source text")
TRUSTED = ["abstraction: harness renders the abstract package to files, records the first line of each statement, resolves relative imports to absolute "
           "module paths itself (not via Griffe) and lists submodules in sorted order",
           "oracle driver: imports the top package then every submodule with importlib in a fresh `python -I` process; a builtins.__import__ hook "
           "flags reads of modules whose __spec__._initializing is set"]
ASSUMPTIONS = ["acyclic = no module's namespace is read while it is being initialised (checked dynamically in the interpreter); the theorems use a "
               "dependency order in which every import targets an earlier module (py_import fails otherwise)",
               "composition theorem: wf_prog (one statement per line, plain bound names, a submodule name bound only to that submodule, sources of an "
               "assembled __all__ bound once, by an import before use) and wf_run (wildcard imports keep submodule names, bound public submodules of a "
               "package without __all__ are recorded imports, no wildcard import between the import of a source and its use exposes the source's "
               "name): decidable, evaluated on every package",
               "every defined object is a class or a function, so its identity is recoverable from __module__/__qualname__"]
ALLOWED_AXIOMS = []

TRANSLATOR_NAME = "harness/translate/c05_ladder.py"


def translate(ctx):
    """(T) regenerate coq/Gen/C05_ladder.v (is_wildcard_exposed ladder, line rule, skipped bare import, __all__ methods) from the source."""
    from harness.translate import c05_ladder
    c05_ladder.translate(ctx)


PY = sys.executable
REPO_SRC = str(Path(os.environ.get("GRIFFE_REPO", "/repo")) / "src")

# --------------------------------------------------------------------------------------------------------------------
# Abstract packages.  A package is {"name": top, "modules": [{"path": [...], "init": bool, "body": [stmt...]}]}, stmt one of
#   ["def", name, "class"|"func"]
#   ["from", target_path, name, asname|None, "abs"|"rel"]          from T import name [as asname]
#   ["star", target_path, "abs"|"rel"]                             from T import *
#   ["import", target_path, asname|None]                           import a.b.c [as x]
#   ["setall", form, items] / ["addall", form, items]              __all__ = ... / __all__ += ...
#        items: ["s", name] | ["attr", local, ] (local.__all__) | ["name", local] (a name bound to another module's __all__)
#        form: "list" | "tuple" | "plus" | "starred" | "ann"
# --------------------------------------------------------------------------------------------------------------------

PUBLIC = ["f", "g", "h", "K"]
PRIVATE = ["_p", "_Q"]
NAMES = PUBLIC + PRIVATE


def dotted(path):
    return ".".join(path)


def pkg_of(mod):
    return mod["path"] if mod["init"] else mod["path"][:-1]


def render_from_module(mod, target, style):
    """Text of the module part of `from <X> import ...` inside `mod` for target module path `target`."""
    if style == "abs":
        return dotted(target)
    pk = pkg_of(mod)
    common = 0
    while common < len(pk) and common < len(target) and pk[common] == target[common]:
        common += 1
    level = len(pk) - common + 1
    return "." * level + dotted(target[common:])


def render_def(name, kind, modpath, k):
    where = dotted(modpath) + "." + name
    if kind == "class":
        deco = "    @staticmethod\n" if k % 2 else ""
        marg = "x, y=0" if k % 2 else "self, x, *r"
        return (f"class {name}:\n    \"\"\"class {where} v{k}\"\"\"\n{deco}    def meth({marg}):\n        \"\"\"method of {where}\"\"\"\n"
                f"    class Inner:\n        \"\"\"inner of {where}\"\"\"\n        def deep(self): ...\n")
    params = ["a", "a, b=1", "a, /, b, *, c=2", "*args, **kw", "a, *r, k"][k % 5]
    pre = "async " if k % 7 == 3 else ""
    return f"{pre}def {name}({params}):\n    \"\"\"function {where} v{k}\"\"\"\n"


def render_items(form, items, types=None):
    """Source text of an __all__ value.  `types` maps a foreign reference text to "list"/"tuple" (type of that module's __all__)."""
    types = types or {}
    chunks = []
    for it in items:
        if it[0] == "s":
            if chunks and chunks[-1][0] == "lit":
                chunks[-1][1].append(json.dumps(it[1]))
            else:
                chunks.append(["lit", [json.dumps(it[1])]])
        else:
            chunks.append(["foreign", f"{it[1]}.__all__" if it[0] == "attr" else it[1], it[2] if len(it) > 2 else "list"])
    if form in ("plus", "tplus"):
        o, c = ("[", "]") if form == "plus" else ("(", ")")
        lit = lambda xs: o + ", ".join(xs) + ("," if form == "tplus" and len(xs) == 1 else "") + c
        parts = [lit(ch[1]) if ch[0] == "lit" else ch[1] for ch in chunks]
        if not parts:
            return lit([])
        if len(parts) == 1 and chunks[0][0] != "lit":
            parts.append(lit([]))          # never alias another module's list object
        return " + ".join(parts)
    elems = []
    for ch in chunks:
        if ch[0] == "lit":
            elems.extend(ch[1])
        else:
            elems.append("*" + ch[1])
    if form == "tuple":
        return "(" + ", ".join(elems) + ("," if len(elems) == 1 else "") + ")"
    return "[" + ", ".join(elems) + "]"


def render_simple(mod, st):
    tag = st[0]
    if tag == "from":
        _, target, name, asname, style = st
        return f"from {render_from_module(mod, target, style)} import {name}" + (f" as {asname}" if asname else "")
    if tag == "star":
        return f"from {render_from_module(mod, st[1], st[2])} import *"
    if tag == "import":
        return f"import {dotted(st[1])}" + (f" as {st[2]}" if st[2] else "")
    if tag == "setall":
        if st[1] == "ann":
            return f"__all__: list = {render_items('list', st[2])}"
        return f"__all__ = {render_items(st[1], st[2])}"
    if tag == "addall":
        return f"__all__ += {render_items(st[1], st[2])}"
    if tag == "extall":
        return f"__all__.extend({render_items(st[1], st[2])})"
    raise ValueError(st)


GUARD_TEST = {"tc": "TYPE_CHECKING", "typing-tc": "typing.TYPE_CHECKING", "not-tc": "not TYPE_CHECKING", "not-typing-tc": "not typing.TYPE_CHECKING"}
RESERVED = ("TYPE_CHECKING", "typing")      # bound by the header the harness writes for guarded blocks; left out of every comparison


def runtime_stmts(body):
    """The statements CPython executes, in order: ["guard", kind, body, orelse] contributes its body when the test is `not TYPE_CHECKING`,
    its orelse when the test is `TYPE_CHECKING`; ["semi", ...] is flattened."""
    for st in body:
        if st[0] == "semi":
            yield from st[1:]
        elif st[0] == "guard":
            yield from runtime_stmts(st[2] if st[1].startswith("not-") else st[3])
        else:
            yield st


def render_module_lines(mod):
    """(source text, [(statement, first line)]): the statements that run, with ["semi", s1, s2, ...] (several simple statements on one
    line) and ["guard", kind, body, orelse] (`if [not] [typing.]TYPE_CHECKING:` blocks) flattened.  The statements of a block that
    only a type checker reads are rendered but not listed."""
    lines = []
    flat = []
    k = [0]
    guards = [st[1] for st in mod["body"] if st[0] == "guard"]
    if any(g.endswith("typing-tc") for g in guards):
        lines.append("import typing")
    if any(not g.endswith("typing-tc") for g in guards):
        lines.append("from typing import TYPE_CHECKING")

    def emit(sts, indent, listed):
        for st in sts:
            ln = len(lines) + 1
            if st[0] == "def":
                k[0] += 1
                text = render_def(st[1], st[2], mod["path"], k[0] + len(mod["path"]) * 3 + len(mod["path"][-1])).rstrip("\n").split("\n")
                lines.extend(indent + t for t in text)
                if listed:
                    flat.append((st, ln))
            elif st[0] == "semi":
                lines.append(indent + "; ".join(render_simple(mod, x) for x in st[1:]))
                if listed:
                    flat.extend((x, ln) for x in st[1:])
            elif st[0] == "guard":
                lines.append(indent + "if " + GUARD_TEST[st[1]] + ":")
                negated = st[1].startswith("not-")
                emit(st[2], indent + "    ", listed and negated)
                if st[3]:
                    lines.append(indent + "else:")
                    emit(st[3], indent + "    ", listed and not negated)
            else:
                lines.append(indent + render_simple(mod, st))
                if listed:
                    flat.append((st, ln))

    emit(mod["body"], "", True)
    return "\n".join(lines) + "\n", flat


def render_module(mod):
    return render_module_lines(mod)[0]


def write_package(root: Path, pkg):
    for mod in pkg["modules"]:
        p = root.joinpath(*mod["path"])
        if mod["init"]:
            p.mkdir(parents=True, exist_ok=True)
            f = p / "__init__.py"
        else:
            p.parent.mkdir(parents=True, exist_ok=True)
            f = p.with_suffix(".py")
        f.write_text(render_module(mod))


def package_sources(pkg):
    return {dotted(m["path"]) + (".__init__" if m["init"] else ""): render_module(m) for m in pkg["modules"]}


# --------------------------------------------------------------------------------------------------------------------
# Oracle: import in a fresh interpreter.
# --------------------------------------------------------------------------------------------------------------------
ORACLE_SCRIPT = r'''
import builtins, importlib, inspect, json, sys, types
root, spec = sys.argv[1], json.loads(sys.stdin.read())
sys.path.insert(0, root)
sys.dont_write_bytecode = True
real_import = builtins.__import__
flags = []
def resolve(name, globs, level):
    if level == 0:
        return name
    pkg = globs.get("__package__") or (globs["__name__"] if "__path__" in globs else globs["__name__"].rpartition(".")[0])
    base = pkg.rsplit(".", level - 1)[0] if level > 1 else pkg
    return base + ("." + name if name else "")
def initializing(m):
    return m is not None and getattr(getattr(m, "__spec__", None), "_initializing", False)
def hooked(name, globals=None, locals=None, fromlist=(), level=0):
    try:
        if globals is not None and "__name__" in globals:
            absn = resolve(name, globals, level)
            m = sys.modules.get(absn)
            if initializing(m):
                if fromlist:
                    for n in fromlist:
                        # a submodule already bound on its (initialising) package is the same object at any later time: not a partial read
                        v = None if n == "*" else getattr(m, n, None)
                        if n != "*" and isinstance(v, types.ModuleType) and v.__name__ == absn + "." + n:
                            continue
                        if n == "*" or hasattr(m, n):
                            flags.append([globals["__name__"], absn, n])
                elif globals["__name__"] != absn and not globals["__name__"].startswith(absn + "."):
                    flags.append([globals["__name__"], absn, ""])
    except Exception as e:
        flags.append(["hook-error", repr(e), ""])
    return real_import(name, globals, locals, fromlist, level)
builtins.__import__ = hooked
out = []
for pk in spec:
    del flags[:]
    res = {"name": pk["name"], "error": None, "modules": {}, "flags": []}
    order = pk["order"]
    try:
        mods = {}
        for mn in order:
            mods[mn] = importlib.import_module(mn)
        all_ids = {}
        for mn, m in mods.items():
            a = vars(m).get("__all__")
            if a is not None:
                all_ids.setdefault(id(a), []).append(mn + ".__all__")
        for mn, m in mods.items():
            ns = {}
            for k, v in vars(m).items():
                if (k.startswith("__") and k.endswith("__")) or k in ("TYPE_CHECKING", "typing"):
                    continue
                if isinstance(v, types.ModuleType):
                    ns[k] = ["module", v.__name__]
                elif inspect.isclass(v):
                    ns[k] = ["class", v.__module__ + "." + v.__qualname__]
                elif inspect.isfunction(v):
                    ns[k] = ["function", v.__module__ + "." + v.__qualname__]
                elif id(v) in all_ids:
                    ns[k] = ["attribute", all_ids[id(v)]]
                else:
                    ns[k] = ["other", type(v).__name__]
            a = vars(m).get("__all__")
            res["modules"][mn] = {"names": ns, "all": None if a is None else list(a)}
        # presented objects: docstring, parameters, members of every class/function reachable by a module-level name
        objs = {}
        for mn, m in mods.items():
            for k, v in vars(m).items():
                if inspect.isclass(v) or inspect.isfunction(v):
                    key = v.__module__ + "." + v.__qualname__
                    if key in objs:
                        continue
                    d = {"doc": inspect.getdoc(v)}
                    if inspect.isfunction(v):
                        d["params"] = [p.name for p in inspect.signature(v).parameters.values()]
                        d["async"] = inspect.iscoroutinefunction(v)
                    else:
                        d["members"] = sorted(n for n in vars(v) if not (n.startswith("__") and n.endswith("__")))
                    objs[key] = d
        res["objects"] = objs
    except BaseException as e:
        res["error"] = type(e).__name__ + ": " + str(e)[:200]
    res["flags"] = [list(f) for f in flags]
    out.append(res)
    for mn in list(sys.modules):
        if mn == pk["name"] or mn.startswith(pk["name"] + "."):
            del sys.modules[mn]
print(json.dumps(out))
'''


def module_order(pkg, reverse=False):
    names = sorted(dotted(m["path"]) for m in pkg["modules"])
    top = pkg["name"]
    rest = [n for n in names if n != top]
    if reverse:
        rest.reverse()
    return [top] + rest


def run_oracle(root: Path, pkgs, reverse=False):
    spec = [{"name": p["name"], "order": module_order(p, reverse)} for p in pkgs]
    env = {k: v for k, v in os.environ.items() if k not in ("PYTHONPATH",)}
    env["PYTHONHASHSEED"] = "0"
    env["PYTHONDONTWRITEBYTECODE"] = "1"
    p = subprocess.run([PY, "-I", "-c", ORACLE_SCRIPT, str(root)], input=json.dumps(spec), capture_output=True, text=True, env=env, timeout=600)
    if p.returncode != 0:
        raise RuntimeError("oracle interpreter failed: " + p.stderr[-800:])
    return json.loads(p.stdout)


# --------------------------------------------------------------------------------------------------------------------
# Implementation: griffe.load
# --------------------------------------------------------------------------------------------------------------------
class Watchdog(Exception):
    pass


def _alarm(signum, frame):
    raise Watchdog()


def griffe_view(root: Path, pkg, preload=None):
    """`preload`: dotted path of a module of the package that the SAME loader loads first (history of the loader object: the package is then
    loaded a second time, and the result must not depend on it).
    Returns {"error": str|None, "modules": {path: {"names": {name: [kind, final_path] | ["unresolved", target_path]}, "all": [...]|None}}, "present": [...problems]}."""
    import signal
    import griffe
    from _griffe.exceptions import AliasResolutionError, CyclicAliasError
    old = signal.signal(signal.SIGALRM, _alarm)
    signal.alarm(20)
    rl = sys.getrecursionlimit()
    sys.setrecursionlimit(3000)
    try:
        try:
            if preload is None:
                top = griffe.load(pkg["name"], search_paths=[str(root)], resolve_aliases=True, resolve_implicit=True,
                                  resolve_external=False, allow_inspection=False)
            else:
                # what griffe.load does, with one loader object used twice
                loader = griffe.GriffeLoader(search_paths=[str(root)], allow_inspection=False)
                loader.load(preload)
                top = loader.load(pkg["name"])
                loader.resolve_aliases(implicit=True, external=False)
        except Watchdog:
            return {"error": "timeout", "modules": {}, "present": []}
        except RecursionError:
            return {"error": "RecursionError", "modules": {}, "present": []}
        except Exception as e:  # noqa: BLE001
            return {"error": type(e).__name__ + ": " + str(e)[:200], "modules": {}, "present": []}
        out = {}
        present = []
        stack = [top]
        visited = {top.path}
        while stack:
            mod = stack.pop()
            ns = {}
            for name, mem in mod.members.items():
                if (name.startswith("__") and name.endswith("__")) or name in RESERVED:
                    continue
                if not mem.runtime:
                    continue          # bound for type checkers only (`if TYPE_CHECKING:`): Griffe keeps the member and marks it
                if mem.is_alias:
                    try:
                        ft = mem.final_target
                        ns[name] = [ft.kind.value, ft.path]
                        present.extend(check_presentation(mem, ft))
                        if ft.is_module and ft.path == mod.path + "." + name and ft.path not in visited:
                            # the submodule member was replaced by an alias of itself (back-and-forth wildcard imports): still this module's submodule
                            visited.add(ft.path)
                            stack.append(ft)
                    except (AliasResolutionError, CyclicAliasError) as e:
                        ns[name] = ["unresolved", mem.target_path, type(e).__name__]
                else:
                    ns[name] = [mem.kind.value, mem.path]
                    if mem.is_module and mem.path not in visited:
                        visited.add(mem.path)
                        stack.append(mem)
            ex = mod.exports
            if ex is not None:
                ex = [e if isinstance(e, str) else "<unexpanded:" + getattr(e, "path", "?") + ">" for e in ex]
            out[mod.path] = {"names": ns, "all": ex}
        objs = {}
        for mpath, m in out.items():
            pass
        return {"error": None, "modules": out, "present": present, "top": top}
    finally:
        signal.alarm(0)
        signal.signal(signal.SIGALRM, old)
        sys.setrecursionlimit(rl)


def check_presentation(alias, target, depth=0):
    """A resolved alias presents its final target: kind, docstring, labels, parameters, member names; member paths rebased."""
    bad = []
    try:
        if alias.kind is not target.kind:
            bad.append([alias.path, "kind", alias.kind.value, target.kind.value])
        if alias.docstring is not target.docstring:
            bad.append([alias.path, "docstring", None, None])
        if alias.labels != target.labels:
            bad.append([alias.path, "labels", sorted(alias.labels), sorted(target.labels)])
        if target.kind.value == "function" and [p.name for p in alias.parameters] != [p.name for p in target.parameters]:
            bad.append([alias.path, "parameters", None, None])
        if target.kind.value in ("class",) or (target.kind.value == "module" and depth == 0):
            am = alias.members
            if list(am) != list(target.members):
                bad.append([alias.path, "member-names", list(am), list(target.members)])
            for n, sub in am.items():
                if sub.path != alias.path + "." + n:
                    bad.append([alias.path, "member-path", sub.path, alias.path + "." + n])
                if not sub.is_alias:
                    bad.append([alias.path, "member-not-alias", n, None])
                    continue
                if n.startswith("__") and n.endswith("__"):
                    continue
                try:
                    sft = sub.final_target
                    tm = target.members[n]
                    tft = tm.final_target if tm.is_alias else tm
                except Exception:  # noqa: BLE001   unresolved members of a module target are reported by the name comparison
                    continue
                if sft is not tft:
                    bad.append([alias.path, "member-target", sft.path, tft.path])
                if target.kind.value == "class" and depth < 2:
                    bad.extend(check_presentation(sub, tft, depth + 1))
    except Exception as e:  # noqa: BLE001
        bad.append([alias.path, "exception", type(e).__name__, str(e)[:120]])
    return bad


def presented_facts(view, oracle):
    """Compare what Griffe presents through each name with the runtime object: docstring, parameters, class member names."""
    bad = []
    top = view.get("top")
    if top is None:
        return bad
    objs = oracle.get("objects", {})
    for mpath, m in view["modules"].items():
        for name, (kind, *rest) in m["names"].items():
            if kind not in ("class", "function"):
                continue
            key = rest[0]
            o = objs.get(key)
            if o is None:
                continue
            obj = top.modules_collection.get_member(mpath + "." + name)
            doc = obj.docstring.value if obj.docstring else None
            if doc != o["doc"]:
                bad.append([mpath + "." + name, "doc", doc, o["doc"]])
            if kind == "function":
                ps = [p.name.lstrip("*") for p in obj.parameters]
                if ps != o["params"]:
                    bad.append([mpath + "." + name, "params", ps, o["params"]])
                if ("async" in obj.labels) != o["async"]:
                    bad.append([mpath + "." + name, "async", sorted(obj.labels), o["async"]])
            else:
                ms = sorted(n for n in obj.members if not (n.startswith("__") and n.endswith("__")))
                if ms != o["members"]:
                    bad.append([mpath + "." + name, "members", ms, o["members"]])
    return bad


def diff_views(view, oracle):
    """List of [module, name, griffe, cpython] differences (names, targets, exports)."""
    diffs = []
    if view["error"] or oracle["error"]:
        if view["error"]:
            diffs.append(["<load>", "", view["error"], oracle["error"]])
        return diffs
    for mn, om in oracle["modules"].items():
        gm = view["modules"].get(mn)
        if gm is None:
            diffs.append([mn, "<module>", None, "present"])
            continue
        for n in sorted(set(om["names"]) | set(gm["names"])):
            g = gm["names"].get(n)
            o = om["names"].get(n)
            if not attr_eq(g, o):
                diffs.append([mn, n, g, o])
        ga, oa = gm["all"], om["all"]
        if (ga is None) != (oa is None) or (ga is not None and sorted(set(ga)) != sorted(set(oa))):
            diffs.append([mn, "__all__", ga, oa])
    for mn in view["modules"]:
        if mn not in oracle["modules"]:
            diffs.append([mn, "<module>", "present", None])
    return diffs


# --------------------------------------------------------------------------------------------------------------------
# Generator
# --------------------------------------------------------------------------------------------------------------------
def tree_shape(rng, name, rich):
    """List of modules (path, init) of a package: top __init__, 1-3 plain modules, optionally sub-packages."""
    mods = [{"path": [name], "init": True}]
    nplain = rng.randint(1, 3) if rich else rng.randint(1, 4)
    for i in range(nplain):
        mods.append({"path": [name, f"m{i}"], "init": False})
    if rich and rng.random() < 0.7:
        mods.append({"path": [name, "s"], "init": True})
        for i in range(rng.randint(1, 2)):
            mods.append({"path": [name, "s", f"n{i}"], "init": False})
        if rng.random() < 0.3:
            mods.append({"path": [name, "s", "t"], "init": True})
            mods.append({"path": [name, "s", "t", "d0"], "init": False})
    return mods


def topo_order(rng, mods):
    pr = {}
    for m in mods:
        if not m["init"]:
            pr[tuple(m["path"])] = rng.random()
    inits = sorted((m for m in mods if m["init"]), key=lambda m: -len(m["path"]))
    for m in inits:
        desc = [v for p, v in pr.items() if p[:len(m["path"])] == tuple(m["path"]) and p != tuple(m["path"])]
        r = rng.random()
        if not desc:
            pr[tuple(m["path"])] = rng.random()
        elif r < 0.45:
            pr[tuple(m["path"])] = max(desc) + 1e-6 * (1 + len(m["path"]))     # re-exporting __init__: after its descendants
        elif r < 0.8:
            pr[tuple(m["path"])] = min(desc) - 1e-6 * (1 + len(m["path"]))     # base __init__: before its descendants
        else:
            pr[tuple(m["path"])] = rng.random()
    return sorted(mods, key=lambda m: pr[tuple(m["path"])])


class Sim:
    """Generation-time approximation of CPython's namespaces (only used to emit imports that can succeed)."""

    def __init__(self):
        self.ns = {}        # module path tuple -> {name: ("obj", id) | ("mod", path) | ("all", path)}
        self.all = {}       # module path tuple -> list | None
        self.alltype = {}   # module path tuple -> "list" | "tuple"
        self.starred = {}   # module path tuple -> names a wildcard import bound there
        self.rebound = {}   # module path tuple -> names bound there and then bound again by a wildcard import (their importers must follow)
        self.imported = {}  # module path tuple -> names an explicit import bound there
        self.hot = None     # a name the package keeps re-binding (definitions, imports and overrides of ONE name across modules meet more often)

    def star_names(self, t):
        a = self.all.get(t)
        if a is not None:
            return list(a)
        return [n for n in self.ns[t] if not n.startswith("_")]


def importable_from(mod, earlier):
    """Modules that `mod` may import without ever observing a partially initialised module: the module itself is earlier in the
    dependency order and so is every ancestor package of it that is not also an ancestor package of `mod`."""
    me = tuple(mod["path"])
    early = {tuple(e["path"]) for e in earlier}
    out = []
    for e in earlier:
        tp = tuple(e["path"])
        ok = True
        for k in range(1, len(tp)):
            anc = tp[:k]
            if anc == me[:k]:
                continue                      # a package that contains `mod`, or `mod` itself (an __init__ importing its submodules): already started
            if anc not in early:
                ok = False
        if ok:
            out.append(e)
    return out


def gen_body(rng, mod, earlier, sim, mods, rich):
    me = tuple(mod["path"])
    ns = {}
    body = []
    earlier = importable_from(mod, earlier)
    n_st = rng.randint(1, 6)
    style = lambda: "rel" if rng.random() < 0.4 else "abs"
    children = [tuple(m["path"]) for m in mods if len(m["path"]) == len(me) + 1 and tuple(m["path"][:-1]) == me] if mod["init"] else []

    starred = sim.starred[me] = set()
    rebound = sim.rebound[me] = set()
    imported = sim.imported[me] = set()

    def bind_star(tp):
        for n in sim.star_names(tp):
            (rebound if n in ns and n not in starred else starred).add(n)
            ns[n] = sim.ns[tp].get(n, ("mod", dotted(tp) + "." + n))

    def pick(cands):
        return sim.hot if sim.hot in cands and rng.random() < 0.2 else rng.choice(cands)

    def source(pred):
        """An importable module; half of the time one that satisfies `pred` when there is one (directed re-binding: an import that
        overrides a local binding, an import of the name the package keeps re-binding)."""
        if rng.random() < 0.7:
            good = [e for e in earlier if pred(tuple(e["path"]))]
            if good:
                return tuple(rng.choice(good)["path"])
        return tuple(rng.choice(earlier)["path"])

    for _ in range(n_st):
        r = rng.random()
        if r < 0.34 or not earlier:
            name = pick(NAMES)
            kind = "class" if name.lstrip("_")[0].isupper() else "func"
            body.append(["def", name, kind])
            ns[name] = ("obj", dotted(me) + "." + name)
        elif r < 0.58:
            tp = source(lambda t: sim.hot in sim.ns[t])
            # names used as sources of an __all__ (w<k>, a<k>) are bound once, by the import written for that purpose
            usable = lambda t: [n for n in sim.ns[t] if not n.startswith("__") and not (len(n) == 2 and n[0] in "wa" and n[1].isdigit())]
            cands = usable(tp)
            # directed: a name its module only has from a wildcard import, or one a wildcard import bound AGAIN there
            r2 = rng.random()
            special = sim.rebound if r2 < 0.3 else sim.starred if r2 < 0.6 else None
            pairs = [(t, n) for e in earlier for t in [tuple(e["path"])] for n in usable(t) if n in special[t]] if special else []
            if pairs:
                tp, n = rng.choice(pairs)
            elif not cands:
                continue
            else:
                n = pick(cands)
            asname = rng.choice(NAMES + ["z"]) if rng.random() < 0.35 else None
            body.append(["from", list(tp), n, asname, style()])
            ns[asname or n] = sim.ns[tp][n]
            imported.add(asname or n)
        elif r < 0.80:
            clash = lambda t: [n for n in sim.star_names(t) if n in ns]
            tp = source((lambda t: any(n in sim.imported[t] for n in clash(t))) if rng.random() < 0.5 else (lambda t: bool(clash(t))))
            body.append(["star", list(tp), style()])
            bind_star(tp)
        else:
            tp = tuple(rng.choice(earlier)["path"])
            if rng.random() < 0.4 or len(tp) == 1:
                asname = rng.choice(["x", "y", "f", "K"]) if rng.random() < 0.7 else None
                body.append(["import", list(tp), asname])
                if asname:
                    ns[asname] = ("mod", dotted(tp))
                else:
                    ns[tp[0]] = ("mod", tp[0])
            else:
                asname = rng.choice(["x", "y", "g"]) if rng.random() < 0.5 else None
                body.append(["from", list(tp[:-1]), tp[-1], asname, style()])
                ns[asname or tp[-1]] = ("mod", dotted(tp))
    # __all__ statements, inserted afterwards so that every listed name is bound at the end of the module
    sim.all[me] = None
    if rng.random() < 0.55:
        nstm = 1 if rng.random() < 0.7 else 2
        listed_total = []
        own_type = None
        first_pos = 0
        src_counter = [0]
        for k in range(nstm):
            items = []
            # a child module may be listed only when it is earlier in the dependency order (a wildcard import of this package imports it)
            early_children = [c[-1] for c in children if any(tuple(e["path"]) == c for e in earlier)]
            pool = list(ns) + (early_children if rng.random() < 0.3 else [])
            if pool:
                want_private = rng.random() < 0.3
                for n in rng.sample(pool, rng.randint(0, min(3, len(pool)))):
                    if n.startswith("_") and not want_private:
                        continue
                    items.append(["s", n])
            if items and rng.random() < 0.2:
                # a name listed twice (CPython keeps the duplicate; the set of bound names is what matters)
                items.insert(rng.randint(0, len(items)), list(rng.choice(items)))
            foreign = [e for e in earlier if sim.all.get(tuple(e["path"])) is not None]
            pre = []
            ftypes = set()
            # 0-3 foreign __all__ lists in ONE statement, in attribute form (x.__all__) and/or name form (a name bound to the list);
            # the same module may be used twice
            nforeign = 0
            if foreign and rng.random() < 0.45:
                nforeign = 1 + (rng.random() < 0.45) + (rng.random() < 0.25)
            for _j in range(nforeign):
                tp = tuple(rng.choice(foreign)["path"])
                ftype = sim.alltype[tp]
                ftypes.add(ftype)
                pre.append(["star", list(tp), style()])      # the foreign names must be bound here
                bind_star(tp)
                chain = [(tuple(e["path"]), n) for e in earlier for n, v in sim.ns[tuple(e["path"])].items()
                         if v == ("mod", dotted(tp)) and not n.startswith("_")]
                idx = src_counter[0]
                src_counter[0] += 1
                if chain and rng.random() < 0.25:
                    # the module reaches this module through another module's namespace (a re-exported module object)
                    yp, yn = rng.choice(chain)
                    local = f"w{idx}"
                    pre.append(["from", list(yp), yn, local, style()])
                    ns[local] = ("mod", dotted(tp))
                    item = ["attr", local, ftype]
                elif rng.random() < 0.5:
                    local = f"w{idx}"
                    if len(tp) > 1 and rng.random() < 0.6:
                        pre.append(["from", list(tp[:-1]), tp[-1], local, style()])
                    else:
                        pre.append(["import", list(tp), local])
                    ns[local] = ("mod", dotted(tp))
                    item = ["attr", local, ftype]
                else:
                    local = f"a{idx}"
                    chain2 = [(tuple(e["path"]), n) for e in earlier for n, v in sim.ns[tuple(e["path"])].items()
                              if v == ("all", dotted(tp)) and not n.startswith("_")]
                    if chain2 and rng.random() < 0.3:
                        # the list itself is reached through another module's namespace (a re-exported, renamed __all__)
                        yp, yn = rng.choice(chain2)
                        pre.append(["from", list(yp), yn, local, style()])
                    else:
                        pre.append(["from", list(tp), "__all__", local, style()])
                    ns[local] = ("all", dotted(tp))
                    item = ["name", local, ftype]
                items.insert(rng.randint(0, len(items)), item)
                listed_total += sim.all[tp]
            if nforeign >= 2 and rng.random() < 0.6:
                # all the wildcard imports first: then no wildcard import stands between the import of a source and the __all__ statement
                pre = [x for x in pre if x[0] == "star"] + [x for x in pre if x[0] != "star"]
            # `+` needs operands of one sequence type; starred elements take any
            uniform = len(ftypes) <= 1
            ftype = next(iter(ftypes)) if len(ftypes) == 1 else None
            plus_form = {"list": "plus", "tuple": "tplus", None: rng.choice(["plus", "tplus"])}[ftype]
            if k == 0:
                form = rng.choice(["list", "tuple"] + ([plus_form] if uniform else []) + (["ann"] if not ftypes else []))
                own_type = "tuple" if form in ("tuple", "tplus") else "list"
                st = ["setall", form, items]
                pos = rng.randint(0, len(body))
                first_pos = pos + len(pre)
            else:
                if own_type == "tuple":
                    form = rng.choice(["tuple"] + (["tplus"] if uniform and ftype in (None, "tuple") else []))
                else:
                    form = rng.choice(["list", "tuple"] + ([plus_form] if uniform else []))
                # `__all__.extend(...)` takes any iterable, but only a list has it
                st = ["extall" if own_type == "list" and rng.random() < 0.4 else "addall", form, items]
                pos = rng.randint(first_pos + 1, len(body))        # `+=` after the `=`
            listed_total += [i[1] for i in items if i[0] == "s"]
            body[pos:pos] = pre + [st]
        sim.all[me] = listed_total
        sim.alltype[me] = own_type
        if rng.random() < 0.06:
            # flow-sensitivity: a source name is bound again AFTER the __all__ statement that reads it (CPython has already read the first binding)
            uses = [(k2, it) for k2, st2 in enumerate(body) if st2[0] in ("setall", "addall", "extall") for it in st2[2] if it[0] != "s"]
            if uses:
                k2, it = rng.choice(uses)
                if it[0] == "attr":
                    tp2 = tuple(rng.choice(earlier)["path"])
                    body.insert(rng.randint(k2 + 1, len(body)), ["import", list(tp2), it[1]])
                    ns[it[1]] = ("mod", dotted(tp2))
                else:
                    cands2 = [e for e in earlier if sim.all.get(tuple(e["path"])) is not None]
                    if cands2:
                        tp2 = tuple(rng.choice(cands2)["path"])
                        body.insert(rng.randint(k2 + 1, len(body)), ["from", list(tp2), "__all__", it[1], style()])
                        ns[it[1]] = ("all", dotted(tp2))
    # blocks guarded by TYPE_CHECKING: `if not [typing.]TYPE_CHECKING:` runs (its statements are ordinary ones), `if [typing.]TYPE_CHECKING:`
    # does not (it binds fresh names T<k> for type checkers only; its `else:` runs); the `else:` of the negated test does not run either
    if rng.random() < 0.12 and body:
        simple = [i for i, st in enumerate(body) if st[0] in ("def", "from", "star", "import")]
        if simple:
            i = rng.choice(simple)
            j = i + 1 + (1 if i + 1 < len(body) and body[i + 1][0] in ("def", "from", "star", "import") and rng.random() < 0.4 else 0)
            run = body[i:j]
            typ = "typing-" if rng.random() < 0.3 else ""
            tonly = []
            for q in range(rng.randint(1, 2)):
                r = rng.random()
                anym = rng.choice(mods)
                if r < 0.4:
                    tonly.append(["def", f"T{q}", "class"])
                elif r < 0.7 or len(anym["path"]) < 2:
                    tonly.append(["import", list(anym["path"]), f"T{q}"])
                else:
                    tonly.append(["from", list(anym["path"][:-1]), anym["path"][-1], f"T{q}", "abs"])
            if rng.random() < 0.5:
                body[i:j] = [["guard", "not-" + typ + "tc", run, tonly if rng.random() < 0.4 else []]]
            elif rng.random() < 0.6:
                body[i:j] = [["guard", typ + "tc", tonly, run]]
            else:
                body.insert(rng.randint(0, len(body)), ["guard", typ + "tc", tonly, []])
    sim.ns[me] = ns
    mod["body"] = body


def add_back_edges(rng, pkg):
    """Insert wildcard / from imports that point forward in the dependency order (cyclic packages: outside the property, used for (C) only)."""
    order = pkg["order"]
    mods = {dotted(m["path"]): m for m in pkg["modules"]}
    for _ in range(rng.randint(1, 2)):
        i = rng.randrange(len(order))
        later = order[i + 1:] or order[:i]
        if not later:
            return
        m = mods[order[i]]
        t = mods[rng.choice(later)]
        defs = [st[1] for st in runtime_stmts(t["body"]) if st[0] == "def"]
        if defs and rng.random() < 0.3:
            st = ["from", list(t["path"]), rng.choice(defs), None, "abs"]
        else:
            st = ["star", list(t["path"]), "rel" if rng.random() < 0.4 else "abs"]
        m["body"].insert(rng.randint(0, len(m["body"])), st)


def plant_chain(rng, order, sim):
    """Directed scenario (additive, so every import of the package still succeeds): ONE name travels through up to five modules along the
    dependency order, each hop a wildcard import or an explicit import from the previous module of the chain, written at a random place of
    the module - before or after a local binding of the same name, so that one overrides the other - and sometimes right after a fresh
    local definition of the name (the import overrides it)."""
    n = sim.hot
    kind = "class" if n[0].isupper() else "func"
    i0 = min(rng.randrange(len(order)), rng.randrange(len(order)))          # long chains need an early start
    first = order[i0]
    if n not in sim.ns[tuple(first["path"])]:
        first["body"].insert(rng.randint(0, len(first["body"])), ["def", n, kind])
        sim.ns[tuple(first["path"])][n] = ("obj", dotted(first["path"]) + "." + n)
    prev = first
    hops = 0
    star = rng.random() < 0.5
    for i in range(i0 + 1, len(order)):
        mod = order[i]
        if hops >= 5 or rng.random() < 0.05 or prev not in importable_from(mod, order[:i]):
            continue
        pp, me = tuple(prev["path"]), tuple(mod["path"])
        if sim.all.get(pp) is not None and n not in sim.all[pp] and rng.random() < 0.7:
            # the previous module of the chain has an __all__ without the name: it exports it as well (`__all__ += [name]` at its end)
            prev["body"].append(["addall", sim.alltype[pp], [["s", n]]])
            sim.all[pp].append(n)
        star = (not star) if rng.random() < 0.9 else star                      # mostly alternating: wildcard, explicit, wildcard, ...
        hop = ["star", list(pp), "rel" if rng.random() < 0.4 else "abs"] if n in sim.star_names(pp) and star \
            else ["from", list(pp), n, None, "rel" if rng.random() < 0.4 else "abs"]
        body = mod["body"]
        # mostly after the last local binding of the name, so that the import is the binding that counts
        binds = [j for j, st in enumerate(body) if (st[0] == "def" and st[1] == n) or (st[0] == "from" and (st[3] or st[2]) == n) or st[0] == "guard"]
        pos = rng.randint(binds[-1] + 1 if binds and rng.random() < 0.7 else 0, len(body))
        body.insert(pos, hop)
        if rng.random() < (0.6 if hop[0] == "star" else 0.2):
            body.insert(rng.randint(0, pos), ["def", n, kind])
        if hop[0] == "star":
            for x in sim.star_names(pp):
                sim.ns[me].setdefault(x, sim.ns[pp].get(x, ("mod", dotted(pp) + "." + x)))
        sim.ns[me].setdefault(n, sim.ns[pp][n])
        prev = mod
        hops += 1


def gen_package(rng, name, rich=True):
    mods = tree_shape(rng, name, rich)
    order = topo_order(rng, mods)
    sim = Sim()
    sim.hot = rng.choice(PUBLIC)
    done = []
    for m in order:
        gen_body(rng, m, done, sim, mods, rich)
        done.append(m)
    if rng.random() < 0.5:
        plant_chain(rng, order, sim)
    return {"name": name, "modules": mods, "order": [dotted(m["path"]) for m in order]}


# --------------------------------------------------------------------------------------------------------------------
# Abstraction: package -> model input
# --------------------------------------------------------------------------------------------------------------------
def load_order(root, pkg):
    """Order in which the loader attaches submodules: ModuleFinder.submodules = os.walk order of the package directory (files of a directory in
    listing order, `pkg/sub/__init__.py` when `sub` is walked), stably sorted by depth.  The listing order is an input, not a Griffe decision."""
    base = Path(root) / pkg["name"]
    seq = []
    for d, dirs, files in os.walk(base, topdown=True, followlinks=True):
        dirs[:] = [x for x in dirs if x != "__pycache__"]
        rel = Path(d).relative_to(base).parts
        for f in files:
            if not f.endswith(".py"):
                continue
            if f == "__init__.py":
                if rel:
                    seq.append(tuple(rel))
            else:
                seq.append(tuple(rel) + (f[:-3],))
    seq.sort(key=len)
    return [(pkg["name"],) + x for x in seq]


def abstract_package(pkg, root=None):
    """Modules with their children in the loader's attachment order; statements with their first line."""
    if root is None:
        order = sorted(tuple(m["path"]) for m in pkg["modules"])
    else:
        order = [(pkg["name"],)] + load_order(root, pkg)
    rank = {p: i for i, p in enumerate(order)}
    mods = sorted(pkg["modules"], key=lambda m: rank[tuple(m["path"])])
    out = []
    for m in mods:
        _, flat = render_module_lines(m)
        children = [c["path"][-1] for c in mods if len(c["path"]) == len(m["path"]) + 1 and c["path"][:-1] == m["path"]] if m["init"] else []
        body = []
        for st, ln in flat:
            tag = st[0]
            if tag == "def":
                body.append(["def", ln, st[1], "class" if st[2] == "class" else "function"])
            elif tag == "from":
                _, target, name, asname, style = st
                bare = style == "rel" and render_from_module(m, target, style) == "."
                body.append(["from", ln, list(target), name, [] if asname is None else [asname], bare])
            elif tag == "star":
                body.append(["star", ln, list(st[1])])
            elif tag == "import":
                body.append(["import", ln, list(st[1]), [] if st[2] is None else [st[2]]])
            else:
                items = [["s", it[1]] if it[0] == "s" else ["ref", it[1], it[0] == "attr"] for it in st[2]]
                body.append([tag, ln, items])
        out.append([list(m["path"]), bool(m["init"]), children, body])
    return out


def model_inputs(pkg, root=None):
    ab = abstract_package(pkg, root)
    order = [p.split(".") for p in pkg["order"]]
    return [["load", pkg["name"], ab], ["sched", pkg["name"], ab, order], ["spec", ab, order], ["wf", pkg["name"], ab, order],
            ["phases", pkg["name"], ab]]


NMODEL = 5      # requests per package


def _items(ex):
    if ex == [] or ex is None:
        return None
    out = []
    for e in ex[0]:
        if isinstance(e, str):
            out.append(e)
        else:
            out.append("<unexpanded:" + (e[1] + ".__all__" if e[2] else e[1]) + ">")
    return out


def decode_model_table(tv):
    mods = {}
    for path, ex, names in tv:
        ns = {}
        for n, v in names:
            ns[n] = ["unresolved"] if v[0] == "unresolved" else [v[0], v[1]]
        mods[path] = {"names": ns, "all": _items(ex)}
    return mods


def decode_load(r):
    if r[0] == "ok":
        alts = {}
        for mp, n, views in r[5]:
            alts[(mp, n)] = [["unresolved"] if v[0] == "unresolved" else [v[0], v[1]] for v in views]
        return {"error": None, "modules": decode_model_table(r[1]), "f3": [list(x) for x in r[2]], "unsupported": bool(r[3]),
                "dropped": [list(x) for x in r[4]], "alts": alts, "xpending": [list(x) for x in r[6]], "stale": [list(x) for x in r[7]]}
    base = {"modules": {}, "f3": [], "dropped": [], "alts": {}, "xpending": [], "stale": []}
    if r[0] == "crash":
        return dict(base, error=r[1], unsupported=False)
    return dict(base, error="model:" + str(r[0]), unsupported=True)


def decode_spec(r):
    if r[0] != "ok":
        return {"error": r[1], "modules": {}}
    mods = {}
    for path, al, names in r[1]:
        mods[path] = {"names": {n: [v[0], v[1]] for n, v in names}, "all": None if al == [] or al is None else list(al[0])}
    return {"error": None, "modules": mods}


def strip_view(view):
    """Griffe view reduced to what the model predicts: kind + final path, or unresolved."""
    mods = {}
    for mp, m in view["modules"].items():
        mods[mp] = {"names": {n: (["unresolved"] if v[0] == "unresolved" else v[:2]) for n, v in m["names"].items()}, "all": m["all"]}
    return mods


def diff_model_impl(model, view):
    """Differences between the faithful model's prediction and griffe.load's result."""
    if model["error"] or view["error"]:
        me = model["error"]
        ve = view["error"].split(":")[0] if view["error"] else None
        return [] if me == ve else [["<load>", "", me, view["error"]]]
    g = strip_view(view)
    diffs = []
    hidden = set()
    for mp in sorted(set(model["modules"]) | set(g)):
        a, b = model["modules"].get(mp), g.get(mp)
        if a is not None and b is None:
            # The view enumerates the modules it reaches through members; the model's table lists every source file.  A module whose
            # member in its parent was replaced by something else (an alias that does not lead back to it) cannot be visited: no difference
            # when the model predicts exactly that member (the name comparison of the parent covers it), nor below such a module.
            par, _, nm = mp.rpartition(".")
            pa, pb = model["modules"].get(par), g.get(par)
            if par in hidden or (pa is not None and pb is not None and pb["names"].get(nm) is not None
                                 and pa["names"].get(nm) == pb["names"].get(nm) and pb["names"].get(nm)[:2] != ["module", mp]):
                hidden.add(mp)
                continue
        if a is None or b is None:
            diffs.append([mp, "<module>", a is not None, b is not None])
            continue
        for n in sorted(set(a["names"]) | set(b["names"])):
            if a["names"].get(n) != b["names"].get(n):
                if b["names"].get(n) in model["alts"].get((mp, n), []):
                    continue      # a target resolved (and cached) before the member it points at was replaced: finding F7
                diffs.append([mp, n, a["names"].get(n), b["names"].get(n)])
        if a["all"] != b["all"]:
            diffs.append([mp, "__all__", a["all"], b["all"]])
    return diffs


def diff_spec_oracle(spec, oracle):
    """(O): the spec's namespaces vs the interpreter's, modulo attributes bound on a package by importing its submodules."""
    if spec["error"] or oracle["error"]:
        return [["<import>", "", spec["error"], oracle["error"]]]
    diffs = []
    for mp, om in oracle["modules"].items():
        sm = spec["modules"].get(mp)
        if sm is None:
            diffs.append([mp, "<module>", None, "present"])
            continue
        for n in sorted(set(om["names"]) | set(sm["names"])):
            sv, ov = sm["names"].get(n), om["names"].get(n)
            if sv is not None and attr_eq(sv, ov):
                continue
            if sv is None and ov is not None and ov[0] == "module" and ov[1].rsplit(".", 1)[-1] == n:
                continue          # side effect of importing a submodule (directly in the package, or copied by a wildcard import)
            diffs.append([mp, n, sv, ov])
        sa, oa = sm["all"], om["all"]
        if (sa is None) != (oa is None) or (sa is not None and list(sa) != list(oa)):
            diffs.append([mp, "__all__", sa, oa])
    return diffs


def attr_eq(g, o):
    """Same kind and same defining path (an `__all__` list object may be reachable under several paths when empty tuples are shared)."""
    if g is None or o is None:
        return g is o
    if o[0] == "attribute":
        return g[0] == "attribute" and g[1] in o[1]
    return g[:2] == o


# --------------------------------------------------------------------------------------------------------------------
# Known findings: witnesses (abstract packages) and the classification of failing inputs
# --------------------------------------------------------------------------------------------------------------------
def _m(path, init, body):
    return {"path": path, "init": init, "body": body}


def all_witnesses():
    """finding id -> package: the witnesses of the open findings and of the repaired ones (F1, F2, F6, F9, F11)."""
    W = {}
    # F1: expand_exports returns at a package without __all__ before visiting its submodules
    W["C05-F1"] = {"name": "wf1", "order": ["wf1.a", "wf1.b", "wf1"], "modules": [
        _m(["wf1"], True, [["star", ["wf1", "b"], "abs"]]),
        _m(["wf1", "a"], False, [["setall", "list", [["s", "fa"]]], ["def", "fa", "func"], ["def", "ga", "func"]]),
        _m(["wf1", "b"], False, [["from", ["wf1"], "a", None, "abs"], ["star", ["wf1", "a"], "abs"],
                                 ["setall", "plus", [["attr", "a", "list"], ["s", "fb"]]], ["def", "fb", "func"]])]}
    # F2: __all__ built from the __all__ of a module reached through a re-exported module alias: Alias.exports has no setter
    W["C05-F2"] = {"name": "wf2", "order": ["wf2", "wf2.m0", "wf2.m1", "wf2.m2"], "modules": [
        _m(["wf2"], True, [["setall", "list", []]]),
        _m(["wf2", "m0"], False, [["setall", "list", [["s", "f"]]], ["def", "f", "func"]]),
        _m(["wf2", "m1"], False, [["from", ["wf2"], "m0", "x", "abs"]]),
        _m(["wf2", "m2"], False, [["from", ["wf2", "m1"], "x", None, "abs"], ["star", ["wf2", "m0"], "abs"],
                                  ["setall", "plus", [["attr", "x", "list"], ["s", "g"]]], ["def", "g", "func"]])]}
    # F3: a submodule wildcard-imports its package while the package's own wildcard expansion is still pending
    W["C05-F3"] = {"name": "wf3", "order": ["wf3.m0", "wf3", "wf3.m1"], "modules": [
        _m(["wf3"], True, [["star", ["wf3", "m0"], "abs"], ["setall", "list", [["s", "f"]]]]),
        _m(["wf3", "m0"], False, [["def", "f", "func"]]),
        _m(["wf3", "m1"], False, [["star", ["wf3"], "abs"]])]}
    # F4: two statements on one line: the later one does not override (strict line-number comparison)
    W["C05-F4"] = {"name": "wf4", "order": ["wf4", "wf4.a", "wf4.b", "wf4.c"], "modules": [
        _m(["wf4"], True, []),
        _m(["wf4", "a"], False, [["def", "f", "func"]]),
        _m(["wf4", "b"], False, [["def", "f", "func"]]),
        _m(["wf4", "c"], False, [["semi", ["star", ["wf4", "a"], "abs"], ["star", ["wf4", "b"], "abs"]]])]}
    # F5: a wildcard import of a package without __all__ does not expose the submodules bound on it by earlier imports
    W["C05-F5"] = {"name": "wf5", "order": ["wf5.m0", "wf5", "wf5.m1"], "modules": [
        _m(["wf5"], True, [["from", ["wf5", "m0"], "f", None, "rel"]]),
        _m(["wf5", "m0"], False, [["def", "f", "func"]]),
        _m(["wf5", "m1"], False, [["star", ["wf5"], "abs"]])]}
    # F6 (repaired): __all__.extend(...) was ignored
    W["C05-F6"] = {"name": "wf6", "order": ["wf6", "wf6.a", "wf6.d", "wf6.e"], "modules": [
        _m(["wf6"], True, []),
        _m(["wf6", "a"], False, [["def", "f", "func"]]),
        _m(["wf6", "d"], False, [["star", ["wf6", "a"], "abs"], ["setall", "list", [["s", "g"]]], ["extall", "list", [["s", "f"]]], ["def", "g", "func"]]),
        _m(["wf6", "e"], False, [["star", ["wf6", "d"], "abs"]])]}
    # F7: an alias resolved before wildcard expansion keeps pointing at the alias member that the expansion replaces
    W["C05-F7"] = {"name": "wf7", "order": ["wf7", "wf7.a", "wf7.b", "wf7.c", "wf7.d"], "modules": [
        _m(["wf7"], True, [["setall", "list", []]]),
        _m(["wf7", "a"], False, [["def", "f", "func"]]),
        _m(["wf7", "b"], False, [["def", "f", "func"]]),
        _m(["wf7", "c"], False, [["from", ["wf7", "a"], "f", None, "abs"], ["star", ["wf7", "b"], "abs"]]),
        _m(["wf7", "d"], False, [["from", ["wf7", "c"], "f", None, "abs"], ["setall", "list", [["s", "f"]]]])]}
    # F8: the source of an __all__ is reached through a name that only a wildcard import provides
    W["C05-F8"] = {"name": "wf8", "order": ["wf8", "wf8.m0", "wf8.m1", "wf8.m2", "wf8.m3"], "modules": [
        _m(["wf8"], True, [["setall", "list", []]]),
        _m(["wf8", "m0"], False, [["setall", "list", [["s", "f"]]], ["def", "f", "func"]]),
        _m(["wf8", "m1"], False, [["from", ["wf8"], "m0", None, "abs"]]),
        _m(["wf8", "m2"], False, [["star", ["wf8", "m1"], "abs"]]),
        _m(["wf8", "m3"], False, [["star", ["wf8", "m0"], "abs"], ["from", ["wf8", "m2"], "m0", "w0", "abs"],
                                  ["setall", "list", [["attr", "w0", "list"], ["s", "m0"]]]])]}
    # F9: the submodule special case skips an overwrite but keeps the older line number
    W["C05-F9"] = {"name": "wf9", "order": ["wf9", "wf9.a", "wf9.x", "wf9.y", "wf9.c"], "modules": [
        _m(["wf9"], True, []),
        _m(["wf9", "a"], False, [["def", "g", "func"]]),
        _m(["wf9", "x"], False, [["import", ["wf9", "a"], "f"]]),
        _m(["wf9", "y"], False, [["def", "f", "func"]]),
        _m(["wf9", "c"], False, [["import", ["wf9", "a"], "f"], ["star", ["wf9", "x"], "abs"], ["star", ["wf9", "y"], "abs"],
                                 ["star", ["wf9", "x"], "abs"]])]}
    # F10: expand_exports visits a package's submodules from within the expansion of a module that names the package
    W["C05-F10"] = {"name": "wf10", "order": ["wf10.s", "wf10.m1", "wf10", "wf10.s.n1"], "modules": [
        _m(["wf10"], True, [["star", ["wf10", "m1"], "rel"], ["from", ["wf10"], "m1", "w0", "rel"], ["setall", "list", [["attr", "w0", "list"]]]]),
        _m(["wf10", "m1"], False, [["star", ["wf10", "s"], "rel"], ["import", ["wf10", "s"], "w1"],
                                   ["setall", "list", [["attr", "w1", "list"], ["s", "g"]]], ["def", "g", "func"]]),
        _m(["wf10", "s"], True, [["setall", "list", [["s", "h"]]], ["def", "h", "func"]]),
        _m(["wf10", "s", "n1"], False, [["star", ["wf10", "m1"], "rel"], ["import", ["wf10", "m1"], "w2"],
                                        ["setall", "list", [["attr", "w2", "list"]]]])]}
    # F11 (repaired): a name bound to another module's __all__ and imported again from the intermediate module was expanded to that module's exports
    W["C05-F11"] = {"name": "wf11", "order": ["wf11", "wf11.a", "wf11.b", "wf11.c"], "modules": [
        _m(["wf11"], True, []),
        _m(["wf11", "a"], False, [["setall", "list", [["s", "f"]]], ["def", "f", "func"]]),
        _m(["wf11", "b"], False, [["from", ["wf11", "a"], "__all__", "a0", "rel"], ["def", "g", "func"], ["setall", "list", [["s", "g"]]]]),
        _m(["wf11", "c"], False, [["star", ["wf11", "a"], "rel"], ["from", ["wf11", "b"], "a0", "a1", "rel"],
                                  ["setall", "plus", [["name", "a1", "list"], ["s", "h"]]], ["def", "h", "func"]])]}
    # F12: the name an __all__ is assembled from is rebound by a wildcard import between its import and the __all__ statement
    W["C05-F12"] = {"name": "wf12", "order": ["wf12", "wf12.a", "wf12.b", "wf12.d", "wf12.c"], "modules": [
        _m(["wf12"], True, []),
        _m(["wf12", "a"], False, [["setall", "list", [["s", "f"]]], ["def", "f", "func"]]),
        _m(["wf12", "b"], False, [["setall", "list", [["s", "g"]]], ["def", "g", "func"]]),
        _m(["wf12", "d"], False, [["from", ["wf12", "a"], "__all__", "a0", "rel"]]),
        _m(["wf12", "c"], False, [["star", ["wf12", "a"], "rel"], ["from", ["wf12", "b"], "__all__", "a0", "rel"], ["star", ["wf12", "d"], "rel"],
                                  ["setall", "list", [["name", "a0", "list"]]]])]}
    # F13 (repaired): `from .a import __all__` binds the importing module's own __all__ to a's list; Griffe recorded no exports
    W["C05-F13"] = {"name": "wf13", "order": ["wf13", "wf13.a", "wf13.c", "wf13.u"], "modules": [
        _m(["wf13"], True, []),
        _m(["wf13", "a"], False, [["setall", "list", [["s", "f"]]], ["def", "f", "func"], ["def", "g", "func"]]),
        _m(["wf13", "c"], False, [["star", ["wf13", "a"], "rel"], ["from", ["wf13", "a"], "g", None, "rel"], ["from", ["wf13", "a"], "__all__", None, "rel"]]),
        _m(["wf13", "u"], False, [["star", ["wf13", "c"], "rel"]])]}
    # F14 (repaired): the else branch of `if not TYPE_CHECKING:` does not run, Griffe treated it as run-time code
    W["C05-F14"] = {"name": "wf14", "order": ["wf14", "wf14.a", "wf14.n", "wf14.u"], "modules": [
        _m(["wf14"], True, []),
        _m(["wf14", "a"], False, [["def", "f", "func"], ["def", "g", "func"]]),
        _m(["wf14", "n"], False, [["from", ["wf14", "a"], "f", None, "rel"],
                                  ["guard", "not-tc", [["def", "h", "func"]], [["from", ["wf14", "a"], "g", "z", "rel"]]]]),
        _m(["wf14", "u"], False, [["star", ["wf14", "n"], "rel"]])]}
    # F15: a name bound again for type checkers only hides the run-time binding (one member per name)
    W["C05-F15"] = {"name": "wf15", "order": ["wf15", "wf15.a", "wf15.s", "wf15.u"], "modules": [
        _m(["wf15"], True, []),
        _m(["wf15", "a"], False, [["def", "g", "func"]]),
        _m(["wf15", "s"], False, [["def", "f", "func"], ["guard", "tc", [["from", ["wf15", "a"], "g", "f", "rel"]], []]]),
        _m(["wf15", "u"], False, [["star", ["wf15", "s"], "rel"]])]}
    # F16 (repaired): a wildcard import inside `if TYPE_CHECKING:` was expanded into run-time members
    W["C05-F16"] = {"name": "wf16", "order": ["wf16", "wf16.a", "wf16.t", "wf16.u"], "modules": [
        _m(["wf16"], True, []),
        _m(["wf16", "a"], False, [["def", "f", "func"]]),
        _m(["wf16", "t"], False, [["guard", "tc", [["star", ["wf16", "a"], "rel"]], []], ["def", "h", "func"]]),
        _m(["wf16", "u"], False, [["star", ["wf16", "t"], "rel"]])]}
    return W


# findings about statements the Coq grammar does not have (bindings under TYPE_CHECKING guards, a statement binding the name __all__):
# replayed on the implementation only
OUTSIDE_MODEL = ("C05-F13", "C05-F14", "C05-F15", "C05-F16")
REPAIRED = ("C05-F1", "C05-F2", "C05-F6", "C05-F9", "C05-F11", "C05-F13", "C05-F14", "C05-F16")


def witness_packages():
    """Open findings only: each witness is replayed on the implementation on every run."""
    return {k: v for k, v in all_witnesses().items() if k not in REPAIRED}


def star_cycle_dependents(pkg):
    """Modules on a cycle of wildcard imports, and every module that imports (in any form) from one of them, transitively.  Back-and-forth
    wildcard imports are what the loader's own comment calls mishandled; the identity of the alias objects decides there (cyclic stream)."""
    star, anyedge = {}, {}
    for m, st in stmt_tags(pkg):
        me = dotted(m["path"])
        if st[0] == "star":
            star.setdefault(me, set()).add(dotted(st[1])); anyedge.setdefault(me, set()).add(dotted(st[1]))
        elif st[0] == "from":
            anyedge.setdefault(me, set()).update({dotted(st[1]), dotted(st[1] + [st[2]])})
        elif st[0] == "import":
            anyedge.setdefault(me, set()).add(dotted(st[1]))

    def reach(g, a):
        seen, todo = set(), list(g.get(a, ()))
        while todo:
            x = todo.pop()
            if x not in seen:
                seen.add(x); todo.extend(g.get(x, ()))
        return seen
    cyc = {a for a in star if a in reach(star, a)}
    return {dotted(m["path"]) for m in pkg["modules"] if dotted(m["path"]) in cyc or reach(anyedge, dotted(m["path"])) & cyc}


def has_stmt(pkg, tag):
    def walk(st):
        if st[0] == tag:
            return True
        if st[0] == "guard":
            return any(walk(x) for x in st[2] + st[3])
        return st[0] == "semi" and any(walk(x) for x in st[1:])
    return any(walk(st) for m in pkg["modules"] for st in m["body"])


def renamed_all_sources(pkg):
    """[module, local]: a name-form source of an __all__ whose binding imports a name other than `__all__` (a renamed list re-exported by an
    intermediate module; former finding F11).  Used to observe the input distribution only."""
    out = []
    for m in pkg["modules"]:
        sts = [st for _, st in stmt_tags({"modules": [m]})]
        used = {i[1] for st in sts if st[0] in ("setall", "addall", "extall") for i in st[2] if i[0] == "name"}
        for st in sts:
            if st[0] == "from" and st[2] != "__all__" and (st[3] or st[2]) in used:
                out.append([dotted(m["path"]), st[3] or st[2]])
    return out


def _binds(st, l):
    if st[0] == "def":
        return st[1] == l
    if st[0] == "from":
        return (st[3] or st[2]) == l
    if st[0] == "import":
        return (st[2] or st[1][0]) == l
    return False


def flow_sensitive_sources(pkg, oracle=None):
    """[module, local]: a source name of an __all__ that is not bound exactly once in its module, by an import standing before the __all__
    statement with no wildcard import in between that rebinds it: CPython reads the name when the statement runs, Griffe resolves it once for
    the whole module, before wildcard imports are expanded.  Python mirror of the negation of the Coq predicate `refs_ok_from` (finding F12);
    with the interpreter's namespaces at hand, a wildcard import in between only counts when it exposes the name."""
    def exposes(target, l):
        if oracle is None:
            return True
        om = oracle["modules"].get(dotted(target))
        if om is None:
            return True
        return l in om["all"] if om["all"] is not None else (l in om["names"] and not l.startswith("_"))
    out = []
    for m in pkg["modules"]:
        sts = [st for _, st in stmt_tags({"modules": [m]})]
        for k, st in enumerate(sts):
            if st[0] not in ("setall", "addall", "extall"):
                continue
            for it in st[2]:
                if it[0] == "s":
                    continue
                b = [j for j, s2 in enumerate(sts) if _binds(s2, it[1])]
                if not (len(b) == 1 and b[0] < k and not any(sts[j][0] == "star" and exposes(sts[j][1], it[1]) for j in range(b[0] + 1, k))):
                    out.append([dotted(m["path"]), it[1]])
    return out


def f5_signature(x, oracle):
    """[module, name, griffe, cpython]: CPython sees a submodule bound on a star-imported package that has no __all__; Griffe has no such name
    (or an alias that cannot resolve because the name it imports is such a submodule attribute)."""
    _, n, g, o = x
    if n in ("__all__", "<module>", "") or not isinstance(o, list) or not o:
        return False
    if o is None or o[0] != "module" or (g is not None and g[0] != "unresolved"):
        return False
    parent, _, last = o[1].rpartition(".")
    return last == n and parent in oracle["modules"] and oracle["modules"][parent]["all"] is None


def classify(pkg, view, oracle, ml, ms_view, dmi, f5_model):
    """Yield (diff, finding id | None) for every difference between griffe.load and the interpreter."""
    d = diff_views(view, oracle)
    if view["error"]:
        return [(d[0], None)]
    sched = {"error": None, "modules": ms_view}
    ds = {(x[0], x[1]): x for x in diff_views(sched, oracle)}
    out = []
    same_line = has_stmt(pkg, "semi")
    flow = bool(flow_sensitive_sources(pkg, oracle))
    for x in d:
        key = (x[0], x[1])
        if x[1] == "__all__" or x[2] is None:
            g2 = x[2]
        else:
            g2 = ["unresolved"] if x[2][0] == "unresolved" else x[2][:2]
        in_sched = key in ds and ds[key][2] == g2
        stale = x[1] != "__all__" and g2 is not None and g2 in ml["alts"].get(key, []) and ml["modules"].get(x[0], {}).get("names", {}).get(x[1]) != g2
        if stale:
            out.append((x, "C05-F7"))
        elif in_sched:
            # the dependency-order schedule of the same per-module rules differs from CPython in the same way
            if f5_signature(x, oracle) or (f5_model and not dmi):
                # by signature (a submodule attribute the import system binds: outside py_import), or because the model's predicate holds and
                # the model reproduces Griffe on the whole package (the missing submodule name propagates through imports and __all__ sources)
                out.append((x, "C05-F5"))
            elif same_line and not dmi:
                out.append((x, "C05-F4"))
            elif flow and not dmi:
                out.append((x, "C05-F12"))
            else:
                out.append((x, None))
        else:
            # only the real traversal order is wrong: explained when the model predicts the result and reports the gap event
            if not dmi and (ml["f3"] or ml["dropped"] or ml["stale"] or ml["xpending"]):
                f8 = ml["dropped"] or ml["stale"]
                ev = {"f3": ml["f3"], "f8": f8, "xpending": ml["xpending"]}
                only = lambda k: ev[k] and not any(ev[o] for o in ev if o != k)
                out.append((x, "C05-F3" if only("f3") else "C05-F8" if only("f8") else "C05-F10" if only("xpending") else
                            "C05-F3" if ml["f3"] else "C05-F10" if ml["xpending"] else "C05-F8"))
            else:
                out.append((x, None))
    return out


# --------------------------------------------------------------------------------------------------------------------
# Hand-written cases (replayed first): one per statement form / rule of the anchored code
# --------------------------------------------------------------------------------------------------------------------
def hand_packages():
    H = []
    # local definition before / after a wildcard that rebinds it; two wildcards; the same wildcard twice around a definition
    H.append({"name": "h0", "order": ["h0", "h0.a", "h0.b", "h0.c"], "modules": [
        _m(["h0"], True, []),
        _m(["h0", "a"], False, [["def", "f", "func"], ["def", "g", "func"], ["def", "K", "class"], ["def", "_p", "func"]]),
        _m(["h0", "b"], False, [["def", "f", "func"], ["def", "h", "func"]]),
        _m(["h0", "c"], False, [["def", "f", "func"], ["star", ["h0", "a"], "abs"], ["def", "g", "func"], ["star", ["h0", "b"], "rel"],
                                ["def", "h", "func"], ["star", ["h0", "a"], "rel"], ["def", "K", "class"]])]})
    # __all__ before definitions, private name exported, explicit import re-exported, chain of 5 re-exports, tuple/+=/annotated forms
    H.append({"name": "h1", "order": ["h1.m0", "h1.m1", "h1.m2", "h1.m3", "h1.m4", "h1"], "modules": [
        _m(["h1"], True, [["star", ["h1", "m4"], "rel"], ["from", ["h1", "m4"], "f", "z", "rel"]]),
        _m(["h1", "m0"], False, [["setall", "tuple", [["s", "f"], ["s", "_p"]]], ["def", "f", "func"], ["def", "_p", "func"], ["def", "g", "func"]]),
        _m(["h1", "m1"], False, [["star", ["h1", "m0"], "rel"], ["from", ["h1", "m0"], "g", "h", "abs"]]),
        _m(["h1", "m2"], False, [["from", ["h1"], "m1", "w0", "abs"], ["star", ["h1", "m1"], "abs"], ["setall", "ann", [["s", "h"]]],
                                 ["addall", "list", [["s", "f"]]]]),
        _m(["h1", "m3"], False, [["star", ["h1", "m2"], "abs"], ["from", ["h1", "m2"], "__all__", "a0", "rel"],
                                 ["setall", "plus", [["name", "a0", "list"], ["s", "K"]]], ["def", "K", "class"]]),
        _m(["h1", "m4"], False, [["import", ["h1", "m3"], "w0"], ["star", ["h1", "m3"], "rel"], ["setall", "list", [["attr", "w0", "list"]]]])]})
    # sub-packages, relative imports of every level, `from . import sub` in an __init__, `import a.b.c`, module objects re-exported
    H.append({"name": "h2", "order": ["h2.s.t.d0", "h2.s.t", "h2.s.n0", "h2.s", "h2.m0", "h2"], "modules": [
        _m(["h2"], True, [["setall", "list", [["s", "s"], ["s", "K"]]], ["from", ["h2"], "s", None, "rel"], ["from", ["h2", "m0"], "K", None, "rel"],
                          ["from", ["h2"], "m0", "z", "rel"], ["from", ["h2"], "s", "y", "abs"]]),
        _m(["h2", "m0"], False, [["from", ["h2", "s", "t", "d0"], "K", None, "rel"], ["import", ["h2", "s", "n0"], None],
                                 ["from", ["h2", "s"], "n0", "y", "rel"]]),
        _m(["h2", "s"], True, [["from", ["h2", "s"], "n0", None, "rel"], ["star", ["h2", "s", "t"], "rel"], ["from", ["h2", "s", "n0"], "g", "f", "rel"]]),
        _m(["h2", "s", "n0"], False, [["from", ["h2", "s", "t", "d0"], "K", "g", "rel"], ["import", ["h2", "s", "t", "d0"], "x"]]),
        _m(["h2", "s", "t"], True, [["star", ["h2", "s", "t", "d0"], "rel"], ["setall", "tuple", [["s", "K"], ["s", "d0"]]]]),
        _m(["h2", "s", "t", "d0"], False, [["def", "K", "class"], ["def", "_Q", "class"]])]})
    # blocks guarded by TYPE_CHECKING: the negated test and the else branch run, the plain test binds names for type checkers only
    H.append({"name": "h3", "order": ["h3", "h3.a", "h3.c", "h3.d", "h3.e"], "modules": [
        _m(["h3"], True, []),
        _m(["h3", "a"], False, [["def", "f", "func"], ["def", "K", "class"]]),
        _m(["h3", "c"], False, [["guard", "not-tc", [["from", ["h3", "a"], "f", None, "rel"], ["def", "g", "func"]], []],
                                ["guard", "typing-tc", [["from", ["h3", "e"], "h", "T0", "abs"], ["def", "T1", "class"]], [["from", ["h3", "a"], "K", None, "abs"]]],
                                ["guard", "not-typing-tc", [["import", ["h3", "a"], "x"]], []]]),
        _m(["h3", "d"], False, [["star", ["h3", "c"], "rel"], ["from", ["h3", "c"], "g", "z", "abs"]]),
        _m(["h3", "e"], False, [["guard", "tc", [["import", ["h3", "d"], "T0"]], []], ["star", ["h3", "d"], "abs"], ["def", "h", "func"],
                                ["setall", "list", [["s", "f"], ["s", "h"]]]])]})
    # witnesses of repaired findings (F1, F2, F6, F9, F11): they must now agree with the interpreter
    H.extend(v for k, v in all_witnesses().items() if k in REPAIRED and k not in OUTSIDE_MODEL)
    # F7, second form (round 5, shrunk from a thorough alarm): n0.f is bound twice by wildcard imports (the first alias is replaced by the second),
    # the second from `s.t` read while pending (its local f); the dead alias takes the live one's place in the register of the replaced object
    H.append({"name": "h7", "order": ["h7.s", "h7.s.t", "h7.s.t.d0", "h7.m0", "h7.s.n0", "h7"], "modules": [
        _m(["h7"], True, []),
        _m(["h7", "m0"], False, [["star", ["h7", "s", "t"], "rel"], ["from", ["h7", "s", "t", "d0"], "f", None, "rel"]]),
        _m(["h7", "s"], True, [["def", "f", "func"]]),
        _m(["h7", "s", "n0"], False, [["star", ["h7", "m0"], "rel"], ["star", ["h7", "s", "t"], "abs"]]),
        _m(["h7", "s", "t"], True, [["def", "f", "func"], ["star", ["h7", "s"], "abs"]]),
        _m(["h7", "s", "t", "d0"], False, [["def", "f", "func"], ["star", ["h7", "s", "t"], "abs"]])]})
    # a submodule whose member in its parent is replaced by an alias that does not lead back to it (not visited in Griffe's tree)
    H.append({"name": "h8", "order": ["h8.m1", "h8.m0", "h8.s", "h8.s.t", "h8.m2", "h8"], "modules": [
        _m(["h8"], True, [["star", ["h8", "m2"], "abs"]]),
        _m(["h8", "m0"], False, [["from", ["h8"], "m1", None, "abs"]]),
        _m(["h8", "m1"], False, []),
        _m(["h8", "m2"], False, [["from", ["h8", "s", "t"], "m1", None, "abs"]]),
        _m(["h8", "s"], True, [["star", ["h8", "m0"], "rel"]]),
        _m(["h8", "s", "t"], True, [["star", ["h8", "s"], "abs"]])]})
    return H


def corpus_outside_model():
    """Witnesses of repaired findings about statements outside the Coq grammar: Griffe must agree with the interpreter on them."""
    return [v for k, v in all_witnesses().items() if k in REPAIRED and k in OUTSIDE_MODEL]


def check_direct_only(ctx, pkgs):
    """Implementation against the interpreter only (no model): every difference is a violation."""
    root = ctx.scratch / "corpus-direct"
    root.mkdir(parents=True, exist_ok=True)
    for p in pkgs:
        write_package(root, p)
    orc = run_oracle(root, pkgs)
    for pkg, a in zip(pkgs, orc):
        case = {"package": pkg["name"], "order": pkg["order"], "sources": package_sources(pkg), "abstract": pkg["modules"]}
        ctx.case({"sources": case["sources"]}, True)
        view = griffe_view(root, pkg)
        view.pop("top", None)
        ctx.observe("stream", "corpus-direct")
        if a["error"]:
            ctx.tie_failure("harness", "corpus package rejected by the interpreter", a["error"], case)
            continue
        for pb in view["present"][:3]:
            ctx.property_failure(case, {"presentation": pb}, None)
        for x in diff_views(view, a):
            ctx.property_failure(case, {"module": x[0], "name": x[1], "griffe": x[2], "cpython": x[3]}, None)
    subprocess.run(["rm", "-rf", str(root)])


# --------------------------------------------------------------------------------------------------------------------
# explore
# --------------------------------------------------------------------------------------------------------------------
def stmt_tags(pkg):
    """(module, statement) for every statement that runs."""
    for m in pkg["modules"]:
        for st in runtime_stmts(m["body"]):
            yield m, st


def observe_package(ctx, pkg, stream):
    ctx.observe("stream", stream)
    ctx.observe("modules", len(pkg["modules"]))
    ctx.observe("depth", max(len(m["path"]) for m in pkg["modules"]))
    pos = {p: i for i, p in enumerate(pkg["order"])}
    for m, st in stmt_tags(pkg):
        t = st[0]
        if t == "from":
            t = "from-rel" if st[4] == "rel" else "from-abs"
            if st[2] == "__all__":
                t = "from-__all__"
            elif [dotted(m["path"]), st[3] or st[2]] in renamed_all_sources({"modules": [m]}):
                t = "from-renamed-__all__"
            if st[3]:
                t += "-as"
        elif t == "star":
            t = "star-" + st[2]
        elif t == "import":
            t = "import-as" if st[2] else "import"
        elif t in ("setall", "addall", "extall"):
            nf = sum(1 for i in st[2] if i[0] != "s")
            ctx.observe("all_form", t + ":" + st[1] + (f"+foreign{nf}" if nf else ""))
            if nf >= 2:
                kinds = sorted({i[0] for i in st[2] if i[0] != "s"})
                ctx.observe("all_multi_source", "+".join(kinds) + (":same-module-twice" if len({i[1] for i in st[2] if i[0] != "s"}) < nf else ""))
            strs = [i[1] for i in st[2] if i[0] == "s"]
            if len(set(strs)) < len(strs):
                ctx.observe("all_duplicate_string", t)
        ctx.observe("stmt", t)
    for m in pkg["modules"]:
        for st in m["body"]:
            if st[0] == "guard":
                ctx.observe("guard", st[1] + ("+else" if st[3] else ""))
    ctx.observe("all_source_binding", "flow-sensitive" if flow_sensitive_sources(pkg) else "bound-once-before-use")
    for m in pkg["modules"]:
        if m["init"] and len(m["path"]) > 0:
            kids = [c for c in pkg["modules"] if c["path"][:-1] == m["path"] and len(c["path"]) == len(m["path"]) + 1]
            if kids:
                me = pos[dotted(m["path"])]
                ctx.observe("init_position", "after-children" if all(pos[dotted(c["path"])] < me for c in kids)
                            else "before-children" if all(pos[dotted(c["path"])] > me for c in kids) else "mixed")


def chain_depth(view):
    """Longest alias chain length is not observable directly; count aliases whose final target lives in another module than their first hop."""
    return 0


def check_packages(ctx, pkgs, stream, direct=True):
    root = ctx.scratch / f"pk-{stream}-{ctx.stats.get('batches', 0)}"
    ctx.count("batches")
    root.mkdir(parents=True, exist_ok=True)
    for p in pkgs:
        write_package(root, p)
    o1 = run_oracle(root, pkgs)
    o2 = run_oracle(root, pkgs, reverse=True)
    ins = [x for p in pkgs for x in model_inputs(p, root)]
    outs = ctx.model(ins)
    for i, (pkg, a, b) in enumerate(zip(pkgs, o1, o2)):
        case = {"package": pkg["name"], "order": pkg["order"], "sources": package_sources(pkg), "abstract": pkg["modules"]}
        ml = decode_load(outs[NMODEL * i])
        ms_view = decode_model_table(outs[NMODEL * i + 1][1])
        sp = decode_spec(outs[NMODEL * i + 2])
        wfr = outs[NMODEL * i + 3]
        # the hypotheses of the composition theorem (C05_composition), evaluated by the extracted model: [static, on CPython's run, conclusion]
        wf = wfr[0] == "ok" and bool(wfr[1]) and bool(wfr[2])
        # finding F5's exact predicate, from the extracted model: a package without __all__ binds one of its public submodules by a statement
        # the visitor does not record (`from . import sub`)
        f5_model = wfr[0] == "ok" and not bool(wfr[5])
        if direct:
            ctx.observe("composition_hypotheses", ("py_import-error" + ("" if wfr[1] else "+not-wf_prog")) if wfr[0] != "ok" else
                        "hold" if wf else "not-wf_prog" if not wfr[1] else "not-wf_run")
        if wf and not wfr[3]:
            ctx.tie_failure("proof", "C05_composition contradicted by the extracted model", wfr, case)
        # the real traversal against the schedule steps along its completion orders (C05_load_phases_explicit): the exports phase
        # unconditionally, the wildcard phase when every wildcard import names a module of the table (ok_runb)
        ph = outs[NMODEL * i + 4]
        real_theorem = False
        if ph[0] == "ok":
            ctx.observe("two_phase_side_condition", "holds" if ph[2] else "a-wildcard-target-is-not-a-module")
            ox, ow, dep = list(ph[4]), list(ph[5]), list(pkg["order"])
            ctx.observe("completion_orders", "both=dependency-order" if ox == dep and ow == dep else
                        "wildcard-phase=dependency-order" if ow == dep else "exports-phase=dependency-order" if ox == dep else
                        "exports=wildcard" if ox == ow else "all-differ")
            if not ph[1] or (ph[2] and not ph[3]):
                ctx.tie_failure("proof", "C05_load_phases_explicit contradicted by the extracted model", ph[:4], case)
            ctx.count("two_phase_checked")
            # C05_real_traversal_agrees: [no_refsb, wf_prog on the wildcard completion order, py_import succeeds in it, wf_run, conclusion]
            rt = [bool(v) for v in ph[6]]
            hyp = rt[0] and rt[1] and rt[2] and rt[3] and bool(ph[2])
            if direct:
                ctx.observe("real_traversal_theorem", "applies" if hyp else "assembled-__all__" if not rt[0] else
                            "completion-order-not-importable" if not rt[2] else "not-wf_prog" if not rt[1] else "not-wf_run" if not rt[3] else "pseudo-member")
            if hyp and not rt[4]:
                ctx.tie_failure("proof", "C05_real_traversal_agrees contradicted by the extracted model", ph[:4] + [rt], case)
            real_theorem = hyp
        observe_package(ctx, pkg, stream)
        view = griffe_view(root, pkg)
        top = view.pop("top", None)
        subs = [m for m in pkg["modules"] if len(m["path"]) > 1]
        if subs and view["error"] is None and ctx.rng.random() < 0.34:
            # history of the loader object: loading a module of the package first, then the package, with ONE loader gives what a fresh loader gives
            pre = dotted(ctx.rng.choice(subs)["path"])
            hist = griffe_view(root, pkg, preload=pre)
            hist.pop("top", None)
            ctx.count("loader_history_checked")
            if (hist["error"], hist["modules"]) != (None, view["modules"]):
                hd = [[mp, n, (hist["modules"].get(mp) or {"names": {}})["names"].get(n), v] for mp, m in view["modules"].items() for n, v in m["names"].items()
                      if (hist["modules"].get(mp) or {"names": {}})["names"].get(n) != v]
                ha = [[mp, "__all__", (hist["modules"].get(mp) or {}).get("all"), m["all"]] for mp, m in view["modules"].items()
                      if (hist["modules"].get(mp) or {}).get("all") != m["all"]]
                ctx.property_failure({"package": pkg["name"], "sources": case["sources"], "loads_on_one_loader": [pre, pkg["name"]]},
                                     {"loader_history": "second load differs from a fresh load", "error": hist["error"], "second_vs_fresh": (ha + hd)[:6]}, None)
        leak = any(n.endswith("/*") for m in ml["modules"].values() for n in m["names"])
        nontrivial = any(st[0] in ("star", "setall") for _, st in stmt_tags(pkg))
        ctx.case({"sources": case["sources"]}, nontrivial)
        # ---- (C) faithful model vs implementation (needs no interpreter: also run on packages the interpreter rejects)
        ctx.observe("model_outcome", "crash:" + ml["error"] if ml["error"] else "pseudo-member-left" if leak else "f3" if ml["f3"] else
                    "f8-dropped" if ml["dropped"] else "f8-stale-source" if ml["stale"] else "f10-exports-pending" if ml["xpending"] else
                    "f7-replaced-alias" if ml["alts"] else "clean")
        if ml["error"] and ml["error"].startswith("model:"):
            ctx.tie_failure("harness", "the model ran out of fuel or rejected its input", ml["error"], case)
            dmi = []
        elif ml["unsupported"]:
            ctx.count("model_unsupported")
            dmi = []
        else:
            dmi = diff_model_impl(ml, view)
            if not direct:
                # cyclic packages: whether a chain through a cycle resolves depends on resolution order and caching (C06's subject)
                # ... and a submodule hidden behind such an alias (the cyclic alias replaced the submodule member) is not visited
                unres = {(x[0], x[1]) for x in dmi if ["unresolved"] in (x[2], x[3])}
                tangled = star_cycle_dependents(pkg)
                dmi = [x for x in dmi if not (x[0] in tangled and x[1] not in ("<module>", "__all__") and x[2] is not None and x[3] is not None)]
                # (nor is anything below such a submodule)
                hid = {x[0] for x in dmi if x[1] == "<module>" and tuple(x[0].rsplit(".", 1)) in unres}
                dmi = [x for x in dmi if ["unresolved"] not in (x[2], x[3])
                       and not (x[1] == "<module>" and (x[0] in hid or any(x[0].startswith(h + ".") for h in hid)))]
            ctx.count("c_compared")
            if dmi:
                ctx.tie_failure("correspondence", "griffe_load(model) vs griffe.load", {"diffs": dmi[:6], "model_flags": [ml["f3"], ml["dropped"], ml["xpending"], ml["stale"]]}, case)
        # the unproved link between the real traversal and the dependency-order schedule, checked on every clean run
        if direct and not ml["error"] and not ml["f3"] and not ml["dropped"] and not ml["stale"] and not ml["xpending"] and not ml["unsupported"]:
            if ml["modules"] != ms_view and (a["error"] is None and not a["flags"]):
                ctx.tie_failure("correspondence", "griffe_load(model) vs griffe_sched(model) on a run without gap events",
                                {"real": ml["modules"], "sched": ms_view}, case)
            ctx.count("real_vs_sched_compared")
        if not direct:
            continue          # cyclic packages: outside the property; only the model-vs-implementation tie is checked
        # ---- validity: the interpreter imports the package, never reads a partially initialised module, and the result does not
        #      depend on the order in which the submodules are imported
        if a["error"] or b["error"]:
            ctx.observe("validity", "import-error:" + (a["error"] or b["error"]).split(":")[0])
            continue
        if a["flags"] or b["flags"]:
            ctx.observe("validity", "partial-module-read")
            continue
        if a["modules"] != b["modules"]:
            ctx.observe("validity", "import-order-dependent")
            continue
        ctx.observe("validity", "ok")
        # ---- (O) spec vs interpreter
        if sp["error"] == "not-executed-yet":
            # py_import gives no meaning to a read of a module that has not run, unless it is a submodule name the module cannot bind itself
            ctx.observe("validity", "ok-but-outside-py_import")
            dso = []
        else:
            dso = diff_spec_oracle(sp, a)
        if dso:
            ctx.tie_failure("oracle", "py_import(model) vs CPython", {"diffs": dso[:6]}, case)
        ctx.count("o_compared")
        # the composition theorem, tied to the run: when its hypotheses hold the schedule equals py_import, which equals the interpreter up
        # to the attributes the import system binds on packages (finding F5's signature)
        if wf:
            ctx.count("composition_hypotheses_hold")
            dsched = [x for x in diff_views({"error": None, "modules": ms_view}, a) if not f5_signature(x, a)]
            if dsched and not dso:
                ctx.tie_failure("correspondence", "C05_composition: griffe_sched(model) vs CPython under wf_prog/wf_run", {"diffs": dsched[:6]}, case)
        # ---- direct evaluation of the property: griffe.load vs the interpreter
        view["top"] = top
        pres = view["present"] + (presented_facts(view, a) if not view["error"] else [])
        view.pop("top", None)
        for pb in pres[:3]:
            ctx.property_failure(case, {"presentation": pb}, None)
        cl = classify(pkg, view, a, ml, ms_view, dmi, f5_model)
        if real_theorem and not dmi and not dso:
            # the theorem says the real traversal agrees with py_import; the model reproduces Griffe; py_import equals the interpreter:
            # only attributes bound by the import system (F5's signature) can still differ, and names whose alias was resolved and cached before
            # a wildcard expansion replaced a member on its chain (F7: the theorem is about fresh resolution in the final table)
            ctx.count("real_traversal_theorem_applies")
            bad = [x for x, fid in cl if not f5_signature(x, a) and fid != "C05-F7"]
            if bad:
                ctx.tie_failure("correspondence", "C05_real_traversal_agrees: griffe.load vs CPython under the theorem's hypotheses", {"diffs": bad[:6]}, case)
        ctx.observe("direct", "equal" if not cl else "+".join(sorted({str(f) for _, f in cl})))
        for x, fid in cl:
            ctx.property_failure(case, {"module": x[0], "name": x[1], "griffe": x[2], "cpython": x[3]}, fid)
        for mp, m in (view["modules"] or {}).items():
            for n, v in m["names"].items():
                ctx.observe("member_kind", v[0])
    subprocess.run(["rm", "-rf", str(root)])


def replay_witnesses(ctx):
    W = witness_packages()
    root = ctx.scratch / "witnesses"
    root.mkdir(parents=True, exist_ok=True)
    pkgs = list(W.values())
    for p in pkgs:
        write_package(root, p)
    orc = run_oracle(root, pkgs)
    try:
        outs = ctx.model([x for p in pkgs for x in model_inputs(p, root)])
    except Exception:  # noqa: BLE001   (model unavailable: the witnesses are still replayed on the implementation)
        outs = None
    for i, (fid, pkg) in enumerate(W.items()):
        view = griffe_view(root, pkg)
        view.pop("top", None)
        d = diff_views(view, orc[i])
        ok = orc[i]["error"] is None and bool(d)
        ctx.witness(fid, ok)
        if outs is not None and fid not in OUTSIDE_MODEL:
            ml = decode_load(outs[NMODEL * i])
            dmi = diff_model_impl(ml, view)
            if dmi:
                ctx.tie_failure("correspondence", f"model vs implementation on the witness of {fid}", dmi[:4], {"sources": package_sources(pkg)})
            flags = {"C05-F3": bool(ml["f3"]), "C05-F7": bool(ml["alts"]), "C05-F8": bool(ml["dropped"] or ml["stale"]), "C05-F10": bool(ml["xpending"])}
            if fid in flags and not flags[fid]:
                ctx.tie_failure("correspondence", f"model does not report the gap event of {fid} on its witness", ml, {"sources": package_sources(pkg)})


def explore(ctx):
    replay_witnesses(ctx)
    check_packages(ctx, hand_packages(), "hand")
    check_direct_only(ctx, corpus_outside_model())
    n_flat = ctx.budget(1000, 8000)
    n_rich = ctx.budget(2000, 20000)
    k = 0
    for stream, n, rich in (("flat", n_flat, False), ("rich", n_rich, True), ("cyclic", ctx.budget(300, 2000), True)):
        done = 0
        while done < n:
            m = min(400, n - done)
            pkgs = [gen_package(ctx.rng, f"p{k + j}", rich=rich if stream != "cyclic" else (j % 2 == 0)) for j in range(m)]
            if stream == "cyclic":
                for p in pkgs:
                    add_back_edges(ctx.rng, p)
            k += m
            check_packages(ctx, pkgs, stream, direct=(stream != "cyclic"))
            done += m
            if ctx.quick and ctx.elapsed() > 90:
                ctx.notes.append(f"time budget reached after {done} {stream} packages")
                break
    if not ctx.quick:
        # vm_compute on string-heavy terms is slow: small flat packages only, plus the witnesses
        sample = [x for _ in range(3) for x in model_inputs(gen_package(ctx.rng, "xc", rich=False))]
        sample += [x for p in list(all_witnesses().values())[:3] for x in model_inputs(p)[:1]]
        ctx.cross_check_extraction(sample, n=12)


def search(ctx):
    """A tie broke and no failing input is known: implementation vs interpreter only, on a larger budget; a difference counts as
    known only by its signature (F5) or when the package has the structural trigger of F1/F2/F3 (Python mirror of the gap predicates)."""
    k = 0
    while ctx.elapsed() < 420 and k < 12000:
        pkgs = [gen_package(ctx.rng, f"s{k + j}", rich=(j % 2 == 0)) for j in range(300)]
        k += 300
        root = ctx.scratch / f"search-{k}"
        root.mkdir(parents=True, exist_ok=True)
        for p in pkgs:
            write_package(root, p)
        o1 = run_oracle(root, pkgs)
        o2 = run_oracle(root, pkgs, reverse=True)
        for pkg, a, b in zip(pkgs, o1, o2):
            if a["error"] or b["error"] or a["flags"] or b["flags"] or a["modules"] != b["modules"]:
                continue
            view = griffe_view(root, pkg)
            view.pop("top", None)
            ctx.evaluations += 1
            d = diff_views(view, a)
            if not d:
                continue
            trig = py_triggers(pkg)
            for x in d:
                if f5_signature(x, a):
                    continue
                if not view["error"] and (trig["f3"] or (trig["f8"] and (x[1] == "__all__" or x[2] is None or x[2][0] == "unresolved"))):
                    continue
                if not view["error"] and trig["f7"] and x[2] is not None and x[3] is not None and x[1] != "__all__":
                    continue
                if not view["error"] and trig["f12"] and (x[1] == "__all__" or x[2] is None or x[3] is None):
                    continue
                ctx.property_failure({"package": pkg["name"], "order": pkg["order"], "sources": package_sources(pkg), "abstract": pkg["modules"]},
                                     {"module": x[0], "name": x[1], "griffe": x[2], "cpython": x[3]}, None)
                return
        subprocess.run(["rm", "-rf", str(root)])


def py_triggers(pkg):
    """Structural over-approximations of the gap predicates, used only when the model cannot be run."""
    mods = {tuple(m["path"]): m for m in pkg["modules"]}
    refs = {p: any(st[0] in ("setall", "addall") and any(i[0] != "s" for i in st[2]) for _, st in stmt_tags({"modules": [m]})) for p, m in mods.items()}
    stars = {p: [tuple(st[1]) for _, st in stmt_tags({"modules": [m]}) if st[0] == "star"] for p, m in mods.items()}
    f3 = any(stars[t] for p in mods for t in stars[p] if t in mods)      # a wildcard import of a module that has wildcard imports of its own
    # an __all__ source named through another module's namespace (F8), or two modules with assembled __all__ (F10)
    f8 = sum(1 for v in refs.values() if v) >= 2 or any(
        st[0] == "from" and st[2] != "__all__" and st[3] and st[3][0] == "w" for m in mods.values() for _, st in stmt_tags({"modules": [m]}))
    # an explicitly imported name may be re-bound by a wildcard import of the same module (replaced alias member: F7)
    f7 = any(stars[p] and any(st[0] in ("from", "import") for _, st in stmt_tags({"modules": [m]})) for p, m in mods.items())
    return {"f3": f3, "f7": f7, "f8": f8, "f12": bool(flow_sensitive_sources(pkg))}


def replay(ctx, data):
    case = data.get("failing_input") or {}
    if "abstract" not in case:
        print("replay names no input:", data.get("no_longer_checks"))
        return 0
    pkg = {"name": case["package"], "order": case["order"], "modules": case["abstract"]}
    root = ctx.scratch / "replay"
    root.mkdir(parents=True, exist_ok=True)
    write_package(root, pkg)
    for k, s in package_sources(pkg).items():
        print("--", k)
        print(s, end="")
    orc = run_oracle(root, [pkg])[0]
    view = griffe_view(root, pkg)
    view.pop("top", None)
    print("cpython:", json.dumps(orc["modules"] if not orc["error"] else orc["error"])[:3000])
    print("griffe :", json.dumps(view["modules"] if not view["error"] else view["error"])[:3000])
    print("differences:", json.dumps(diff_views(view, orc))[:3000])
    if ctx.driver is not None:
        outs = ctx.model(model_inputs(pkg, root))
        print("model  :", json.dumps({k: v for k, v in decode_load(outs[0]).items() if k != "alts"})[:3000])
    subprocess.run(["rm", "-rf", str(root)])
    subprocess.run(["rmdir", str(ctx.scratch)], capture_output=True)      # the framework only removes the scratch directory of full runs
    return 0
