"""C03 — Stored expressions render back to equivalent Python code.

(T) Gen/C03_tables.v regenerated from expressions.py (_node_map keys/builders, the four operator maps)
(C) model build/iterate/render (Model/C03_expr.v)  vs  griffe.visit + str(expr) / expr.iterate(flat=True) / iter(expr)
(O) model ref (reference printer) and subst (string-annotation rule)  vs  CPython: ast.parse(ref) == expected tree
direct: ast.parse(str(expr)) == source tree (strings substituted per the rule), "".join(pieces) == str, one-layer
        iteration expands to the flat one, every Name/attribute of the tree is an ExprName piece in order.
        A failing input is a known finding only when the extracted model's gap classifier names that family.
"""
from __future__ import annotations

import ast
import copy
import itertools
import json
import logging
import signal
import warnings
from pathlib import Path

from harness.translate import c03_tables

ID = "C03"
LEVEL_TEXT = ("Theorems by structural induction over every expression tree (all node types Griffe maps, all operators, unbounded depth and width): flat iteration "
              "is the recursive expansion of one-layer iteration (parentheses included), the recursive iter(expr) walk of a renderer equals it whenever it ends "
              "within its fuel (decidable, evaluated by the extracted model on every case), and str() is its concatenation; the model's iterate and _precedence "
              "are defined over constants regenerated from the source (the precedence= argument of every _yield/_join call of every Expr*.iterate, the branches "
              "of _precedence, the operator tables) and proved to be the grammar's levels; building with string parsing on equals "
              "building the tree in which exactly the strings selected by the stated rule are replaced by their parsed code (flag on, not under a slice of a name "
              "chain that the module's imports resolve to typing.Literal -- the resolution, i.e. canonical_path, is inside the model; names bound by the expression "
              "itself (comprehension targets, lambda parameters: rule scope_ok) resolve to themselves --, not literal text of an f-string, not in a subscripted "
              "value, not in a lambda default, content parses); every Name / attribute name of that tree appears, in order, as a name piece; and, for the tree as "
              "it is now (all ten rendering repairs landed; the translator proves tree_fixes = fx_all), str(build e) equals a precedence-aware reference printer "
              "(conversions, format specs and escapes included) character for character for EVERY well-formed tree except those containing await (no builder) or "
              "a bare yield in a position that needs an expression: no grouping, f-string, lambda, generator, empty-tuple, yield-operand or integer-attribute "
              "hypothesis is left (C03_render_eq_reference_repaired). All statements are proved for every combination of the repairs (the printer before them is "
              "refuted by the old witnesses, kept as regression examples). What is stored does not depend on earlier builds (the model is a function; checked on "
              "sequences of modules in one process). The reference printer is tied to CPython's parser, the model to Griffe by exhaustive depth-2 and random "
              "depth-6 differential runs on str, class, flat and one-layer pieces, parent links, paths, canonical paths and modernize(); operator, node and "
              "precedence tables are regenerated from expressions.py on every run.")
LEVEL_NOTE = ("Trusted: Coq kernel, extraction, translator harness/translate/c03_tables.py (dict-literal shapes; one syntactic marker per repair, old and new "
              "shape both checked, fails closed; a tree that lost a landed repair gets no tables, so the model stays the repaired printer), the ast->pyexpr "
              "abstraction (incl. CPython's own parse of each string constant, the reading of the module header's import statements into the name table and the "
              "local-name flags; the harness's Literal and local-name flags are cross-checked against the model's rules), CPython 3.12's parser/ast.unparse as "
              "authority (nested same-quote f-strings are 3.12 syntax). Lambda parameter alignment is taken in CPython order (equality with get_parameters is "
              "C02's theorem). Constant spelling is repr (trusted; wf states that an int's repr is its digits). The order and separators of the pieces each "
              "Expr*.iterate yields are hand-modelled and tied by the exhaustive slot x child product (the precedence each slot requires is translated). The "
              "recursive-walk theorem has a fuel hypothesis (checked per case, not discharged for all trees). as_dict is outside the model.")
MODEL = ("Model.C03_run", "run_C03")
COQ_TARGETS = ["Proofs/C03_expr.vo", "Proofs/C03_repaired.vo", "Proofs/C03_walk.vo"]
RULE = ("exhaustive: every (parent node type, operand slot) x every representative child (all node types, all 4+13+2+10 operators, equal-valued constants of "
        "different types) at depth 2, rotated over the 7 storing positions (assignment value, annotation, parameter annotation/default, returns, decorator, "
        "base class) with and without `from __future__ import annotations`; every ordered pair of ==-equal constants inside one expression; history "
        "sequences: 2-3 modules visited one after the other in one process, sharing what a cache could key on while requiring different output (equal "
        "constants, the same string as annotation and as value, the same spelling bound by other imports, with/without postponed evaluation), each also in "
        "reverse order; random ast trees to depth 6 in two streams: precedence-respecting and unrestricted; string-annotation stream (strings whose content is "
        "code, Literal[...] through every import spelling incl. chains with a non-name root, two module headers binding the same names differently, nested "
        "quoting, unparseable text). non-trivial = depth >= 2 or a string constant; distinct by (position, future flag, source text). A failure that does "
        "not reproduce from its input alone in a fresh interpreter is reported with the minimised history after which it does.")
TRUSTED = ["translator harness/translate/c03_tables.py (whitelisted dict-literal shapes of expressions.py; per-repair syntactic markers; fails closed)",
           "abstraction: harness maps ast.parse(module) nodes to the model's pyexpr, calling ast.parse(value, mode='eval') for every str constant, and the "
           "module header's imports to the name table"]
ASSUMPTIONS = ["lambda parameters reach ExprLambda in CPython order with right-aligned defaults (C02_parameters_eq_cpython)",
               "string constants in generated cases are ASCII; names never shadow the imports of the module header; names used in generated expressions are "
               "not members of the generated module"]
TRANSLATOR_NAME = "harness/translate/c03_tables.py"

logging.disable(logging.CRITICAL)
warnings.filterwarnings("ignore", category=SyntaxWarning)
warnings.filterwarnings("ignore", category=DeprecationWarning)


# which repairs the tree under test contains (same detection as the translator's Gen/C03_tables.v [tree_fixes]); the python
# mirrors below (expected tree, gap classifier used by search) follow them. REQUIRED_FIXES: repairs that have landed in
# /repo -- if one of them is no longer detected the translator tie breaks and its finding is not excused.
REQUIRED_FIXES: list = list(c03_tables.FIXES)      # all ten landed in /repo (cff9424 .. c5f6889)
FX = {f: False for f in c03_tables.FIXES}


def load_fixes():
    # lenient: a repair whose marker is ambiguous (somebody changed that code) is judged as present, so that what the
    # tree does wrong there is reported with a failing input; the translator itself fails closed on it
    fixes, _ = c03_tables.read_fixes(lenient=True)
    FX.update(fixes)
    if c03_tables.read_fixes.undecided:
        raise c03_tables.TranslatorError("; ".join(c03_tables.read_fixes.undecided))
    missing = [f for f in REQUIRED_FIXES if not fixes[f]]
    if missing:
        for f in missing:
            FX[f] = True      # judge the tree against the repaired behaviour: what it now does wrong is a violation
        raise c03_tables.TranslatorError(f"repairs that landed are no longer detected in expressions.py: {missing}")


_FIXES_LOADED = [False]


def ensure_fixes():
    """The python mirrors need to know which repairs the tree contains, also when translate() did not run (replay,
    isolated re-evaluation, search after a translator failure: then the flags stay as load_fixes left them)."""
    if not _FIXES_LOADED[0]:
        _FIXES_LOADED[0] = True
        try:
            load_fixes()
        except c03_tables.TranslatorError:
            pass


def translate(ctx):
    _FIXES_LOADED[0] = True
    try:
        c03_tables.translate(ctx, required=REQUIRED_FIXES)
    finally:
        load_fixes()


# ---------------------------------------------------------------- abstraction: ast -> pyexpr s-expression
HEADER = ("from typing import Literal, List, Optional\nfrom typing import Literal as Lit\nimport typing\nimport typing as t\n"
          "import typing_extensions as te\n")
# the same spellings bound to other objects: what a name denotes is decided by the module's imports, not by its text
HEADER_ALT = ("from typing import List as Literal, Optional as Lit, Optional\nfrom typing_extensions import Literal as List\n"
              "import typing_extensions as typing\nimport collections as t\nimport typing as te\n")
HEADERS = [HEADER, HEADER_ALT]
FUTURE = "from __future__ import annotations\n"
LITERAL_PATHS = {"typing.Literal", "typing_extensions.Literal"}


def header_env(header: str) -> dict:
    """name -> canonical path bound by the import statements of a module header (what Module.resolve answers for an alias)."""
    env = {}
    for st in ast.parse(header).body:
        if isinstance(st, ast.Import):
            for al in st.names:
                if al.asname:
                    env[al.asname] = al.name
                else:
                    env[al.name.split(".")[0]] = al.name.split(".")[0]
        elif isinstance(st, ast.ImportFrom):
            for al in st.names:
                env[al.asname or al.name] = f"{st.module}.{al.name}"
    return env


ENVS = [header_env(h) for h in HEADERS]


def canonical(value, env, ls=frozenset()):
    """ExprName / ExprAttribute.canonical_path of a pure Name/Attribute chain (None for anything else).
    A name the module does not bind resolves to itself (NameResolutionError is swallowed); so does a name the
    expression binds itself (no parent)."""
    if isinstance(value, ast.Name):
        return value.id if value.id in ls else env.get(value.id, value.id)
    if isinstance(value, ast.Attribute):
        c = canonical(value.value, env, ls)
        return None if c is None else c + "." + value.attr
    return None


def is_literal(value, env=None, ls=frozenset()) -> bool:
    """Does the subscripted value denote typing.Literal / typing_extensions.Literal under the module's imports?"""
    return canonical(value, ENVS[0] if env is None else env, ls) in LITERAL_PATHS


def try_parse(text: str):
    try:
        return ast.parse(text, mode="eval").body
    except SyntaxError:
        return None


def opt(x):
    return [] if x is None else [x]


def lambda_params(a: ast.arguments):
    """CPython's view: defaults right-aligned on posonlyargs+args, kw_defaults by index."""
    pos = list(a.posonlyargs) + list(a.args)
    dfl = [None] * (len(pos) - len(a.defaults)) + list(a.defaults)
    po = [(p.arg, d) for p, d in zip(pos[:len(a.posonlyargs)], dfl[:len(a.posonlyargs)])]
    pk = [(p.arg, d) for p, d in zip(pos[len(a.posonlyargs):], dfl[len(a.posonlyargs):])]
    ko = [(p.arg, d) for p, d in zip(a.kwonlyargs, a.kw_defaults)]
    return po, pk, (a.vararg.arg if a.vararg else None), ko, (a.kwarg.arg if a.kwarg else None)


def comp_targets(generators) -> set:
    """Names stored by the targets of the `for` clauses of a comprehension (in `for a.b in` / `for a[0] in`, a is loaded)."""
    return {x.id for g in generators for x in ast.walk(g.target) if isinstance(x, ast.Name) and isinstance(x.ctx, ast.Store)}


def lambda_names(a: ast.arguments) -> set:
    return ({p.arg for p in a.posonlyargs + a.args + a.kwonlyargs} | ({a.vararg.arg} if a.vararg else set())
            | ({a.kwarg.arg} if a.kwarg else set()))


def A(n, env=None, ls=frozenset()):
    """ast node -> model term. env: the module's import bindings (for the Literal test); ls: the names the enclosing
    expression binds itself (comprehension targets, lambda parameters): a Name in ls is flagged local."""
    if env is not None and env is not ENVS[0]:
        return _A_env(n, env, ls)
    R = lambda x: A(x, None, ls)
    t = type(n)
    if t is ast.Name:
        return [1, n.id, 1 if n.id in ls else 0]
    if t is ast.Constant:
        v = n.value
        if isinstance(v, str):
            p = try_parse(v)
            return [4, repr(v), v, [] if p is None else [R(p)]]
        if v is Ellipsis:
            return [3, "..."]
        if isinstance(v, (int, float, complex)) and not isinstance(v, bool):
            return [2, 1 if isinstance(v, int) else 0, repr(v)]
        return [3, repr(v)]
    if t is ast.Attribute:
        return [5, R(n.value), n.attr]
    if t is ast.BinOp:
        return [6, R(n.left), type(n.op).__name__, R(n.right)]
    if t is ast.BoolOp:
        return [7, type(n.op).__name__, [R(x) for x in n.values]]
    if t is ast.UnaryOp:
        return [8, type(n.op).__name__, R(n.operand)]
    if t is ast.Compare:
        return [9, R(n.left), [type(o).__name__ for o in n.ops], [R(x) for x in n.comparators]]
    if t is ast.Call:
        return [10, R(n.func), [R(x) for x in n.args], [R(k) for k in n.keywords]]
    if t is ast.keyword:
        return [11, opt(n.arg), R(n.value)]
    if t is ast.Subscript:
        return [12, R(n.value), 1 if is_literal(n.value, _CUR_ENV[0], ls) else 0, R(n.slice)]
    if t is ast.Slice:
        return [13, opt(n.lower and R(n.lower)), opt(n.upper and R(n.upper)), opt(n.step and R(n.step))]
    if t is ast.Tuple:
        return [14, [R(x) for x in n.elts]]
    if t is ast.List:
        return [15, [R(x) for x in n.elts]]
    if t is ast.Set:
        return [16, [R(x) for x in n.elts]]
    if t is ast.Dict:
        return [17, [[18, [] if k is None else [R(k)], R(v)] for k, v in zip(n.keys, n.values)]]
    if t is ast.IfExp:
        return [19, R(n.body), R(n.test), R(n.orelse)]
    if t is ast.Lambda:
        po, pk, vp, ko, vk = lambda_params(n.args)
        par = lambda nd: [21, nd[0], [] if nd[1] is None else [R(nd[1])]]       # defaults: evaluated outside
        return [20, [par(x) for x in po], [par(x) for x in pk], opt(vp), [par(x) for x in ko], opt(vk),
                A(n.body, None, ls | lambda_names(n.args))]
    if t is ast.NamedExpr:
        return [22, R(n.target), R(n.value)]
    if t is ast.Starred:
        return [23, R(n.value)]
    if t in (ast.ListComp, ast.SetComp, ast.GeneratorExp, ast.DictComp):
        inner = ls | comp_targets(n.generators)
        I = lambda x: A(x, None, inner)
        gens = [[28, I(g.target), (R if i == 0 else I)(g.iter), [I(x) for x in g.ifs], 1 if g.is_async else 0]
                for i, g in enumerate(n.generators)]
        if t is ast.DictComp:
            return [27, I(n.key), I(n.value), gens]
        return [{ast.ListComp: 24, ast.SetComp: 25, ast.GeneratorExp: 26}[t], I(n.elt), gens]
    if t is ast.comprehension:
        return [28, R(n.target), R(n.iter), [R(x) for x in n.ifs], 1 if n.is_async else 0]
    if t is ast.JoinedStr:
        return [29, [R(x) for x in n.values]]
    if t is ast.FormattedValue:
        return [30, R(n.value), n.conversion, [] if n.format_spec is None else [R(n.format_spec)]]
    if t is ast.Yield:
        return [31, [] if n.value is None else [R(n.value)]]
    if t is ast.YieldFrom:
        return [32, R(n.value)]
    if t is ast.Await:
        return [33, R(n.value)]
    raise ValueError(f"no abstraction for {t.__name__}")


_CUR_ENV = [ENVS[0]]


def _A_env(n, env, ls=frozenset()):
    old = _CUR_ENV[0]
    _CUR_ENV[0] = env
    try:
        return A(n, None, ls)
    finally:
        _CUR_ENV[0] = old


# ---------------------------------------------------------------- the string-annotation rule, written against ast (harness side)
def py_subst(n, mode, injoin=False, infmt=False, env=None):
    """mode: None = strings are data; False = strings are code; True = code, but under a Literal[...] slice.
    Returns a new tree in which the str constants Griffe's rule selects are replaced by their parsed content."""
    rec = lambda x: py_subst(x, mode, injoin, infmt, env)
    t = type(n)
    if t is ast.Constant:
        if isinstance(n.value, str) and not (injoin and not infmt) and mode is False:
            p = try_parse(n.value)
            if p is not None:
                return p          # content is not visited again: nested quoting stays a string
        return n
    if t is ast.Subscript:
        m2 = mode
        if mode is not None:
            m2 = mode or is_literal(n.value, env)
        return ast.Subscript(value=n.value, slice=py_subst(n.slice, m2, injoin, infmt, env), ctx=n.ctx)
    if t is ast.Lambda:
        return ast.Lambda(args=n.args, body=rec(n.body))
    if t is ast.JoinedStr:
        # literal text of an f-string is never an annotation (Griffe does take the literals of an f-string nested in a
        # replacement field for code: that corner is part of finding F3 and flagged by the model's classifier)
        nf = False if FX["fnest"] else infmt
        return ast.JoinedStr(values=[v if isinstance(v, ast.Constant) else py_subst(v, mode, True, nf, env) for v in n.values])
    if t is ast.FormattedValue:
        spec = n.format_spec
        if FX["fconv"] and spec is not None:      # the spec is stored: strings in ITS replacement fields follow the rule too
            spec = py_subst(spec, mode, injoin, False, env)
        return ast.FormattedValue(value=py_subst(n.value, mode, injoin, True, env), conversion=n.conversion, format_spec=spec)
    if not isinstance(n, ast.AST):
        return n
    out = copy.copy(n)
    for f in n._fields:
        v = getattr(n, f)
        if isinstance(v, list):
            setattr(out, f, [rec(x) if isinstance(x, ast.AST) else x for x in v])
        elif isinstance(v, ast.AST) and not isinstance(v, (ast.expr_context, ast.operator, ast.unaryop, ast.boolop, ast.cmpop)):
            setattr(out, f, rec(v))
    return out


def py_names(n):
    """Name ids and attribute names in textual order."""
    t = type(n)
    if t is ast.Name:
        return [n.id]
    if t is ast.Attribute:
        return py_names(n.value) + [n.attr]
    if t is ast.IfExp:
        return py_names(n.body) + py_names(n.test) + py_names(n.orelse)
    if t is ast.Dict:
        return [x for k, v in zip(n.keys, n.values) for x in (py_names(k) if k is not None else []) + py_names(v)]
    if t is ast.Lambda:
        po, pk, _, ko, _ = lambda_params(n.args)
        return [x for _, d in po + pk + ko if d is not None for x in py_names(d)] + py_names(n.body)
    if t is ast.Constant or not isinstance(n, ast.AST):
        return []
    out = []
    for f in n._fields:
        v = getattr(n, f)
        for x in (v if isinstance(v, list) else [v]):
            if isinstance(x, ast.AST):
                out += py_names(x)
    return out


def py_dotted(n):
    """Dotted paths of every Attribute node whose value is a pure Name/Attribute chain, in textual order. Chains rooted at
    a name the expression binds itself (comprehension target, lambda parameter) have no path and are left out."""
    def dotted(x, ls):
        if isinstance(x, ast.Name):
            return None if x.id in ls else x.id
        if isinstance(x, ast.Attribute):
            d = dotted(x.value, ls)
            return None if d is None else d + "." + x.attr
        return None
    out = []

    def walk(x, ls):
        t = type(x)
        if t is ast.Attribute:
            walk(x.value, ls)
            d = dotted(x, ls)
            if d is not None:
                out.append(d)
            return
        if t is ast.IfExp:
            walk(x.body, ls); walk(x.test, ls); walk(x.orelse, ls)
            return
        if t is ast.Dict:
            for k, v in zip(x.keys, x.values):
                if k is not None:
                    walk(k, ls)
                walk(v, ls)
            return
        if t is ast.Lambda:
            po, pk, _, ko, _ = lambda_params(x.args)
            for _, d in po + pk + ko:
                if d is not None:
                    walk(d, ls)
            walk(x.body, ls | lambda_names(x.args))
            return
        if t in (ast.ListComp, ast.SetComp, ast.GeneratorExp, ast.DictComp):
            inner = ls | comp_targets(x.generators)
            for y in ([x.key, x.value] if t is ast.DictComp else [x.elt]):
                walk(y, inner)
            for i, g in enumerate(x.generators):
                walk(g.target, inner)
                walk(g.iter, ls if i == 0 else inner)
                for c in g.ifs:
                    walk(c, inner)
            return
        if t is ast.FormattedValue:
            walk(x.value, ls)      # without the repair a format spec is not stored (finding F3); its names are checked by the names test
            if FX["fconv"] and x.format_spec is not None:
                walk(x.format_spec, ls)
            return
        if t is ast.Constant or not isinstance(x, ast.AST):
            return
        for f in x._fields:
            v = getattr(x, f)
            for y in (v if isinstance(v, list) else [v]):
                if isinstance(y, ast.AST):
                    walk(y, ls)
    walk(n, frozenset())
    return out


def depth_of(n) -> int:
    kids = [c for c in ast.iter_child_nodes(n) if not isinstance(c, (ast.expr_context, ast.operator, ast.unaryop, ast.boolop, ast.cmpop, ast.arguments, ast.arg))]
    if isinstance(n, ast.Lambda):
        kids = [n.body] + [d for d in n.args.defaults + n.args.kw_defaults if d is not None]
    return 1 + max((depth_of(c) for c in kids), default=0)


# ---------------------------------------------------------------- storing positions
# (name, template, top precedence, is_annotation)
POSITIONS = [
    ("assign", "v{k} = ({e})\n", 3, False),
    ("annassign", "a{k}: ({e}) = 0\n", 4, True),
    ("param_annotation", "def f{k}(p: ({e})): ...\n", 4, True),
    ("param_default", "def g{k}(p=({e})): ...\n", 4, False),
    ("returns", "def h{k}() -> ({e}): ...\n", 4, True),
    ("decorator", "@({e})\ndef d{k}(): ...\n", 4, False),
    ("base", "class K{k}(({e})): ...\n", 4, False),
]
POS_INDEX = {p[0]: i for i, p in enumerate(POSITIONS)}


def node_at(stmt, pos: str):
    if pos == "assign":
        return stmt.value
    if pos == "annassign":
        return stmt.annotation
    if pos == "param_annotation":
        return stmt.args.args[0].annotation
    if pos == "param_default":
        return stmt.args.defaults[0]
    if pos == "returns":
        return stmt.returns
    if pos == "decorator":
        return stmt.decorator_list[0]
    return stmt.bases[0]


def impl_at(mod, pos: str, k: int):
    if pos == "assign":
        return mod.members[f"v{k}"].value
    if pos == "annassign":
        return mod.members[f"a{k}"].annotation
    if pos == "param_annotation":
        return mod.members[f"f{k}"].parameters["p"].annotation
    if pos == "param_default":
        return mod.members[f"g{k}"].parameters["p"].default
    if pos == "returns":
        return mod.members[f"h{k}"].returns
    if pos == "decorator":
        ds = mod.members[f"d{k}"].decorators
        return ds[0].value if ds else None
    bs = mod.members[f"K{k}"].bases
    return bs[0] if bs else None


class Watchdog(Exception):
    pass


def _alarm(signum, frame):
    raise Watchdog()


def visit_module(src: str):
    import griffe
    old = signal.signal(signal.SIGALRM, _alarm)
    signal.alarm(60)
    try:
        return griffe.visit("c03mod", filepath=Path("c03mod.py"), code=src)
    finally:
        signal.alarm(0)
        signal.signal(signal.SIGALRM, old)


def observe_impl(expr):
    """Canonical view of a stored expression: None | [str, class, flat pieces, one-layer pieces, canonical_path, str(modernize())]."""
    from griffe import Expr, ExprCall, ExprKeyword, ExprName
    if expr is None:
        return []
    if isinstance(expr, str):
        return [[expr, "str", [[0, expr]], [[0, expr]], expr, expr, 1, [[0, expr]]]]

    def canon(p):
        try:
            return p.canonical_path
        except Exception as e:  # noqa: BLE001
            return "raises:" + type(e).__name__

    def pk(p):
        if isinstance(p, str):
            return [0, p]
        if isinstance(p, ExprName):
            par = p.parent
            kind = "name" if isinstance(par, ExprName) else "str" if isinstance(par, str) else "none" if par is None else "scope"
            return [1, p.name, kind, p.path]
        return [2, type(p).__name__, str(p)]

    flat = [pk(p) for p in expr.iterate(flat=True)]
    one = [[0, p] if isinstance(p, str) else [2, type(p).__name__, str(p), canon(p)] for p in expr]
    mod = expr.modernize()
    walk = [pk(p) for p in expand_one_layer(expr)]      # what a renderer does with iter(expr), recursively
    return [[str(expr), type(expr).__name__, flat, one, canon(expr), str(mod) if mod is expr else "modernize() is not the identity: " + str(mod),
             1, walk]]


def expand_one_layer(expr):
    """Recursively expand iter(expr) down to strings and names (the definition flat iteration must agree with)."""
    from griffe import ExprName
    out = []
    for p in expr:
        if isinstance(p, str) or isinstance(p, ExprName):
            out.append(p)
        else:
            out.extend(expand_one_layer(p))
    return out


# ---------------------------------------------------------------- generators (ast trees; rendered with ast.unparse, re-parsed)
NAMES = ["a", "b", "c", "x", "y", "int", "str", "List", "Optional", "Literal", "Lit", "typing", "t", "te"]
ATTRS = ["b", "c", "real", "Literal", "attr"]
BINOPS = [ast.Add, ast.Sub, ast.Mult, ast.MatMult, ast.Div, ast.Mod, ast.Pow, ast.LShift, ast.RShift, ast.BitOr, ast.BitXor, ast.BitAnd, ast.FloorDiv]
UNOPS = [ast.Invert, ast.Not, ast.UAdd, ast.USub]
BOOLOPS = [ast.And, ast.Or]
CMPOPS = [ast.Eq, ast.NotEq, ast.Lt, ast.LtE, ast.Gt, ast.GtE, ast.Is, ast.IsNot, ast.In, ast.NotIn]
BINPREC = {ast.BitOr: 9, ast.BitXor: 10, ast.BitAnd: 11, ast.LShift: 12, ast.RShift: 12, ast.Add: 13, ast.Sub: 13, ast.Mult: 14,
           ast.MatMult: 14, ast.Div: 14, ast.Mod: 14, ast.FloorDiv: 14, ast.Pow: 16}
CODE_STRINGS = ["int", "a.b", "List[int]", "Optional[str]", "a | b", "int, str", "List['int']", "Literal['x']", "x if y else a", "lambda: a",
                "-a", "a and b", "(a, b)", "f(a)", "[a, b]", "1", "'q'", "()", "a < b", "not a", "*a", "a for a in b", "yield"]
DATA_STRINGS = ["in valid", "", "a b", "it's", "x{y", "back\\slash", "new\nline", "tab\there", "1abc", "(", "hello world"]
SAFE_CODE_STRINGS = ["int", "a.b", "List[int]", "Optional[str]", "f(a)", "[a, b]", "1", "'q'"]
N = ast.Name


def nm(s):
    return ast.Name(id=s, ctx=ast.Load())


def const(v):
    return ast.Constant(value=v)


def lam(po=(), pk=(), vp=None, ko=(), vk=None, body=None):
    """po/pk/ko: lists of (name, default-or-None)."""
    pos = list(po) + list(pk)
    defaults = [d for _, d in pos if d is not None]
    args = ast.arguments(posonlyargs=[ast.arg(arg=n) for n, _ in po], args=[ast.arg(arg=n) for n, _ in pk],
                         vararg=ast.arg(arg=vp) if vp else None, kwonlyargs=[ast.arg(arg=n) for n, _ in ko],
                         kw_defaults=[d for _, d in ko], kwarg=ast.arg(arg=vk) if vk else None, defaults=defaults)
    return ast.Lambda(args=args, body=body if body is not None else nm("a"))


def comp(target=None, it=None, ifs=(), is_async=0):
    return ast.comprehension(target=target or ast.Name(id="i", ctx=ast.Store()), iter=it or nm("y"), ifs=list(ifs), is_async=is_async)


def fstr(*parts):
    vals = []
    for p in parts:
        vals.append(const(p) if isinstance(p, str) else p)
    return ast.JoinedStr(values=vals)


def fv(v, conv=-1, spec=None):
    return ast.FormattedValue(value=v, conversion=conv, format_spec=spec)


def prec_of(n) -> int:
    t = type(n)
    if t in (ast.Yield, ast.YieldFrom):
        return 3
    if t in (ast.Lambda, ast.IfExp):
        return 4
    if t is ast.BoolOp:
        return 5 if isinstance(n.op, ast.Or) else 6
    if t is ast.UnaryOp:
        return 7 if isinstance(n.op, ast.Not) else 15
    if t is ast.Compare:
        return 8
    if t is ast.BinOp:
        return BINPREC[type(n.op)]
    if t is ast.Await:
        return 17
    return 18


class Gen:
    """Random expression trees. safe=True keeps every operand at or above the precedence its slot needs and stays
    away from the known-gap families, so most of its output is in the domain of the render theorem."""

    def __init__(self, rng, safe: bool, strings: str = "data"):
        self.rng = rng
        self.safe = safe
        self.strings = strings   # "data": arbitrary text; "code": mostly parseable content

    def leaf(self, req=0):
        r = self.rng.random()
        if r < 0.55:
            return nm(self.rng.choice(NAMES))
        if r < 0.7:
            return const(self.rng.choice([0, 1, 7, 42, 1.5, 2j, 10 ** 20, 1e400, 0.0, 1.0, 0j, 2, 2.0, 1e20, 1j]))
        if r < 0.8:
            return const(self.rng.choice([None, True, False, Ellipsis, b"by"]))
        return self.string()

    def string(self):
        if self.strings == "code":
            pool = SAFE_CODE_STRINGS if self.safe else CODE_STRINGS
            if self.rng.random() < 0.8:
                return const(self.rng.choice(pool))
        return const(self.rng.choice(DATA_STRINGS + ["int", "a.b"]))

    def expr(self, d: int, req: int = 0, leak: bool = False):
        """d: remaining depth; req: minimal precedence (honoured when safe); leak: inside a subscript slice (safe: no tuples)."""
        rng = self.rng
        if d <= 0 or rng.random() < 0.08:
            return self.leaf(req)
        for _ in range(20):
            kind = rng.choice(KINDS)
            n = self.make(kind, d, leak)
            if n is None:
                continue
            if self.safe and prec_of(n) < max(req, 1):
                continue
            return n
        return self.leaf(req)

    def sub(self, d, req, leak=False):
        return self.expr(d - 1, req, leak)

    def elts(self, d, leak, lo=0, hi=3, star=True):
        out = []
        for _ in range(self.rng.randint(lo, hi)):
            if star and self.rng.random() < 0.12:
                out.append(ast.Starred(value=self.sub(d, 9, leak), ctx=ast.Load()))
            else:
                out.append(self.sub(d, 4, leak))
        return out

    def target(self):
        r = self.rng.random()
        if r < 0.7:
            return ast.Name(id=self.rng.choice(["i", "j", "a"]), ctx=ast.Store())
        if r < 0.9:
            return ast.Tuple(elts=[ast.Name(id="i", ctx=ast.Store()), ast.Name(id="j", ctx=ast.Store())], ctx=ast.Store())
        return ast.Attribute(value=nm("a"), attr="b", ctx=ast.Store())

    def gens(self, d, leak):
        out = []
        for _ in range(self.rng.choice([1, 1, 1, 2])):
            ifs = [self.sub(d, 5, leak) for _ in range(self.rng.choice([0, 0, 1, 2]))]
            out.append(comp(self.target(), self.sub(d, 5, leak), ifs, 1 if self.rng.random() < 0.1 else 0))
        return out

    def make(self, kind, d, leak):
        rng, safe = self.rng, self.safe
        if kind == "Attribute":
            v = self.sub(d, 18, leak)
            if safe and isinstance(v, ast.Constant) and isinstance(v.value, int) and not isinstance(v.value, bool):
                return None
            return ast.Attribute(value=v, attr=rng.choice(ATTRS), ctx=ast.Load())
        if kind == "BinOp":
            op = rng.choice(BINOPS)
            p = BINPREC[op]
            lreq, rreq = (17, 15) if op is ast.Pow else (p, p + 1)
            return ast.BinOp(left=self.sub(d, lreq, leak), op=op(), right=self.sub(d, rreq, leak))
        if kind == "BoolOp":
            op = rng.choice(BOOLOPS)
            p = 5 if op is ast.Or else 6
            return ast.BoolOp(op=op(), values=[self.sub(d, p + 1, leak) for _ in range(rng.choice([2, 2, 3]))])
        if kind == "UnaryOp":
            op = rng.choice(UNOPS)
            return ast.UnaryOp(op=op(), operand=self.sub(d, 7 if op is ast.Not else 15, leak))
        if kind == "Compare":
            k = rng.choice([1, 1, 2])
            return ast.Compare(left=self.sub(d, 9, leak), ops=[rng.choice(CMPOPS)() for _ in range(k)], comparators=[self.sub(d, 9, leak) for _ in range(k)])
        if kind == "Call":
            if rng.random() < 0.1:
                g = ast.GeneratorExp(elt=self.sub(d, 4, leak), generators=self.gens(d, leak))
                return ast.Call(func=self.sub(d, 18, leak), args=[g], keywords=[])
            kws = []
            for _ in range(rng.choice([0, 0, 1, 2])):
                kws.append(ast.keyword(arg=rng.choice(["k", "w", None]) if rng.random() < 0.85 else None, value=self.sub(d, 4, leak)))
            return ast.Call(func=self.sub(d, 18, leak), args=self.elts(d, leak, 0, 2), keywords=kws)
        if kind == "Subscript":
            r = rng.random()
            val = self.sub(d, 18, False if True else leak)
            if r < 0.45:
                sl = self.sub(d, 4, True)
            elif r < 0.6:
                sl = ast.Slice(lower=self.maybe(d, True), upper=self.maybe(d, True), step=self.maybe(d, True))
            else:
                elts = []
                for _ in range(rng.choice([1, 2, 2, 3]) if (safe or rng.random() < 0.9) else 0):
                    q = rng.random()
                    if q < 0.15:
                        elts.append(ast.Slice(lower=self.maybe(d, False), upper=self.maybe(d, False), step=None))
                    elif q < 0.22:
                        elts.append(ast.Starred(value=self.sub(d, 9, False), ctx=ast.Load()))
                    else:
                        elts.append(self.sub(d, 4, False))
                sl = ast.Tuple(elts=elts, ctx=ast.Load())
            return ast.Subscript(value=val, slice=sl, ctx=ast.Load())
        if kind == "Tuple":
            return ast.Tuple(elts=self.elts(d, False, 0, 3), ctx=ast.Load())
        if kind == "List":
            return ast.List(elts=self.elts(d, leak, 0, 3), ctx=ast.Load())
        if kind == "Set":
            return ast.Set(elts=self.elts(d, leak, 1, 3))
        if kind == "Dict":
            ks, vs = [], []
            for _ in range(rng.randint(0, 3)):
                if rng.random() < 0.2:
                    ks.append(None)
                    vs.append(self.sub(d, 9, leak))
                else:
                    ks.append(self.sub(d, 4, leak))
                    vs.append(self.sub(d, 4, leak))
            return ast.Dict(keys=ks, values=vs)
        if kind == "IfExp":
            return ast.IfExp(body=self.sub(d, 5, leak), test=self.sub(d, 5, leak), orelse=self.sub(d, 4, leak))
        if kind == "Lambda":
            dflt = lambda: self.sub(d, 4, False) if rng.random() < 0.4 else None
            npo, npk, nko = rng.choice([0, 0, 0, 1, 2]), rng.choice([0, 1, 1, 2]), rng.choice([0, 0, 1, 2])
            vp = "args" if rng.random() < 0.25 else None
            vk = "kw" if rng.random() < 0.25 else None
            if safe:
                if npo and not npk:
                    npk = 1
                if vp and nko:
                    vp = None
            pos = [(f"p{i}", None) for i in range(npo)] + [(f"q{i}", None) for i in range(npk)]
            seen = False
            for i, (n_, _) in enumerate(pos):   # defaults must be a suffix
                if seen or rng.random() < 0.3:
                    seen = True
                    pos[i] = (n_, self.sub(d, 4, False))
            ko = [(f"k{i}", dflt()) for i in range(nko)]
            return lam(pos[:npo], pos[npo:], vp, ko, vk, self.sub(d, 4, leak))
        if kind == "NamedExpr":
            return ast.NamedExpr(target=ast.Name(id=rng.choice(["w", "a"]), ctx=ast.Store()), value=self.sub(d, 4, leak))
        if kind == "ListComp":
            return ast.ListComp(elt=self.sub(d, 4, leak), generators=self.gens(d, leak))
        if kind == "SetComp":
            return ast.SetComp(elt=self.sub(d, 4, leak), generators=self.gens(d, leak))
        if kind == "GeneratorExp":
            if safe:
                return None
            return ast.GeneratorExp(elt=self.sub(d, 4, leak), generators=self.gens(d, leak))
        if kind == "DictComp":
            return ast.DictComp(key=self.sub(d, 4, leak), value=self.sub(d, 4, leak), generators=self.gens(d, leak))
        if kind == "JoinedStr":
            parts = []
            for _ in range(rng.randint(1, 3)):
                if rng.random() < 0.5:
                    parts.append(const(rng.choice(["lit", "a b", " ", "x=", "1"] + ([] if safe else ["it's", "{", "}", "b\\s", "n\nl"]))))
                elif safe:
                    v = self.sub(d, 5, leak)
                    if isinstance(v, (ast.Dict, ast.Set, ast.SetComp, ast.DictComp, ast.JoinedStr)):
                        v = nm("x")
                    parts.append(fv(v))
                else:
                    spec = fstr(rng.choice([">10", "", "x"]), *([fv(nm("w"))] if rng.random() < 0.3 else [])) if rng.random() < 0.25 else None
                    parts.append(fv(self.sub(d, 4, leak), rng.choice([-1, -1, -1, 114, 115, 97]), spec))
            return ast.JoinedStr(values=parts)
        if kind == "Yield":
            if safe:
                return None
            return ast.Yield(value=self.sub(d, 4, leak) if rng.random() < 0.7 else None)
        if kind == "YieldFrom":
            if safe:
                return None
            return ast.YieldFrom(value=self.sub(d, 4, leak))
        if kind == "Await":
            if safe or rng.random() < 0.7:
                return None
            return ast.Await(value=self.sub(d, 18, leak))
        raise KeyError(kind)

    def maybe(self, d, leak):
        return self.sub(d, 4, leak) if self.rng.random() < 0.6 else None


KINDS = ["Attribute", "BinOp", "BinOp", "BoolOp", "UnaryOp", "Compare", "Call", "Call", "Subscript", "Subscript", "Tuple", "List", "Set", "Dict",
         "IfExp", "Lambda", "NamedExpr", "ListComp", "SetComp", "GeneratorExp", "DictComp", "JoinedStr", "Yield", "YieldFrom", "Await"]


def representatives():
    """One or more small instances of every node type / operator, used as children in the exhaustive depth-2 product."""
    a, b, c = nm("a"), nm("b"), nm("c")
    reps = [("Name", a), ("int", const(1)), ("float", const(1.5)), ("complex", const(2j)), ("str", const("s")), ("None", const(None)),
            ("Ellipsis", const(Ellipsis)), ("bytes", const(b"b")), ("inf", const(1e400)),
            ("True", const(True)), ("float1", const(1.0)), ("False", const(False)), ("int0", const(0)), ("float0", const(0.0)), ("complex0", const(0j)), ("codestr", const("int")), ("codestr_or", const("a | b")),
            ("codestr_tuple", const("int, str")),
            ("Attribute", ast.Attribute(value=a, attr="b", ctx=ast.Load())),
            ("Attribute2", ast.Attribute(value=ast.Attribute(value=a, attr="b", ctx=ast.Load()), attr="c", ctx=ast.Load())),
            ("Call", ast.Call(func=a, args=[b], keywords=[])),
            ("CallKw", ast.Call(func=a, args=[ast.Starred(value=b, ctx=ast.Load())], keywords=[ast.keyword(arg="k", value=c), ast.keyword(arg=None, value=c)])),
            ("CallGen", ast.Call(func=a, args=[ast.GeneratorExp(elt=b, generators=[comp()])], keywords=[])),
            ("Subscript", ast.Subscript(value=a, slice=b, ctx=ast.Load())),
            ("SubscriptTuple", ast.Subscript(value=a, slice=ast.Tuple(elts=[b, c], ctx=ast.Load()), ctx=ast.Load())),
            ("SubscriptSlice", ast.Subscript(value=a, slice=ast.Slice(lower=b, upper=None, step=c), ctx=ast.Load())),
            ("SubscriptEmpty", ast.Subscript(value=a, slice=ast.Tuple(elts=[], ctx=ast.Load()), ctx=ast.Load())),
            ("LiteralStr", ast.Subscript(value=nm("Literal"), slice=const("lit"), ctx=ast.Load())),
            ("Tuple0", ast.Tuple(elts=[], ctx=ast.Load())), ("Tuple1", ast.Tuple(elts=[a], ctx=ast.Load())),
            ("Tuple2", ast.Tuple(elts=[a, ast.Starred(value=b, ctx=ast.Load())], ctx=ast.Load())),
            ("List", ast.List(elts=[a, b], ctx=ast.Load())), ("Set", ast.Set(elts=[a])),
            ("Dict", ast.Dict(keys=[a], values=[b])), ("DictUnpack", ast.Dict(keys=[None, a], values=[b, c])),
            ("IfExp", ast.IfExp(body=a, test=b, orelse=c)),
            ("Lambda0", lam(body=a)), ("Lambda", lam(pk=[("p", None), ("q", b)], body=a)),
            ("LambdaPo", lam(po=[("p", None)], pk=[("q", None)], body=a)), ("LambdaPoOnly", lam(po=[("p", None)], body=a)),
            ("LambdaStarKw", lam(vp="r", ko=[("k", None)], vk="w", body=a)), ("LambdaKo", lam(ko=[("k", b)], body=a)),
            ("NamedExpr", ast.NamedExpr(target=ast.Name(id="w", ctx=ast.Store()), value=a)),
            ("ListComp", ast.ListComp(elt=a, generators=[comp(ifs=[b])])), ("SetComp", ast.SetComp(elt=a, generators=[comp()])),
            ("GeneratorExp", ast.GeneratorExp(elt=a, generators=[comp(), comp(ast.Name(id="j", ctx=ast.Store()), b, [c, a], 1)])),
            ("DictComp", ast.DictComp(key=a, value=b, generators=[comp()])),
            ("JoinedStr", fstr("p", fv(a), "q")), ("JoinedStrConv", fstr(fv(a, 114))), ("JoinedStrSpec", fstr(fv(a, -1, fstr(">", fv(b))))),
            ("JoinedStrBrace", fstr("{", fv(a))), ("JoinedStrQuote", fstr("it's")),
            ("Yield", ast.Yield(value=a)), ("Yield0", ast.Yield(value=None)), ("YieldFrom", ast.YieldFrom(value=a)), ("Await", ast.Await(value=a))]
    for op in BINOPS:
        reps.append(("BinOp." + op.__name__, ast.BinOp(left=a, op=op(), right=b)))
    for op in UNOPS:
        reps.append(("UnaryOp." + op.__name__, ast.UnaryOp(op=op(), operand=a)))
    for op in BOOLOPS:
        reps.append(("BoolOp." + op.__name__, ast.BoolOp(op=op(), values=[a, b])))
    for op in CMPOPS:
        reps.append(("Compare." + op.__name__, ast.Compare(left=a, ops=[op()], comparators=[b])))
    reps.append(("Compare2", ast.Compare(left=a, ops=[ast.Lt(), ast.IsNot()], comparators=[b, c])))
    return reps


def parent_slots():
    """(label, builder(child) -> ast.expr) for every operand slot of every node type."""
    a, b = nm("a"), nm("b")
    L = ast.Load()
    S = []
    S.append(("Attribute.value", lambda x: ast.Attribute(value=x, attr="z", ctx=L)))
    for op in BINOPS:
        S.append((f"BinOp.{op.__name__}.left", lambda x, op=op: ast.BinOp(left=x, op=op(), right=b)))
        S.append((f"BinOp.{op.__name__}.right", lambda x, op=op: ast.BinOp(left=a, op=op(), right=x)))
    for op in UNOPS:
        S.append((f"UnaryOp.{op.__name__}", lambda x, op=op: ast.UnaryOp(op=op(), operand=x)))
    for op in BOOLOPS:
        S.append((f"BoolOp.{op.__name__}.0", lambda x, op=op: ast.BoolOp(op=op(), values=[x, b])))
        S.append((f"BoolOp.{op.__name__}.1", lambda x, op=op: ast.BoolOp(op=op(), values=[a, x, b])))
    S.append(("Compare.left", lambda x: ast.Compare(left=x, ops=[ast.Lt()], comparators=[b])))
    S.append(("Compare.comparator", lambda x: ast.Compare(left=a, ops=[ast.In(), ast.GtE()], comparators=[x, b])))
    S.append(("Call.func", lambda x: ast.Call(func=x, args=[], keywords=[])))
    S.append(("Call.arg", lambda x: ast.Call(func=a, args=[x], keywords=[])))
    S.append(("Call.arg2", lambda x: ast.Call(func=a, args=[b, x], keywords=[])))
    S.append(("Call.starred", lambda x: ast.Call(func=a, args=[ast.Starred(value=x, ctx=L)], keywords=[])))
    S.append(("Call.keyword", lambda x: ast.Call(func=a, args=[], keywords=[ast.keyword(arg="k", value=x)])))
    S.append(("Call.kwunpack", lambda x: ast.Call(func=a, args=[b], keywords=[ast.keyword(arg=None, value=x)])))
    S.append(("Subscript.value", lambda x: ast.Subscript(value=x, slice=b, ctx=L)))
    S.append(("Subscript.slice", lambda x: ast.Subscript(value=a, slice=x, ctx=L)))
    S.append(("Subscript.tuple_elt", lambda x: ast.Subscript(value=a, slice=ast.Tuple(elts=[b, x], ctx=L), ctx=L)))
    S.append(("Subscript.tuple_single", lambda x: ast.Subscript(value=a, slice=ast.Tuple(elts=[x], ctx=L), ctx=L)))
    S.append(("Subscript.slice_lower", lambda x: ast.Subscript(value=a, slice=ast.Slice(lower=x, upper=None, step=None), ctx=L)))
    S.append(("Subscript.slice_upper_step", lambda x: ast.Subscript(value=a, slice=ast.Slice(lower=None, upper=x, step=x), ctx=L)))
    S.append(("Subscript.list_in_slice", lambda x: ast.Subscript(value=a, slice=ast.List(elts=[x], ctx=L), ctx=L)))
    S.append(("Subscript.binop_in_slice", lambda x: ast.Subscript(value=a, slice=ast.BinOp(left=x, op=ast.BitOr(), right=b), ctx=L)))
    S.append(("Literal.slice", lambda x: ast.Subscript(value=nm("Literal"), slice=x, ctx=L)))
    S.append(("Tuple.elt", lambda x: ast.Tuple(elts=[x, b], ctx=L)))
    S.append(("Tuple.single", lambda x: ast.Tuple(elts=[x], ctx=L)))
    S.append(("Tuple.starred", lambda x: ast.Tuple(elts=[ast.Starred(value=x, ctx=L), b], ctx=L)))
    S.append(("List.elt", lambda x: ast.List(elts=[a, x], ctx=L)))
    S.append(("Set.elt", lambda x: ast.Set(elts=[x])))
    S.append(("Dict.key", lambda x: ast.Dict(keys=[x], values=[b])))
    S.append(("Dict.value", lambda x: ast.Dict(keys=[a, b], values=[b, x])))
    S.append(("Dict.unpack", lambda x: ast.Dict(keys=[None], values=[x])))
    S.append(("IfExp.body", lambda x: ast.IfExp(body=x, test=a, orelse=b)))
    S.append(("IfExp.test", lambda x: ast.IfExp(body=a, test=x, orelse=b)))
    S.append(("IfExp.orelse", lambda x: ast.IfExp(body=a, test=b, orelse=x)))
    S.append(("Lambda.body", lambda x: lam(pk=[("p", None)], body=x)))
    S.append(("Lambda.default", lambda x: lam(pk=[("p", x)], body=a)))
    S.append(("Lambda.kwdefault", lambda x: lam(po=[("o", None)], pk=[("p", None)], ko=[("k", x), ("m", None)], vk="w", body=a)))
    S.append(("NamedExpr.value", lambda x: ast.NamedExpr(target=ast.Name(id="w", ctx=ast.Store()), value=x)))
    S.append(("ListComp.elt", lambda x: ast.ListComp(elt=x, generators=[comp()])))
    S.append(("ListComp.iter", lambda x: ast.ListComp(elt=a, generators=[comp(it=x)])))
    S.append(("ListComp.if", lambda x: ast.ListComp(elt=a, generators=[comp(ifs=[b, x])])))
    S.append(("SetComp.elt", lambda x: ast.SetComp(elt=x, generators=[comp(), comp(ast.Name(id="j", ctx=ast.Store()), b)])))
    S.append(("GeneratorExp.elt", lambda x: ast.Call(func=a, args=[ast.GeneratorExp(elt=x, generators=[comp()])], keywords=[])))
    S.append(("DictComp.key", lambda x: ast.DictComp(key=x, value=b, generators=[comp()])))
    S.append(("DictComp.value", lambda x: ast.DictComp(key=a, value=x, generators=[comp()])))
    S.append(("JoinedStr.value", lambda x: fstr("p", fv(x))))
    S.append(("JoinedStr.conv", lambda x: fstr(fv(x, 115), "q")))
    S.append(("Yield.value", lambda x: ast.Yield(value=x)))
    S.append(("YieldFrom.value", lambda x: ast.YieldFrom(value=x)))
    S.append(("Await.value", lambda x: ast.Await(value=x)))
    S.append(("top", lambda x: x))
    return S


# ---------------------------------------------------------------- running cases
# families 2 (dict unpacking), 5 (dict comprehension spacing), 11 (in_subscript leak), 12 (non-finite literals) and the
# decorator crash F13 were repaired in /repo: they have no classifier any more, so a recurrence is a violation
# the families whose repair landed (1 grouping, 3 f-strings, 4 lambda, 6 generator, 7 empty tuple, 9 int attribute, 11 literal
# root) have no classifier any more: if the model ever names one (a repair lost), the failure is a violation
FAMILY = {8: "C03-F8", 10: "C03-F10"}
FAMILY_NAME = {1: "group", 3: "fstring", 4: "lambda_params", 6: "genexp", 7: "empty_slice_tuple", 8: "yield", 9: "int_attr", 10: "await",
               11: "literal_root"}
PRIORITY = [10, 8]
BATCH = 40


def dump(n) -> str:
    return ast.dump(n)


def parse_back(text: str, top: int = 4):
    """Parse rendered text in the syntactic position it was stored from (a bare yield is valid as an assignment value only)."""
    try:
        if top == 3:
            return dump(ast.parse("v = " + text).body[0].value)
        return dump(ast.parse(text, mode="eval").body)
    except (SyntaxError, ValueError, MemoryError, RecursionError) as e:
        return "unparsable:" + type(e).__name__


def valid_source(n):
    """ast.unparse the generated tree; None when CPython does not accept the text."""
    try:
        s = ast.unparse(ast.fix_missing_locations(n))
        ast.parse("(" + s + ")", mode="eval")
        return s
    except (SyntaxError, ValueError, RecursionError, AttributeError, TypeError):
        return None


def module_text(future: bool, header: int, body: str) -> str:
    return (FUTURE if future else "") + HEADERS[header] + body


def stmt_text(c, k=None) -> str:
    return POSITIONS[POS_INDEX[c["pos"]]][1].format(k=c["k"] if k is None else k, e=c["src"])


def build_modules(cases):
    """cases: list of dicts with src, pos, future (and optionally header). Yields (module source, [case...]) batches with
    uniform future flag and header."""
    for future in (False, True):
        for header in range(len(HEADERS)):
            group = [c for c in cases if c["future"] == future and c.get("header", 0) == header]
            for i in range(0, len(group), BATCH):
                chunk = group[i:i + BATCH]
                parts = []
                for k, c in enumerate(chunk):
                    c["k"] = k
                    parts.append(stmt_text(c))
                yield module_text(future, header, "".join(parts)), chunk


def prepare(chunk, src):
    """Attach to each case its source node E, the expected tree E' and the model query."""
    tree = ast.parse(src)
    header = chunk[0].get("header", 0)
    env = ENVS[header]
    nhead = len(ast.parse(module_text(chunk[0]["future"], header, "")).body)
    stmts = tree.body[nhead:]
    assert len(stmts) == len(chunk), (len(stmts), len(chunk))
    for c, st in zip(chunk, stmts):
        _, _, top, is_ann = POSITIONS[POS_INDEX[c["pos"]]]
        c["E"] = node_at(st, c["pos"])
        c["parse"] = bool(is_ann and not c["future"])
        c["top"] = top
        c["Eexp"] = py_subst(c["E"], False if c["parse"] else None, env=env)
        c["query"] = ["run", top, 1 if c["parse"] else 0, [[k, v] for k, v in sorted(env.items())], A(c["E"], env)]


def pick_family(gaps):
    for g in PRIORITY:
        if g in gaps:
            return g
    return None


def direct_eval(expr, Eexp, top=4):
    """Implementation vs CPython, no model. Returns (ok, detail)."""
    from griffe import ExprName
    if expr is None:
        return False, {"lost": "expression not stored (None)"}
    s = str(expr)
    want = dump(Eexp)
    got = parse_back(s, top)
    detail = {}
    if got != want:
        detail["str"] = s
        detail["reparsed"] = got[:300]
        detail["expected"] = want[:300]
    if not isinstance(expr, str):
        flat = list(expr.iterate(flat=True))
        joined = "".join(p if isinstance(p, str) else p.name for p in flat)
        if joined != s:
            detail["join"] = [joined, s]
        if any(not isinstance(p, (str, ExprName)) for p in flat):
            detail["flat_piece_kind"] = [type(p).__name__ for p in flat if not isinstance(p, (str, ExprName))][:3]
        exp = expand_one_layer(expr)
        if len(exp) != len(flat) or any((a is not b) and (a != b or not isinstance(a, str)) for a, b in zip(exp, flat)):
            detail["one_layer_expansion"] = [[str(x) for x in exp][:12], [str(x) for x in flat][:12]]
        names = [p.name for p in flat if isinstance(p, ExprName)]
        if names != py_names(Eexp):
            detail["names"] = [names, py_names(Eexp)]
        # dotted chains rooted at a plain name: each attribute name must carry the dotted prefix as its path
        got_paths = []
        for p in flat:
            if isinstance(p, ExprName) and isinstance(p.parent, ExprName):
                root = p
                while isinstance(root.parent, ExprName):
                    root = root.parent
                if root.parent is not None and not isinstance(root.parent, str):
                    got_paths.append(p.path)
        if got_paths != py_dotted(Eexp):
            detail["dotted_paths"] = [got_paths, py_dotted(Eexp)]
    return (not detail), detail


STATE = {"visited": []}


def run_module(ctx, src, chunk, stream):
    """Visit one generated module and check every case stored in it (three-way)."""
    try:
        prepare(chunk, src)
    except Exception as e:  # noqa: BLE001
        ctx.tie_failure("harness", "cannot prepare batch", repr(e), {"source": src[:2000]})
        return
    STATE["visited"].append(src)
    try:
        mod = visit_module(src)
        objs = []
        for c in chunk:
            objs.append(impl_at(mod, c["pos"], c["k"]))
    except Exception:  # noqa: BLE001
        # the visitor itself failed: evaluate case by case so the culprit becomes a failing input
        objs = []
        for c in chunk:
            one = module_text(c["future"], c.get("header", 0), stmt_text(c))
            try:
                objs.append(impl_at(visit_module(one), c["pos"], c["k"]))
            except Exception as e2:  # noqa: BLE001
                objs.append(e2)
    outs = ctx.model([c["query"] for c in chunk])
    for c, obj, out in zip(chunk, objs, outs):
        check_case(ctx, c, obj, out, stream)


def run_cases(ctx, cases, stream):
    """Full three-way check of a list of {src,pos,future,label} cases."""
    cases = [c for c in cases if c.get("src") is not None]
    for src, chunk in build_modules(cases):
        run_module(ctx, src, chunk, stream)


def run_sequences(ctx, sequences, stream):
    """History streams: each sequence is a list of modules (lists of cases) visited one after the other in this process.
    What is stored for an expression must not depend on what was built before: every case is checked exactly like a
    case visited alone (against the model, which is a function of the expression only, and against CPython), and carries
    the sources of the modules visited before it in its sequence, so that a failure can be replayed with its history."""
    for seq in sequences:
        prior = []
        for cases in seq:
            cases = [c for c in cases if c.get("src") is not None]
            for src, chunk in build_modules(cases):
                for c in chunk:
                    c["history"] = list(prior)
                ctx.observe("history_length", len(prior))
                run_module(ctx, src, chunk, stream)
                prior.append(src)


def case_json(c):
    cj = {"position": c["pos"], "future_annotations": c["future"], "expression": c["src"]}
    if c.get("header", 0):
        cj["header"] = c["header"]
    if c.get("history"):
        cj["history"] = c["history"]
    return cj


# ---------------------------------------------------------------- isolation: is a failure a function of the input alone?
def case_from_json(cj, label="replay"):
    c = {"src": cj["expression"], "pos": cj["position"], "future": cj["future_annotations"], "label": label}
    if cj.get("header"):
        c["header"] = cj["header"]
    if cj.get("history"):
        c["history"] = list(cj["history"])
    return c


def eval_with_history(cj):
    """(in a fresh interpreter) visit the history modules in order, then the case alone; direct evaluation only."""
    for h in cj.get("history", []):
        try:
            visit_module(h)
        except Exception:  # noqa: BLE001
            pass
    c = case_from_json(cj)
    for src, chunk in build_modules([c]):
        prepare(chunk, src)
        try:
            obj = impl_at(visit_module(src), c["pos"], c["k"])
        except Exception as e:  # noqa: BLE001
            return False, {"visit raised": type(e).__name__ + ": " + str(e)[:200]}
        return direct_eval(obj, c["Eexp"], c["top"])
    return True, {}


def isolated(cj, history=None):
    """Run eval_with_history in a fresh interpreter. Returns True (holds), False (fails) or None (could not run)."""
    import subprocess
    import sys
    q = dict(cj)
    if history is not None:
        q["history"] = history
    try:
        p = subprocess.run([sys.executable, "-m", "harness.props.c03", "--isolated"], input=json.dumps(q), capture_output=True,
                           text=True, timeout=300)
        return bool(json.loads(p.stdout.strip().splitlines()[-1])["ok"])
    except Exception:  # noqa: BLE001
        return None


def statements_of(src):
    """(prefix lines that are not generated statements, list of statement texts) of a generated module."""
    tree = ast.parse(src)
    lines = src.splitlines(keepends=True)
    head, stmts = [], []
    for st in tree.body:
        first = min([st.lineno] + [d.lineno for d in getattr(st, "decorator_list", [])])
        text = "".join(lines[first - 1:st.end_lineno])
        (head if isinstance(st, (ast.Import, ast.ImportFrom)) else stmts).append(text)
    return "".join(head), stmts


def find_history(cj, visited):
    """The failure did not reproduce from the input alone. Find a short list of earlier modules after which it does:
    shortest failing suffix of what this process visited (doubling), then a single module of it, then a few statements."""
    n, k, hist = len(visited), 1, None
    while True:
        cand = visited[max(0, n - k):]
        if isolated(cj, cand) is False:
            hist = cand
            break
        if k >= n:
            return None
        k *= 2
    for m in reversed(hist[-16:]):
        if len(hist) > 1 and isolated(cj, [m]) is False:
            hist = [m]
            break
    if len(hist) == 1:
        head, stmts = statements_of(hist[0])
        while len(stmts) > 1:
            half = len(stmts) // 2
            for part in (stmts[:half], stmts[half:]):
                if isolated(cj, [head + "".join(part)]) is False:
                    stmts = part
                    break
            else:
                break
        hist = [head + "".join(stmts)]
    return hist


def finalise_failures(ctx):
    """Epilogue of explore/search: make the reported failing input self-contained. Failures are examined smallest first
    in a fresh interpreter: the first one that fails from its input alone is the replay. If none does, what Griffe stores
    depends on what it built before: the smallest such case is reported together with a short history (earlier modules
    of this run) after which it fails in a fresh interpreter too; the other failures are listed in its detail."""
    fails = ctx.prop_failures
    if not fails:
        return
    fails.sort(key=lambda f: len(json.dumps(f["case"], default=str)))
    upto = {id(f): f["case"].pop("_visited_upto", len(STATE["visited"])) for f in fails}
    best, dependent = None, []
    for f in fails[:12]:
        alone = isolated(f["case"])
        ctx.observe("isolation", {True: "holds-alone", False: "fails-alone", None: "not-run"}[alone])
        if alone is True:
            f["case"]["history_dependent"] = True
            dependent.append(f)
            continue
        best = f
        break
    if best is None and dependent:
        for f in dependent[:2]:
            h = find_history(f["case"], STATE["visited"][:upto[id(f)]])
            if h is not None:
                f["case"]["history"] = h
                best = f
                break
        best = best or dependent[0]
    if best is None:
        return
    others = [g for g in fails if g is not best]
    if others:
        best["detail"] = dict(best["detail"], other_failures=[{"case": {k: v for k, v in g["case"].items() if k != "history"},
                                                               "detail": g["detail"]} for g in others[:8]])
    if best["case"].get("history_dependent"):
        # keep only the self-contained report: the others fail only after a history this run did not isolate for them
        ctx.prop_failures[:] = [best]
    else:
        ctx.prop_failures[:] = [best] + [g for g in others if not g["case"].get("history_dependent")]


def check_case(ctx, c, obj, out, stream):
    cj = case_json(c)
    E, Eexp = c["E"], c["Eexp"]
    d = depth_of(E)
    has_str = any(isinstance(x, ast.Constant) and isinstance(x.value, str) for x in ast.walk(E))
    ctx.case(cj, d >= 2 or has_str)
    ctx.observe("stream", stream)
    ctx.observe("position", c["pos"] + ("/future" if c["future"] else ""))
    ctx.observe("depth", d)
    ctx.observe("root", type(E).__name__)
    for x in ast.walk(E):
        if isinstance(x, (ast.expr, ast.comprehension, ast.keyword)):
            ctx.observe("node", type(x).__name__)
    if isinstance(obj, Exception):
        ctx.observe("outcome", "UNEXPLAINED-visit-raised")
        ctx.property_failure(cj, {"visit raised": type(obj).__name__ + ": " + str(obj)[:200]})
        return
    if out == ["bad-input"] or len(out) != 11:
        ctx.tie_failure("harness", "model rejected the abstraction", out, cj)
        return
    wf, nopar, mbuild, mref, gaps, mnames, unsupported, msub, drops, lits, scope = out
    if scope != 1:
        ctx.tie_failure("oracle", "local names: the harness's reading of which names the expression binds itself differs from the model's rule (scope_ok)", {}, cj)
    if wf != 1 or nopar != 1:
        ctx.tie_failure("harness", "abstraction produced an ill-formed term", {"wf": wf, "no_parsed": nopar}, cj)
    if lits != 1:
        ctx.tie_failure("oracle", "Literal resolution: the harness's reading of the module's imports differs from the model's (lits_agree)", {}, cj)
    pg = py_gaps_top(Eexp, c["top"], E)
    if pg != set(gaps):
        ctx.observe("py_gaps_mirror", "differs")
        ctx.tie_failure("harness", "python mirror of the gap classifier (used by search) differs from the model's", {"python": sorted(pg), "model": sorted(set(gaps))}, cj)
    else:
        ctx.observe("py_gaps_mirror", "agrees")
    for g in set(gaps):
        ctx.observe("gap_family", FAMILY_NAME.get(g, g))
    if not gaps:
        ctx.observe("gap_family", "none")
    # (C) model vs implementation
    if mbuild and mbuild[0][6] != 1:
        ctx.tie_failure("harness", "model: the recursive one-layer walk did not end within its fuel (hypothesis of C03_recursive_walk_is_flat)", {}, cj)
    impl = observe_impl(obj)
    if mbuild != impl:
        ctx.tie_failure("correspondence", "build/iterate/render(model) vs griffe.visit + str/iterate", {"model": str(mbuild)[:600], "impl": str(impl)[:600]}, cj)
    ctx.observe("class", impl[0][1] if impl else "None")
    if mbuild and msub != [mbuild[0][0]] and 11 not in gaps:      # 11: rule_ok fails (finding F14), the rule theorem's hypothesis
        ctx.tie_failure("oracle", "model: build with parsing on differs from build of the substituted tree (C03_string_annotation_rule instance)",
                        {"direct": mbuild[0][0], "substituted": msub}, cj)
    # (O) reference printer vs CPython's parser; names of the model's substituted tree vs the harness's
    want = dump(Eexp)
    if unsupported != 1:
        if parse_back(mref, c["top"]) != want:
            ctx.tie_failure("oracle", "ref(model) does not parse back to the expected tree", {"ref": mref, "reparsed": parse_back(mref, c["top"])[:300], "expected": want[:300]}, cj)
        ctx.count("oracle_ref_checked")
    else:
        ctx.count("oracle_ref_unsupported")
    if unsupported != 1 and mnames != py_names(Eexp):
        ctx.tie_failure("oracle", "src_names(subst e)(model) vs names of the expected tree", {"model": mnames, "python": py_names(Eexp)}, cj)
    # the render theorem, instantiated
    if not gaps and (not mbuild or mbuild[0][0] != mref):
        ctx.tie_failure("oracle", "model: gap-free input but str(build e) <> ref e (C03_render_eq_reference_modulo_known instance)",
                        {"build": mbuild, "ref": mref}, cj)
    # direct evaluation: implementation vs CPython
    ok, detail = direct_eval(obj, Eexp, c["top"])
    if ok:
        ctx.observe("outcome", "ok" if not gaps else "ok-but-gap-flagged")
        return
    only_names = set(detail) <= {"names", "dotted_paths"}
    fam = pick_family(gaps)
    if only_names:   # a lost or spurious name is explained only by the family that drops sub-expressions
        fam = 10 if 10 in gaps else None
    ctx.observe("outcome", "known:" + FAMILY_NAME[fam] if fam else "UNEXPLAINED" + ("" if not gaps else ":model-names-repaired-family"))
    if not fam:
        cj["_visited_upto"] = len(STATE["visited"])
    ctx.property_failure(cj, detail, finding=FAMILY[fam] if fam else None)


# (finding, repair that removes it or None, family, position, future, expression); the witnesses of the repaired findings are
# must-pass corpus cases now (corpus/C03/fixed-*.json)
WITNESSES = [
    ("C03-F8", None, 8, "param_default", False, "(yield)"),
    ("C03-F10", None, 10, "assign", False, "f(await x)"),
    ("C03-F10", None, 10, "assign", False, "lambda p=(await x): p"),
]


def replay_witnesses(ctx):
    """Every finding's witness is replayed on the implementation. A witness whose repair is in the tree must now pass and
    must not be classified; one whose repair is absent must fail and be classified in its family by the model."""
    cases = [{"src": s_, "pos": p, "future": f, "label": (fid, fix, fam)} for fid, fix, fam, p, f, s_ in WITNESSES]
    reproduced = {}
    for src, chunk in build_modules(cases):
        prepare(chunk, src)
        mod = visit_module(src)
        outs = ctx.model([c["query"] for c in chunk])
        for c, out in zip(chunk, outs):
            fid, fix, fam = c["label"]
            ok, _ = direct_eval(impl_at(mod, c["pos"], c["k"]), c["Eexp"], c["top"])
            reproduced[fid] = reproduced.get(fid, False) or (not ok)
            expected = fix is None or not FX[fix]
            ctx.observe("witness", f"{fid}/{fix}:" + ("fails" if not ok else "passes"))
            if (fam in out[4]) != expected:
                ctx.tie_failure("oracle", f"model: witness of {fid} ({fix}) " + ("is not" if expected else "is still") + f" classified in family {fam}",
                                {"gaps": out[4]}, case_json(c))
            if ok and expected:
                ctx.tie_failure("oracle", f"witness of {fid} no longer fails although its repair ({fix}) is not detected in the tree", {}, case_json(c))
            if not ok and not expected:
                ctx.property_failure(case_json(c), {"witness of a repaired defect fails again": fid})
    for fid, r in reproduced.items():
        ctx.witness(fid, r)


def corpus_cases():
    """corpus/C03/*.json: witnesses of repaired defects and minimised past disagreements; every one must pass all checks."""
    out = []
    d = Path(__file__).resolve().parents[2] / "corpus" / "C03"
    for f in sorted(d.glob("*.json")):
        for c in json.loads(f.read_text())["cases"]:
            out.append({"src": c["expression"], "pos": c["position"], "future": c["future_annotations"], "label": f.stem})
    return out


def mk(n, pos, future, label="", header=0):
    return {"src": valid_source(n), "pos": pos, "future": future, "label": label, "header": header}


def exhaustive_cases(ctx, full: bool):
    reps, slots = representatives(), parent_slots()
    cases = []
    i = 0
    for sl, b in slots:
        for rl, r in reps:
            n = b(copy.deepcopy(r))
            combos = [(p[0], f) for p in POSITIONS for f in (False, True)] if full else None
            if full:
                # all positions only for the top slot (the stored expression itself); two rotating positions elsewhere
                if sl == "top":
                    for p, f in combos:
                        cases.append(mk(n, p, f, f"{sl}<-{rl}"))
                    continue
            p1 = POSITIONS[i % 7][0]
            p2 = POSITIONS[(i * 3 + 1) % 7][0]
            i += 1
            cases.append(mk(n, p1, bool(i & 1), f"{sl}<-{rl}"))
            if full or sl == "top":
                cases.append(mk(n, p2 if p2 != p1 else "annassign", not bool(i & 1), f"{sl}<-{rl}"))
    return cases


def string_cases(ctx, count):
    """String-annotation stream: strings whose content is code, under every Literal spelling, nested, in every position."""
    rng = ctx.rng
    L = ast.Load()
    lits = [nm("Literal"), nm("Lit"), ast.Attribute(value=nm("typing"), attr="Literal", ctx=L), ast.Attribute(value=nm("t"), attr="Literal", ctx=L),
            ast.Attribute(value=nm("te"), attr="Literal", ctx=L), ast.Attribute(value=nm("a"), attr="Literal", ctx=L), nm("List"), nm("Optional"),
            ast.Attribute(value=ast.Attribute(value=nm("a"), attr="typing", ctx=L), attr="Literal", ctx=L),
            # chains whose root is not a name: only the tail is looked at by the unrepaired _build_subscript (finding F14)
            ast.Attribute(value=ast.Attribute(value=ast.Call(func=nm("f"), args=[], keywords=[]), attr="typing", ctx=L), attr="Literal", ctx=L),
            ast.Attribute(value=ast.Attribute(value=ast.BoolOp(op=ast.Or(), values=[nm("a"), nm("b")]), attr="typing_extensions", ctx=L), attr="Literal", ctx=L),
            ast.Attribute(value=ast.Attribute(value=const("s"), attr="typing", ctx=L), attr="Literal", ctx=L),
            ast.Attribute(value=ast.Attribute(value=ast.Subscript(value=nm("a"), slice=nm("b"), ctx=L), attr="x", ctx=L), attr="Literal", ctx=L)]
    strs = CODE_STRINGS + DATA_STRINGS

    def s():
        return const(rng.choice(strs))

    def shape(d):
        r = rng.random()
        if d <= 0 or r < 0.25:
            return s() if rng.random() < 0.8 else nm(rng.choice(NAMES))
        if r < 0.55:
            sl = shape(d - 1) if rng.random() < 0.5 else ast.Tuple(elts=[shape(d - 1) for _ in range(rng.randint(1, 3))], ctx=L)
            return ast.Subscript(value=copy.deepcopy(rng.choice(lits)) if rng.random() < 0.9 else s(), slice=sl, ctx=L)
        if r < 0.65:
            return ast.BinOp(left=shape(d - 1), op=ast.BitOr(), right=shape(d - 1))
        if r < 0.72:
            return ast.List(elts=[shape(d - 1), shape(d - 1)], ctx=L)
        if r < 0.78:
            return ast.Attribute(value=shape(d - 1), attr="c", ctx=L)
        if r < 0.84:
            return fstr("p", fv(shape(d - 1)), rng.choice(strs))
        if r < 0.9:
            return lam(pk=[("p", s())], body=shape(d - 1))
        if r < 0.95:
            return ast.Call(func=nm("f"), args=[shape(d - 1)], keywords=[ast.keyword(arg="k", value=shape(d - 1))])
        return ast.Subscript(value=ast.Subscript(value=nm("Dict"), slice=s(), ctx=L), slice=s(), ctx=L)

    out = []
    for i in range(count):
        n = shape(rng.randint(0, 3))
        pos = rng.choice(["annassign", "param_annotation", "returns", "annassign", "returns", "assign", "param_default", "decorator", "base"])
        out.append(mk(n, pos, rng.random() < 0.3, "strings", header=1 if rng.random() < 0.2 else 0))
    return out


def random_cases(ctx, count, safe, maxd, strings="data"):
    g = Gen(ctx.rng, safe, strings)
    out = []
    for _ in range(count):
        d = ctx.rng.randint(2, maxd)
        n = g.expr(d, 4 if safe else 0)
        p = ctx.rng.choice(POSITIONS)[0]
        out.append(mk(n, p, ctx.rng.random() < 0.35, "safe" if safe else "wild"))
    return out


# constants that compare equal (and hash alike) but are different objects with different spellings: anything that keys
# on the value instead of the node (a memo table, a set, a dict of defaults) confuses them
EQ_CLASSES = [[False, 0, 0.0, 0j], [True, 1, 1.0], [2, 2.0], [10 ** 20, 1e20]]
POS_NAMES = [p[0] for p in POSITIONS]


def equal_constant_cases():
    """Every ordered pair of equal-but-distinct constants inside ONE expression, in several shapes and positions."""
    L = ast.Load()
    shapes = [lambda x, y: ast.List(elts=[x, y], ctx=L),
              lambda x, y: ast.Call(func=nm("f"), args=[x], keywords=[ast.keyword(arg="k", value=y)]),
              lambda x, y: ast.Dict(keys=[x], values=[y]),
              lambda x, y: ast.Subscript(value=nm("Literal"), slice=ast.Tuple(elts=[x, y], ctx=L), ctx=L),
              lambda x, y: lam(pk=[("p", x)], body=y),
              lambda x, y: ast.BinOp(left=x, op=ast.Add(), right=ast.Tuple(elts=[y, x], ctx=L))]
    out, i = [], 0
    for cls in EQ_CLASSES:
        for x, y in itertools.permutations(cls, 2):
            for sh in shapes:
                out.append(mk(sh(const(x), const(y)), POS_NAMES[i % 7], bool(i % 3 == 0), "equal-constants"))
                i += 1
    return out


def history_sequences(ctx, count):
    """Sequences of small modules visited one after the other. The modules of a sequence share something a cache could
    key on while requiring different output: equal constants of different types, the same string constant as annotation
    (code) and as value (data), the same spelling bound by different imports, the same annotation with and without
    postponed evaluation. Each sequence is also run in reverse order."""
    rng = ctx.rng
    L = ast.Load()

    def wrap(x):
        r = rng.random()
        if r < 0.4:
            return x
        if r < 0.6:
            return ast.List(elts=[x, nm("a")], ctx=L)
        if r < 0.75:
            return ast.Call(func=nm("f"), args=[x], keywords=[])
        if r < 0.9:
            return ast.Subscript(value=nm(rng.choice(["List", "Literal", "Optional"])), slice=x, ctx=L)
        return ast.Dict(keys=[const("k")], values=[x])

    def module_of(nodes, future=None, header=0, positions=None):
        f = (rng.random() < 0.3) if future is None else future
        return [mk(copy.deepcopy(n), rng.choice(positions or POS_NAMES), f, "history", header) for n in nodes]

    def theme_constants():
        cls = rng.choice(EQ_CLASSES)
        vals = list(cls)
        rng.shuffle(vals)
        cut = rng.randint(1, len(vals) - 1)
        return [module_of([wrap(const(v)) for v in part for _ in range(2)]) for part in (vals[:cut], vals[cut:])]

    def theme_string_roles():
        strs = rng.sample(CODE_STRINGS, 3)
        nodes = [wrap(const(x)) for x in strs for _ in range(2)]
        return [module_of(nodes, False, 0, ["annassign", "param_annotation", "returns"]),
                module_of(nodes, False, 0, ["assign", "param_default", "decorator", "base"])]

    def theme_headers():
        lits = [nm("Literal"), nm("Lit"), nm("List"), ast.Attribute(value=nm("typing"), attr="Literal", ctx=L),
                ast.Attribute(value=nm("t"), attr="Literal", ctx=L), ast.Attribute(value=nm("te"), attr="Literal", ctx=L)]
        nodes = [ast.Subscript(value=copy.deepcopy(v), slice=const(rng.choice(CODE_STRINGS[:8])), ctx=L) for v in lits]
        pos = ["annassign", "param_annotation", "returns"]
        return [module_of(nodes, False, 0, pos), module_of(nodes, False, 1, pos)]

    def theme_future():
        nodes = [wrap(const(x)) for x in rng.sample(CODE_STRINGS, 4)]
        pos = ["annassign", "param_annotation", "returns"]
        return [module_of(nodes, False, 0, pos), module_of(nodes, True, 0, pos)]

    def theme_random():
        g = Gen(rng, True, "code")
        return [module_of([g.expr(rng.randint(1, 3), 4) for _ in range(5)]) for _ in range(rng.choice([2, 3]))]

    themes = [theme_constants, theme_constants, theme_string_roles, theme_headers, theme_future, theme_random]
    out = []
    for i in range(count):
        seq = themes[i % len(themes)]()
        out.append(seq)
        out.append([copy.deepcopy(m) for m in reversed(seq)])
    return out


def explore(ctx):
    ensure_fixes()
    STATE.update(visited=[])
    try:
        explore_streams(ctx)
    finally:
        finalise_failures(ctx)


def explore_streams(ctx):
    replay_witnesses(ctx)
    run_cases(ctx, corpus_cases(), "corpus")
    run_cases(ctx, equal_constant_cases(), "equal-constants")
    run_sequences(ctx, history_sequences(ctx, ctx.budget(36, 360)), "history")
    ex = exhaustive_cases(ctx, full=not ctx.quick)
    ctx.exhaustive = not ctx.quick
    run_cases(ctx, ex, "exhaustive-depth2")
    run_cases(ctx, string_cases(ctx, ctx.budget(1200, 12000)), "string-annotations")
    run_cases(ctx, random_cases(ctx, ctx.budget(1500, 20000), True, 6, "data"), "random-safe")
    run_cases(ctx, random_cases(ctx, ctx.budget(700, 8000), True, 5, "code"), "random-safe-codestrings")
    run_cases(ctx, random_cases(ctx, ctx.budget(1200, 15000), False, 6, "data"), "random-wild")
    run_cases(ctx, random_cases(ctx, ctx.budget(400, 5000), False, 4, "code"), "random-wild-codestrings")
    if not ctx.quick:
        sample = [c["query"] for c in random_cases(ctx, 60, False, 4) if c["src"] is not None and not prepare_one(c)]
        ctx.cross_check_extraction(sample[:40])


def prepare_one(c):
    for src, chunk in build_modules([c]):
        prepare(chunk, src)
    return False


# ---------------------------------------------------------------- python mirror of the gap classifier (used by search(), cross-checked in explore)
def fam_of(n) -> int:
    return 8 if type(n) in (ast.Yield, ast.YieldFrom) else 1


def _need_top(req, c):
    return {fam_of(c)} if prec_of(c) < req else set()


def _need(req, c):
    return set() if FX["prec"] else _need_top(req, c)


def _has_unsafe(s: str) -> bool:
    return any(ord(ch) < 32 or ord(ch) == 127 or ch in "'\\" for ch in s)


def py_gaps(n, direct=False, isub=False, ijoin=False, ifmt=False) -> set:
    """Mirror of gaps (coq/Model/C03_spec.v) on the expected ast tree, for the repairs FX the tree contains."""
    g1 = lambda c: py_gaps(c, False, False, ijoin, ifmt)
    ga = lambda req, c: _need(req, c) | g1(c)

    def fparts(nfmt, values):
        out = set()
        for c in values:
            if isinstance(c, ast.Constant):
                if nfmt or (not FX["fesc"] and ("{" in c.value or "}" in c.value or _has_unsafe(c.value))):
                    out.add(3)
            else:
                out |= py_gaps(c, False, False, True, nfmt)
        return out

    t = type(n)
    out = set()
    if t is ast.Name:
        return out
    if t is ast.Constant:
        v = n.value
        if isinstance(v, str) and ijoin and not ifmt:
            out.add(3)
        return out
    if t is ast.Attribute:
        out |= ga(18, n.value)
        if isinstance(n.value, ast.Constant) and isinstance(n.value.value, int) and not isinstance(n.value.value, bool) and not FX["intattr"]:
            out.add(9)
        return out
    if t is ast.BinOp:
        p = BINPREC[type(n.op)]
        lreq, rreq = (17, 15) if isinstance(n.op, ast.Pow) else (p, p + 1)
        return ga(lreq, n.left) | ga(rreq, n.right)
    if t is ast.BoolOp:
        p = 5 if isinstance(n.op, ast.Or) else 6
        for v in n.values:
            out |= ga(p + 1, v)
        return out
    if t is ast.UnaryOp:
        return ga(7 if isinstance(n.op, ast.Not) else 15, n.operand)
    if t is ast.Compare:
        out |= ga(9, n.left)
        for c in n.comparators:
            out |= ga(9, c)
        return out
    if t is ast.Call:
        out |= ga(18, n.func)
        if len(n.args) == 1 and not n.keywords and isinstance(n.args[0], ast.GeneratorExp):
            g = n.args[0]       # shares the call's parentheses
            out |= ga(4, g.elt)
            for c in g.generators:
                out |= g1(c)
            return out
        for a in n.args:
            out |= ga(4, a)
        for k in n.keywords:
            out |= g1(k)
        return out
    if t is ast.keyword:
        return ga(4, n.value)
    if t is ast.Subscript:
        return (_need(18, n.value) | py_gaps(n.value, False, False, ijoin, ifmt) | _need(4, n.slice)
                | py_gaps(n.slice, True, True, ijoin, ifmt))
    if t is ast.Slice:
        for c in (n.lower, n.upper, n.step):
            if c is not None:
                out |= ga(4, c)
        return out
    if t is ast.Tuple:
        if direct and not n.elts and not FX["tuple0"]:
            out.add(7)
        for c in n.elts:
            out |= _need(4, c) | py_gaps(c, False, False, ijoin, ifmt)
        return out
    if t in (ast.List, ast.Set):
        for c in n.elts:
            out |= ga(4, c)
        return out
    if t is ast.Dict:
        for k, v in zip(n.keys, n.values):
            if k is None:
                out |= ga(9, v)
            else:
                out |= ga(4, k) | ga(4, v)
        return out
    if t is ast.IfExp:
        return ga(5, n.body) | ga(5, n.test) | ga(4, n.orelse)
    if t is ast.Lambda:
        po, pk, vp, ko, vk = lambda_params(n.args)
        if ((po and not pk) or (vp and ko)) and not FX["lambda"]:
            out.add(4)
        for _, d in po + pk + ko:
            if d is not None:
                out |= _need(4, d) | py_gaps(d, False, False, ijoin, ifmt)
        return out | ga(4, n.body)
    if t is ast.NamedExpr:
        return ga(18, n.target) | ga(4, n.value)
    if t is ast.Starred:
        return ga(9, n.value)
    if t in (ast.ListComp, ast.SetComp, ast.GeneratorExp):
        if t is ast.GeneratorExp and not FX["genexp"]:
            out.add(6)
        out |= ga(4, n.elt)
        for g in n.generators:
            out |= g1(g)
        return out
    if t is ast.DictComp:
        out |= ga(4, n.key) | ga(4, n.value)
        for g in n.generators:
            out |= g1(g)
        return out
    if t is ast.comprehension:
        out |= ga(9, n.target) | ga(5, n.iter)
        for c in n.ifs:
            out |= ga(5, c)
        return out
    if t is ast.JoinedStr:
        return fparts(False if FX["fnest"] else ifmt, n.values)
    if t is ast.FormattedValue:
        if not FX["fconv"] and (n.conversion != -1 or n.format_spec is not None):
            out.add(3)
        try:
            txt = ast.unparse(n.value)
        except Exception:  # noqa: BLE001
            txt = ""
        if not FX["fglue"] and txt.startswith("{") and prec_of(n.value) >= 5:
            out.add(3)
        out |= _need(5, n.value) | py_gaps(n.value, False, False, ijoin, True)
        if FX["fconv"] and n.format_spec is not None:
            out |= fparts(False, n.format_spec.values) if isinstance(n.format_spec, ast.JoinedStr) else {3}
        return out
    if t is ast.Yield:
        return ga(4, n.value) if n.value is not None else out
    if t is ast.YieldFrom:
        return ga(4, n.value)
    if t is ast.Await:
        return {10} | ga(18, n.value)
    raise ValueError(t.__name__)


def quirk_canon(v):
    """What the unrepaired _build_subscript computes for a chain whose root is not a name (the root is forgotten)."""
    if not isinstance(v, ast.Attribute):
        return None
    r = v.value
    if isinstance(r, ast.Name):
        return None
    if isinstance(r, ast.Attribute):
        q = quirk_canon(r)
        return None if q is None else q + "." + v.attr
    if isinstance(r, ast.Constant):
        return "str." + v.attr
    return v.attr


def py_has_quirk(n) -> bool:
    """Mirror of has_quirk (finding F14) on the SOURCE tree, contents of parseable string constants included."""
    for x in ast.walk(n):
        if isinstance(x, ast.Subscript) and quirk_canon(x.value) in LITERAL_PATHS:
            return True
        if isinstance(x, ast.Constant) and isinstance(x.value, str):
            p = try_parse(x.value)
            if p is not None and py_has_quirk(p):
                return True
    return False


def py_gaps_top(Eexp, top, E=None) -> set:
    out = _need_top(top, Eexp) | py_gaps(Eexp)
    if E is not None and not FX["litroot"] and py_has_quirk(E):
        out.add(11)
    return out


def search(ctx):
    """A tie broke (or the model could not be built): implementation vs CPython only, classified by the python mirror
    of the gap predicates. The first failing input outside every known family becomes the replay."""
    ensure_fixes()
    STATE.update(visited=[])
    try:
        search_streams(ctx)
    finally:
        finalise_failures(ctx)


def search_streams(ctx):
    def modules():
        for c in (equal_constant_cases(), exhaustive_cases(ctx, full=False)):
            yield from build_modules([x for x in c if x.get("src") is not None])
        for seq in history_sequences(ctx, 60):
            prior = []
            for cases in seq:
                for src, chunk in build_modules([x for x in cases if x.get("src") is not None]):
                    for c in chunk:
                        c["history"] = list(prior)
                    yield src, chunk
                    prior.append(src)
        for c in (string_cases(ctx, 1500), random_cases(ctx, 3000, True, 6, "data"), random_cases(ctx, 1000, True, 5, "code"),
                  random_cases(ctx, 1500, False, 5, "data")):
            yield from build_modules([x for x in c if x.get("src") is not None])

    for src, chunk in modules():
        prepare(chunk, src)
        STATE["visited"].append(src)
        try:
            mod = visit_module(src)
        except Exception:  # noqa: BLE001
            mod = None
        for c in chunk:
            ctx.evaluations += 1
            cj = case_json(c)
            cj["_visited_upto"] = len(STATE["visited"])
            try:
                if mod is None:
                    one = module_text(c["future"], c.get("header", 0), stmt_text(c))
                    obj = impl_at(visit_module(one), c["pos"], c["k"])
                else:
                    obj = impl_at(mod, c["pos"], c["k"])
            except Exception as e:  # noqa: BLE001
                ctx.property_failure(cj, {"visit raised": type(e).__name__ + ": " + str(e)[:200]})
                return
            ok, detail = direct_eval(obj, c["Eexp"], c["top"])
            if ok:
                continue
            gaps = py_gaps_top(c["Eexp"], c["top"], c["E"])
            fam = pick_family(gaps)
            if set(detail) <= {"names", "dotted_paths"}:
                fam = 10 if 10 in gaps else None
            if fam is None:
                ctx.property_failure(cj, detail)
                return
        if ctx.elapsed() > 900:
            return


def replay(ctx, data):
    ensure_fixes()
    case = data.get("failing_input") or {}
    if "expression" not in case:
        print("replay names no input:", data.get("no_longer_checks"))
        return 0
    c = case_from_json(case)
    for i, h in enumerate(case.get("history", [])):
        print(f"# ---- history module {i + 1} (visited first, in this process)")
        print(h)
        try:
            visit_module(h)
        except Exception as e:  # noqa: BLE001
            print("griffe.visit raised on the history module:", type(e).__name__, e)
    if case.get("history_dependent") and not case.get("history"):
        print("# the failure was seen only after other modules had been visited in the same process; no short history was isolated")
    for src, chunk in build_modules([c]):
        prepare(chunk, src)
        print(src)
        try:
            obj = impl_at(visit_module(src), c["pos"], c["k"])
        except Exception as e:  # noqa: BLE001
            print("griffe.visit raised:", type(e).__name__, e)
            return 0
        print("griffe str   :", None if obj is None else str(obj))
        print("expected tree:", dump(c["Eexp"]))
        print("reparsed     :", None if obj is None else parse_back(str(obj), c["top"]))
        print("direct check :", direct_eval(obj, c["Eexp"], c["top"]))
        print("python gaps  :", sorted(py_gaps_top(c["Eexp"], c["top"], c["E"])))
        if ctx.driver is not None:
            out = ctx.model([c["query"]])[0]
            print("model        :", {"build": out[2], "ref": out[3], "gaps": out[4]})
    return 0


if __name__ == "__main__":
    import sys
    if "--isolated" in sys.argv:
        ensure_fixes()
        ok, detail = eval_with_history(json.loads(sys.stdin.read()))
        print(json.dumps({"ok": bool(ok), "detail": {k: str(v)[:300] for k, v in detail.items()}}))
