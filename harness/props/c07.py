"""C07 — Method resolution order and inherited members equal CPython's.

(C) model c3linear_merge / Class._mro / inherited_members / all_members   vs  Griffe objects (built directly and loaded from source)
(O) model cpython_pmerge / cpython_mro / cpython_getattr                  vs  real type() / __mro__ / vars() / getattr (and functools._c3_merge on raw lists)
direct property evaluation: Griffe vs real classes on every generated hierarchy that CPython can judge
"""
from __future__ import annotations

import functools
import importlib
import itertools
import json
import signal
import sys
from contextlib import contextmanager
from pathlib import Path

ID = "C07"
LEVEL_TEXT = ("Theorems for all inputs (36, all closed under the global context). C3 merge: Griffe's deque-based c3linear_merge equals CPython's "
              "index-vector pmerge on every list of lists (same result, same failures), terminates, satisfies the C3 conditions; empty lists are "
              "neutral; erasing a class that is last wherever it occurs commutes with the merge, failures included (and the hypothesis is needed). "
              "Tables: Class._mro equals CPython's mro_implementation (fast path, duplicate-base check, pmerge) on every table a Python program can "
              "express, of any size; on arbitrary tables its recursion stops within #classes+1 levels and a class that reaches a cycle is reported "
              "uncomputable ('cycle detected' only when there is one); eliding `object` is sound; for a root class the collection does not hold "
              "(typing.Generic, an unloaded package) Griffe's MRO on the collection without it is CPython's MRO with it erased whenever it is written "
              "last and is last in every merged linearisation (decidable predicate; otherwise refuted by a 7-class witness = finding C07-F1). "
              "Members: inherited_members = nearest definition along the MRO, never a declared name; all_members = CPython's lookup through tp_mro; "
              "inherited aliases live under the subclass's path and finally lead to an object, never an alias. Base expressions: Class.resolved_bases "
              "as repaired by 3a123f9 (Expr.canonical_path through Object.resolve, get_member through aliases, final_target with its cycle guards, "
              "the loop following assigned names with its `followed` set, the except-and-drop, the is_class filter) always returns (alias and "
              "assignment cycles are dropped), is transparent for subscripts, yields an object that is never an alias; a base that goes through no "
              "assignment is resolved to exactly what it denotes in Python (nested evaluation) through any alias chain; for every list of bases "
              "Griffe's bases are a subsequence of -- and, when all resolve, equal to -- the bases under 'every assigned name denotes its value', "
              "and the loop agrees with that reading unless it stops at a subscripted value; what remains of finding C07-F2 (subscripted value, "
              "assigned name in the middle of a chain, name bound again later) is refuted by three witnesses; and -- proved, no longer only checked -- whatever "
              "resolved_bases finds, through aliases AND chains of assignments, is what the expression denotes under Python's nested evaluation "
              "(C07_resolved_base_sound_py, fuel (2+#objects)^2), so Griffe's bases are a subsequence of / equal to Python's bases under that evaluation; "
              "several hidden classes at once (typing.Generic, abc.ABC) are covered by C07_hidden_all, whose decidable hypothesis the check evaluates with "
              "the extracted model on every class of every program. "
              "The models are tied to the code by exhaustive hierarchies (N<=5 quick, N<=6 thorough, <=3 ordered bases), random hierarchies with "
              "members across modules, packages generated as source with 8 import styles x subscripts x assignment aliases x Generic[T]/object "
              "bases x holder classes (also derived from each other, with nested classes named like module-level ones) x alias members over module "
              "names that extend each other and nested packages -- each checked on the visited tree, on the tree reloaded from its JSON dump (base and "
              "full), on the tree merged with .pyi stubs that list other bases, and on the inspected tree, against the model, the real import and "
              "type() --, alias mazes (cyclic / dangling imports), cyclic and "
              "arbitrary tables, load histories, and raw list-of-lists merges.")
LEVEL_NOTE = ("Trusted: Coq kernel, extraction, the abstractions in this module (table <-> Griffe objects / source; program specification -> source "
              "files + heap of objects, validated on every program by the real import's __bases__/__mro__ and by Griffe's own resolved_bases), "
              "CPython's type() as authority. `object` is elided from the working spec model; the elision is a theorem and the spec with `object` "
              "and external classes spelled out (cpython_mro_ext, incl. typing's __mro_entries__ erasure of `Generic[T]` before a later subscripted "
              "base) is what (O) compares with real __mro__. Modelled rather than verified: classes are identified with their paths; alias "
              "resolution is modelled at the level of its outcome (object found / KeyError / cyclic), not of Alias._target caching (C06's subject); "
              "flow-insensitive scopes (each name bound once); no theorem links the heap without externals to the heap with them (checked by (O) "
              "only); the nested evaluation of the theorems (pyfin: values of assignments evaluated afresh) and the guarded reading used to build the "
              "CPython-side table (fin true) are compared on every base of every program together with the real __bases__ (they may differ only on cyclic "
              "programs, which Python cannot run); C07_hidden_all covers any list of hidden root classes hidden one "
              "after the other (object is covered by the elision theorems; explicit `object` not last stays in the gap predicate); its hypothesis is over "
              "all classes up to c, so the check falls back to the hierarchy-only Python predicate when an unrelated lower class breaks it (about 2% of "
              "the classes with external ancestors: `table-gap-only` in the evidence). Known findings (classified only "
              "when the extracted model reproduces both Griffe's and CPython's answer on that input): C07-F1, C07-F2 (narrowed; the plain case is fixed "
              "by 3a123f9 and now a must-pass corpus program).")
MODEL = ("Model.C07_bases", "run_C07b")          # run_C07b falls through to Model.C07_mro.run_C07 for the table-level requests
MODEL_TARGETS = ["Model/C07_bases.vo"]
COQ_TARGETS = ["Proofs/C07_mro.vo", "Proofs/C07_bases.vo", "Proofs/C07_hidden.vo", "Proofs/C07_pyeval.vo"]
RULE = ("(1) every hierarchy of N<=5 (quick) / N<=6 (thorough) classes where class i takes 0..3 ordered distinct bases among classes 0..i-1 "
        "(depth-first, each new class checked once; classes below a TypeError class are kept as 'cannot exist'); "
        "(2) seeded random ordered tables, 2..8 classes over 1..3 modules (half of the time named m / m_b / m1 / m10 / mod: names extending each other), "
        "<=4 bases, occasional duplicate base, random members from a pool of 5 names; "
        "(3) packages rendered to source with 6 import styles (+ classes nested in holder classes), loaded with griffe.load and imported for real; "
        "(4) arbitrary tables: exhaustive N<=3 with any <=3 bases incl. self/forward, random N<=6 with back edges, unresolvable and non-class bases; "
        "(5) cyclic tables as source, one module per class; (6) raw c3linear_merge calls on lists of lists with repeats (exhaustive small + random); "
        "(7) load histories: 2-3 generated packages (names extending each other) whose classes inherit across packages, loaded into ONE fresh "
        "GriffeLoader in every order, queried between loads, compared with the model on the partial collection, the real import and across orders; "
        "(8) programs: 1-4 modules drawn from a pool of dotted names (shapes/shapes_base/sh, core/core2, m1/m10, sub/subs, sub.mod/sub.mod_x, "
        "sub.deep.leaf: prefixes, underscores, nested packages with and without classes in __init__), 2-7 classes in module order, each base "
        "written in one of 8 styles (from, from-as, import dotted, from parent import module, relative, import as, re-export through the top "
        "__init__, wildcard) or by its local / holder-qualified name, optionally through 1-2 assignment aliases (plain -- followed since 3a123f9 --, or one "
        "of the residual shapes: subscripted value, alias in the middle of the chain, name bound again after the class), optionally subscripted "
        "([int] / [T]) when the base is generic; Generic[T] / typing.Generic[T] (last, rarely elsewhere) and explicit object (last, rarely first) bases; members "
        "own or imported into the class body; 30% of the programs end with a scope puzzle (a module-level class R, a holder HA with a nested class "
        "also named R, a holder HB(HA) whose nested class derives from the bare name R, a sibling deriving from that one by its bare name), 35% come "
        "with .pyi files next to their modules whose class statements drop a base or reorder the bases, 30% of the multi-module programs end with an "
        "imported name bound again by a class statement of the importing module (`from lib import K` ... `class K(lib.K)`) and classes deriving from the "
        "local class by that name; every class is also read THROUGH up to 8 aliases of the program (from-imports, re-exports, renamed imports): MRO, "
        "inherited members, and the `inherited` flag / path / final target of every entry of all_members and [] must be the class's own; each program is checked class by class on "
        "FOUR trees -- freshly visited, dumped with as_json (base and full) and reloaded with from_json into a fresh collection, visited and merged "
        "with the stubs, inspected (force_inspection) -- against the model, the real import and type(); corpus/C07/programs.json first; "
        "(9) alias mazes: 3 modules whose names are bound by random import-from chains incl. cycles, self-imports, dangling and out-of-package "
        "targets, module aliases and assignments, classes deriving through them (model vs Griffe, never raises / hangs). "
        "non-trivial = the class has >=2 bases, or is uncomputable, or inherits a member; distinct by canonical case value. A failing input is "
        "shrunk greedily (drop classes / bases / members / spellings / modules while the same disagreement persists) before it is reported.")
TRUSTED = ["abstraction: a table row [path, bases, members] is built as griffe.Class(name, bases=[paths]) inside griffe.Module objects of one "
           "ModulesCollection, or rendered to Python source; the same row is built with type(name, bases, dict) for the authority",
           "abstraction: render_program maps a program specification to source files and to the heap of objects (module / class / alias with target "
           "path / assigned name with value / other) that the visitor is expected to build; checked on every program: Griffe's resolved_bases (paths, "
           "kinds) = the model's on that heap, the model's Python bases = the real __bases__, the real __mro__ = type() over those bases",
           "functools._c3_merge (CPython's pure-Python C3 merge used by singledispatch) is the authority for merges of raw lists that no class "
           "statement can produce; typeobject.c's pmerge itself is only reachable through type()",
           "typing.Generic stands for 'a root class the collection does not hold'; the authority builds it as a plain root class with type()"]
ASSUMPTIONS = ["items merged by c3linear_merge are Class objects, always truthy (Object.__bool__ returns True), so `if head and ...` only filters the None head of an empty deque",
               "a class is identified by its path (Class._mro's `seen` holds paths); tables never contain two classes with one path",
               "C07_mro_eq_cpython, C07_all_members_eq_getattr and C07_hidden_last_only are stated for ordered tables (every base created before the class): the "
               "hierarchies Python source can express; for other acyclic tables the equality is checked by (C)+(O) only",
               "generated programs bind each name once and before use, except the deliberate rebinding shape of C07-F2 (flow-insensitive scopes); classes nested at most one level (the model of Object.resolve follows the rule repaired for C04: from a class scope the enclosing class "
               "bodies are skipped); a nested class named like a module-level class is the last statement of its holder and no sibling derives from that name; base expressions are names, attribute chains and subscripts of those (calls, conditional "
               "expressions and bases inherited as attributes of another class -- `class C(Sub.Inner)` with Inner defined in a base of Sub -- are not generated)",
               "attr_leaf: an attribute has no members in the collection (hypothesis of the soundness theorems; true of every tree the agents build)",
               "inspected trees: dunder members (__dict__, __orig_bases__, ...) are left out of the member comparison; which members the inspector creates is C17's subject"]

POOL = ["f0", "f1", "x0", "x1", "N0"]


class Watchdog(Exception):
    pass


@contextmanager
def watchdog(seconds=20):
    def handler(signum, frame):
        raise Watchdog("griffe did not return")
    old = signal.signal(signal.SIGALRM, handler)
    signal.alarm(seconds)
    try:
        yield
    finally:
        signal.alarm(0)
        signal.signal(signal.SIGALRM, old)


# ------------------------------------------------------------------------------------------------ Griffe side

def make_member(name):
    import griffe
    if name[0] == "f":
        return griffe.Function(name)
    if name[0] == "N":
        return griffe.Class(name)
    return griffe.Attribute(name)


EXT = ["nowhere.Missing", "{mod0}.func", "{mod0}", "{mod0}.loopX"]     # unresolvable, a function, a module, an alias cycle created as already resolved


def build_direct(table):
    """table rows: [path 'mod.Kx', bases (ints; >= len(table) are external), members]. Returns the Class objects."""
    import griffe
    col = griffe.ModulesCollection()
    mods = {}
    n = len(table)
    mod0 = table[0][0].rsplit(".", 1)[0]
    uses_loop = any(b >= n and (b - n) % len(EXT) == 3 for _, bases, _ in table for b in bases)
    classes = []
    for path, bases, members in table:
        modname, cname = path.rsplit(".", 1)
        if modname not in mods:
            m = griffe.Module(modname, filepath=None)
            col.set_member(modname, m)
            m.set_member("func", griffe.Function("func"))
            # two aliases resolved to each other from the start (no resolve_target involved): only final_target's own guard stops this
            if uses_loop and modname == mod0 and HUNG["n"] < 3:
                ay = griffe.Alias("loopY", f"{modname}.loopX")
                m.set_member("loopY", ay)
                ax = griffe.Alias("loopX", ay)
                m.set_member("loopX", ax)
                try:
                    with watchdog(5):
                        ay.target = ax          # the setter stores the target, then notices the cycle
                except BaseException as e:  # noqa: BLE001
                    if isinstance(e, KeyboardInterrupt):
                        raise
            mods[modname] = m
        bs = [table[b][0] if b < n else EXT[(b - n) % len(EXT)].format(mod0=mod0) for b in bases]
        c = griffe.Class(cname, bases=bs)
        for name in members:
            c.set_member(name, make_member(name))
        mods[modname].set_member(cname, c)
        classes.append(c)
    return classes


HUNG = {"n": 0}          # how often Griffe did not return; after a few the alias-loop externals are no longer built (each costs a watchdog period)


def mro_of(cls):
    """['ok', [paths]] | ['err', 'cycle'|'inconsistent'] | ['exc', type name]."""
    try:
        with watchdog(6):
            return ["ok", [c.path for c in cls.mro()]]
    except ValueError as e:
        return ["err", "cycle" if "cycle" in str(e).lower() else "inconsistent"]
    except BaseException as e:  # noqa: BLE001  RecursionError, Watchdog, AttributeError...
        if isinstance(e, KeyboardInterrupt):
            raise
        if isinstance(e, Watchdog):
            HUNG["n"] += 1
        return ["exc", type(e).__name__]


def observe(cls):
    """Everything the property looks at, for one class (or alias to a class)."""
    out = {"mro": mro_of(cls)}
    try:
        with watchdog():
            inh = cls.inherited_members
            out["inherited"] = sorted([name, a.path, a.target.path, bool(a.is_alias and a.inherited)] for name, a in inh.items())
            out["inherited_keys_match"] = all(name == a.name for name, a in inh.items())
            allm = cls.all_members
            ent = []
            for name, m in allm.items():
                via_item = cls[name]
                same = (via_item.path == m.path and via_item.is_alias == m.is_alias)
                if m.is_alias and m.inherited:
                    ent.append([name, "inherited", m.path, m.target.path, same])
                else:
                    ent.append([name, "own", m.path, m is cls.members.get(name), same])
            out["all"] = sorted(ent)
    except BaseException as e:  # noqa: BLE001
        if isinstance(e, KeyboardInterrupt):
            raise
        out["members_exc"] = type(e).__name__ + ": " + str(e)[:200]
    return out


# ------------------------------------------------------------------------------------------------ authority: real classes

def oracle_table(table, n_ext=None):
    """Build the table with type(). Per class: None (CPython cannot create it / depends on a cycle) or
    {'mro': [ids, without self and object], 'attrs': {name: owner id}}.
    n_ext=None (legacy streams): returns None when a base is external (no authority).
    n_ext=k: base ids n..n+k-1 are external root classes (typing.Generic and the like: classes CPython knows and the
    collection does not; they stay in 'mro'), id n+k is an explicitly written `object`."""
    n = len(table)
    built = {}
    idof = {}
    if n_ext is None:
        if any(b >= n for _, bases, _ in table for b in bases):
            return None
    else:
        for j in range(n_ext):
            built[n + j] = type(f"X{j}", (), {})
            idof[built[n + j]] = n + j
        built[n + n_ext] = object
    progress = True
    while progress:
        progress = False
        for i, (path, bases, members) in enumerate(table):
            if i in built or not all(b in built for b in bases):
                continue
            progress = True
            if any(built[b] is None for b in bases):
                built[i] = None
                continue
            try:
                k = type(f"K{i}", tuple(built[b] for b in bases), {name: (i, name) for name in members})
            except TypeError:
                k = None
            built[i] = k
            if k is not None:
                idof[k] = i
    out = []
    names = sorted({m for _, _, ms in table for m in ms})
    for i in range(n):
        k = built.get(i)
        if k is None:
            out.append(None)
            continue
        attrs = {}
        for name in names:
            owner = next((idof[c] for c in k.__mro__ if c is not object and name in vars(c)), None)
            if owner is not None:
                assert getattr(k, name) == (owner, name)
                attrs[name] = owner
            else:
                assert not hasattr(k, name) or name.startswith("__")
        out.append({"mro": [idof[c] for c in k.__mro__[1:-1]], "attrs": attrs})
    return out


# ------------------------------------------------------------------------------------------------ comparison

def table_kind(table):
    n = len(table)
    if any(b >= n for _, bs, _ in table for b in bs):
        return "external-bases"
    if all(b < i for i, (_, bs, _) in enumerate(table) for b in bs):
        return "ordered"
    return "unordered"


def check_classes(ctx, stream, table, objs, which, model_rows, extra_case=None):
    """objs: Griffe objects (Class or Alias) for the table's classes; which: class indices to check;
    model_rows: run_C07 'class' outputs for those indices."""
    paths = [row[0] for row in table]
    ids = {p: i for i, p in enumerate(paths)}
    orc = oracle_table(table)
    kind = table_kind(table)
    for c, mrow in zip(which, model_rows):
        case = {"stream": stream, "table": table, "class": c}
        if extra_case:
            case.update(extra_case)
        obs = observe(objs[c])
        g_model, py_model, orderedb, inh_model, all_model, getattr_model, pyobj_model = mrow
        # ---- (C) model vs Griffe
        g_impl = obs["mro"]
        g_impl_ids = ["ok", [ids.get(p, -1) for p in g_impl[1]]] if g_impl[0] == "ok" else g_impl
        if g_model != g_impl_ids:
            ctx.tie_failure("correspondence", "griffe_mro(model) vs Class.mro()", {"model": g_model, "impl": g_impl}, case)
        if g_impl[0] == "exc":
            # whatever the hierarchy (cyclic, unresolvable, alias loops): an answer or ValueError, never another exception or a hang
            ctx.property_failure(case, {"what": "mro() raised something other than ValueError, or did not return", "griffe": g_impl})
            continue
        if "members_exc" in obs:
            ctx.tie_failure("correspondence", "inherited_members raised", obs["members_exc"], case)
            ctx.property_failure(case, {"griffe": obs["members_exc"], "cpython": "attribute lookup does not raise"})
            continue
        inh_m = sorted([name, a[1], a[2], bool(a[4])] for name, a in inh_model)
        if inh_m != obs["inherited"] or not obs["inherited_keys_match"]:
            ctx.tie_failure("correspondence", "inherited_members(model) vs Class.inherited_members", {"model": inh_m, "impl": obs["inherited"]}, case)
        all_m = sorted([e[0], "own", e[2], True, True] if e[1] == "own" else [e[0], "inherited", e[2][1], e[2][2], True] for e in all_model)
        if all_m != obs["all"]:
            ctx.tie_failure("correspondence", "all_members(model) vs Class.all_members / __getitem__", {"model": all_m, "impl": obs["all"]}, case)
        # ---- (O) spec model vs real classes
        nontrivial = len(table[c][1]) >= 2 or g_impl[0] != "ok" or bool(obs["inherited"])
        ctx.case({k: v for k, v in case.items() if k != "files"}, nontrivial)
        ctx.observe("stream", stream)
        ctx.observe("table_kind", kind)
        ctx.observe("n_classes", len(table))
        ctx.observe("n_bases", len(table[c][1]))
        ctx.observe("griffe_result", g_impl[0] if g_impl[0] != "err" else "err:" + g_impl[1])
        ctx.observe("n_inherited", len(obs["inherited"]))
        ctx.observe("mro_len", len(g_impl[1]) if g_impl[0] == "ok" else -1)
        if orc is None:
            ctx.count("cases_without_authority(external bases)")
            continue
        o = orc[c]
        if py_model[0] == "fuel":
            # the spec recursion only runs out on cyclic tables, which CPython cannot express
            if o is not None:
                ctx.tie_failure("oracle", "cpython_mro(model) out of fuel on a class CPython creates", {"model": py_model}, case)
        else:
            expect = ["err", "inconsistent"] if o is None else ["ok", [c] + o["mro"]]
            if py_model != expect:
                ctx.tie_failure("oracle", "cpython_mro(model) vs type().__mro__", {"model": py_model, "cpython": expect}, case)
            expect_obj = expect if o is None else ["ok", expect[1] + [len(table)]]
            if pyobj_model != expect_obj:
                ctx.tie_failure("oracle", "cpython_mro_obj(model) vs type().__mro__ including object", {"model": pyobj_model, "cpython": expect_obj}, case)
            if o is not None:
                ga = {name: (v[0] if v else None) for name, v in getattr_model}
                for name in ga:
                    if ga[name] != o["attrs"].get(name):
                        ctx.tie_failure("oracle", "cpython_getattr(model) vs vars() along __mro__", {"name": name, "model": ga[name], "cpython": o["attrs"].get(name)}, case)
        # ---- the property itself: Griffe vs CPython
        direct_check(ctx, case, table, c, obs, o)


def direct_eval(table, c, obs, o):
    """Griffe's observable answers for class c against the real class (o is None: CPython cannot create it).
    Returns the list of disagreements (empty: the property holds on this class).  Ids >= len(table) in o['mro'] are
    classes the collection does not hold (externals): they are not expected in Griffe's answer."""
    paths = [row[0] for row in table]
    n = len(table)
    g = obs["mro"]
    if o is None:
        if g[0] != "err":
            return [{"what": "CPython rejects the hierarchy (TypeError / cycle), Griffe does not report it as uncomputable", "griffe": g}]
        if obs.get("inherited"):
            return [{"what": "inherited members offered for an uncomputable MRO", "griffe": obs["inherited"]}]
        return []
    want = [paths[i] for i in o["mro"] if i < n]
    if g != ["ok", want]:
        return [{"what": "MRO differs", "griffe": g, "cpython": want}]
    if "members_exc" in obs:
        return []
    out = []
    own = set(table[c][2])
    want_inh = sorted([name, f"{paths[c]}.{name}", f"{paths[owner]}.{name}", True] for name, owner in o["attrs"].items() if name not in own)
    if obs["inherited"] != want_inh:
        out.append({"what": "inherited members differ from attribute lookup through __mro__", "griffe": obs["inherited"], "cpython": want_inh})
    want_all = sorted([name, "own", f"{paths[c]}.{name}", True, True] if owner == c else [name, "inherited", f"{paths[c]}.{name}", f"{paths[owner]}.{name}", True]
                      for name, owner in o["attrs"].items())
    if obs["all"] != want_all:
        out.append({"what": "all_members / __getitem__ differ from attribute lookup (shadowing, path or origin)", "griffe": obs["all"], "cpython": want_all})
    return out


def direct_check(ctx, case, table, c, obs, o):
    for detail in direct_eval(table, c, obs, o):
        fail(ctx, case, detail)


def run_tables(ctx, stream, tables, all_classes=True):
    """Direct-object stream: build each table as Griffe objects and check every class (or only the last)."""
    reqs = []
    plan = []
    for table in tables:
        which = list(range(len(table))) if all_classes else [len(table) - 1]
        plan.append((table, which))
        reqs += [["class", table, c] for c in which]
    outs = ctx.model(reqs)
    k = 0
    for table, which in plan:
        objs = build_direct(table)
        check_classes(ctx, stream, table, objs, which, outs[k:k + len(which)])
        k += len(which)


# ------------------------------------------------------------------------------------------------ (1) exhaustive ordered hierarchies

def base_choices(i, maxb=3):
    prev = list(range(i))
    for k in range(0, min(maxb, i) + 1):
        yield from itertools.permutations(prev, k)


def exhaustive_nodes(maxn, use_griffe=True):
    """Depth-first over all ordered tables with <= maxn classes.  Yields (bases_of (tuple of tuples), griffe mro of the last
    class, cpython verdict for the last class).  Griffe objects and real classes are extended/retracted incrementally."""
    import griffe
    col = griffe.ModulesCollection()
    m = griffe.Module("m", filepath=None)
    col.set_member("m", m)
    gcls = []
    pcls = []
    bases_of = []

    def rec(i):
        for bs in base_choices(i):
            if any(pcls[b] is None for b in bs):
                k = None
            else:
                try:
                    k = type(f"K{i}", tuple(pcls[b] for b in bs), {})
                except TypeError:
                    k = None
            c = griffe.Class(f"K{i}", bases=[f"m.K{b}" for b in bs])
            m.set_member(f"K{i}", c)
            gcls.append(c)
            pcls.append(k)
            bases_of.append(bs)
            yield tuple(bases_of), mro_of(c), (None if k is None else [int(x.__name__[1:]) for x in k.__mro__[1:-1]])
            if i + 1 < maxn:
                yield from rec(i + 1)
            gcls.pop()
            pcls.pop()
            bases_of.pop()
            del m.members[f"K{i}"]

    yield from rec(0)


def stream_exhaustive(ctx, maxn, with_model=True):
    buf = []

    def flush():
        outs = ctx.model([["mro", [[f"m.K{i}", list(bs), []] for i, bs in enumerate(b)], len(b) - 1] for b, _, _ in buf]) if with_model else [None] * len(buf)
        for (bases_of, g, py), mo in zip(buf, outs):
            c = len(bases_of) - 1
            case = {"stream": "exhaustive-ordered", "bases_of": [list(b) for b in bases_of], "class": c}
            ctx.case(case, len(bases_of[c]) >= 2 or g[0] != "ok")
            ctx.observe("stream", "exhaustive-ordered")
            ctx.observe("n_classes", len(bases_of))
            ctx.observe("n_bases", len(bases_of[c]))
            ctx.observe("griffe_result", g[0] if g[0] != "err" else "err:" + g[1])
            g_ids = ["ok", [int(p[3:]) for p in g[1]]] if g[0] == "ok" else g
            if mo is not None:
                g_model, py_model, orderedb, pyobj_model = mo
                if g_model != g_ids:
                    ctx.tie_failure("correspondence", "griffe_mro(model) vs Class.mro()", {"model": g_model, "impl": g}, case)
                expect = ["err", "inconsistent"] if py is None else ["ok", [c] + py]
                if py_model != expect or orderedb != 1:
                    ctx.tie_failure("oracle", "cpython_mro(model) vs type().__mro__", {"model": py_model, "cpython": expect}, case)
                expect_obj = ["err", "inconsistent"] if py is None else ["ok", [c] + py + [len(bases_of)]]
                if pyobj_model != expect_obj:
                    ctx.tie_failure("oracle", "cpython_mro_obj(model) vs type().__mro__ including object", {"model": pyobj_model, "cpython": expect_obj}, case)
            if (py is None and g[0] != "err") or (py is not None and g_ids != ["ok", py]):
                fail(ctx, case, {"what": "MRO differs" if py is not None else "CPython rejects the hierarchy (TypeError / cycle), Griffe does not report it as uncomputable",
                                 "griffe": g, "cpython": "TypeError" if py is None else [f"m.K{i}" for i in py]})
        buf.clear()

    for node in exhaustive_nodes(maxn):
        buf.append(node)
        if len(buf) >= 20000:
            flush()
    flush()


# ------------------------------------------------------------------------------------------------ (2) random ordered tables with members

def random_members(rng):
    r = rng.random()
    if r < 0.2:
        return []
    return sorted(rng.sample(POOL, rng.randint(1, 4)))


def random_ordered_table(rng, nmax=8, modules=None, rename=True):
    n = rng.randint(2, nmax)
    nmod = modules or rng.randint(1, 3)
    mod_of = sorted(rng.randrange(nmod) for _ in range(n))
    table = []
    for i in range(n):
        if i == 0:
            bases = []
        else:
            k = rng.choice([0, 1, 1, 2, 2, 2, 3, 3, 4])
            bases = rng.sample(range(i), min(k, i))
            if rng.random() < 0.65:
                bases.sort(reverse=True)        # most-derived first everywhere: always a consistent hierarchy
            if bases and rng.random() < 0.04:
                bases.insert(rng.randrange(len(bases) + 1), rng.choice(bases))     # class C(A, A)
        table.append([f"m{mod_of[i]}.K{i}", bases, random_members(rng)])
    if rename and modules is None and rng.random() < 0.5:
        # module names that are string prefixes / extensions of each other (m vs m_b vs m1 vs m10)
        names = rng.sample(DIRECT_MODNAMES, nmod)
        table = [[names[int(p.split(".")[0][1:])] + "." + p.split(".")[1], b, m] for p, b, m in table]
    return table


DIRECT_MODNAMES = ["m", "m_b", "m1", "m10", "mod"]


# ------------------------------------------------------------------------------------------------ (3) packages from source

STYLES = ["from", "from-as", "import-dotted", "from-pkg-import-mod", "import-as", "reexport"]


def render_package(rng, pkg, table):
    """table is ordered; class i lives in module m<j> (j non-decreasing in i), at top level (path pkg.mj.Ki) or nested in
    a holder class (path pkg.mj.Hi.Ki).  Returns {relative file: source}, module-level import aliases of classes, styles used."""
    parts = [row[0].split(".") for row in table]
    mod_of = [int(p[1][1:]) for p in parts]
    nested = [len(p) == 4 for p in parts]
    top = [p[2] for p in parts]                 # the module-level name that leads to the class: Ki or Hi
    suffix = [".".join([""] + p[3:]) for p in parts]
    nmod = max(mod_of) + 1
    reexported = set()
    bodies = {j: [] for j in range(nmod)}
    imports = {j: [] for j in range(nmod)}
    local = {}                                  # (module j, base class b) -> expression text
    alias_views = []                            # (module j, local name, class index) where a module-level alias to a class exists
    styles_used = []
    for i, (path, bases, members) in enumerate(table):
        j = mod_of[i]
        refs = []
        for b in bases:
            jb = mod_of[b]
            if jb == j:
                refs.append(top[b] + suffix[b])
                continue
            if (j, b) not in local:
                st = rng.choice(STYLES)
                styles_used.append(st + ("/nested" if nested[b] else ""))
                if st == "from":
                    imports[j].append(f"from {pkg}.m{jb} import {top[b]}")
                    local[(j, b)] = top[b] + suffix[b]
                    if not nested[b]:
                        alias_views.append((j, top[b], b))
                elif st == "from-as":
                    imports[j].append(f"from {pkg}.m{jb} import {top[b]} as Z{b}")
                    local[(j, b)] = f"Z{b}" + suffix[b]
                    if not nested[b]:
                        alias_views.append((j, f"Z{b}", b))
                elif st == "import-dotted":
                    imports[j].append(f"import {pkg}.m{jb}")
                    local[(j, b)] = f"{pkg}.m{jb}.{top[b]}{suffix[b]}"
                elif st == "from-pkg-import-mod":
                    imports[j].append(f"from {pkg} import m{jb}" if rng.random() < 0.5 else f"from . import m{jb}")
                    local[(j, b)] = f"m{jb}.{top[b]}{suffix[b]}"
                elif st == "import-as":
                    imports[j].append(f"import {pkg}.m{jb} as q{jb}")
                    local[(j, b)] = f"q{jb}.{top[b]}{suffix[b]}"
                else:
                    reexported.add(b)
                    imports[j].append(f"from {pkg} import {top[b]}")
                    local[(j, b)] = top[b] + suffix[b]
                    if not nested[b]:
                        alias_views.append((j, top[b], b))
            refs.append(local[(j, b)])
        ind = "    " if nested[i] else ""
        lines = [f"class H{i}:"] if nested[i] else []
        lines.append(f"{ind}class K{i}({', '.join(refs)}):" if refs else f"{ind}class K{i}:")
        for name in members:
            if name[0] == "f":
                lines.append(f"{ind}    def {name}(self): return ({i}, '{name}')")
            elif name[0] == "N":
                lines.append(f"{ind}    class {name}: pass")
            else:
                lines.append(f"{ind}    {name} = ({i}, '{name}')")
        if not members:
            lines.append(f"{ind}    pass")
        bodies[j].append("\n".join(lines))
    files = {}
    init = []
    for j in range(nmod):
        seen = []
        for ln in imports[j]:
            if ln not in seen:
                seen.append(ln)
        files[f"m{j}.py"] = "\n".join(seen + [""] + bodies[j]) + "\n"
        ex = [b for b in sorted(reexported) if mod_of[b] == j]
        init.append(f"from {pkg}.m{j} import " + ", ".join(top[b] for b in ex) if ex else f"import {pkg}.m{j}")
    files["__init__.py"] = "\n".join(init) + "\n"
    return files, alias_views, styles_used


def write_package(root, pkg, files):
    d = root / pkg
    d.mkdir(parents=True)
    for rel, src in files.items():
        (d / rel).write_text(src)


def real_import(root, pkg, table):
    """Import the generated package for real.  Returns 'TypeError' or {class index: [mro paths without self/object]}."""
    sys.path.insert(0, str(root))
    try:
        importlib.invalidate_caches()
        try:
            importlib.import_module(pkg)
        except TypeError:
            return "TypeError"
        out = {}
        for i, (path, _, _) in enumerate(table):
            p = path.split(".")
            k = sys.modules[".".join(p[:2])]
            for attr in p[2:]:
                k = getattr(k, attr)
            out[i] = [f"{x.__module__}.{x.__qualname__}" for x in k.__mro__[1:-1]]
        return out
    finally:
        sys.path.remove(str(root))
        for name in [m for m in sys.modules if m == pkg or m.startswith(pkg + ".")]:
            del sys.modules[name]


def stream_source(ctx, count, with_model=True):
    import griffe
    root = ctx.scratch / "src"
    root.mkdir(parents=True, exist_ok=True)
    for k in range(count):
        pkg = f"c07p{ctx.seed % 100000}x{k}"
        table = random_ordered_table(ctx.rng, nmax=7, rename=False)
        table = [[f"{pkg}.{p}" if ctx.rng.random() < 0.8 else f"{pkg}.{p.split('.')[0]}.H{i}.K{i}", b, m] for i, (p, b, m) in enumerate(table)]
        # the source stream keeps bases distinct half of the time so that importable packages dominate
        files, alias_views, styles = render_package(ctx.rng, pkg, table)
        write_package(root, pkg, files)
        for st in styles:
            ctx.observe("import_style", st)
        extra = {"files": files}
        try:
            with watchdog(60):
                loaded = griffe.load(pkg, search_paths=[str(root)])
        except BaseException as e:  # noqa: BLE001
            if isinstance(e, KeyboardInterrupt):
                raise
            ctx.property_failure({"stream": "source-package", "table": table, "class": 0, "files": files},
                                 {"what": "griffe.load raised on a valid generated package (an error escapes the MRO / inherited-members code)",
                                  "griffe": f"{type(e).__name__}: {e}"})
            continue
        objs = [loaded[p[len(pkg) + 1:]] for p, _, _ in table]
        which = list(range(len(table)))
        outs = ctx.model([["class", table, c] for c in which]) if with_model else None
        if outs is not None:
            check_classes(ctx, "source-package", table, objs, which, outs, extra)
        else:
            orc = oracle_table(table)
            for c in which:
                direct_check(ctx, {"stream": "source-package", "table": table, "class": c, **extra}, table, c, observe(objs[c]), orc[c])
                ctx.evaluations += 1
        # the generator itself: the source means the table (real import agrees with type() on the table)
        orc = oracle_table(table)
        real = real_import(root, pkg, table)
        if real == "TypeError":
            ctx.observe("real_import", "TypeError")
            if all(o is not None for o in orc):
                ctx.tie_failure("harness", "generated package fails to import although the table is consistent", files)
        else:
            ctx.observe("real_import", "ok")
            for i, o in enumerate(orc):
                want = None if o is None else [table[x][0] for x in o["mro"]]
                if want != real[i]:
                    ctx.tie_failure("harness", "generated source does not mean the table", {"class": i, "import": real[i], "table": want, "files": files})
        # a class seen through a module-level import alias answers like the class itself, under the alias's own path
        for j, lname, b in alias_views:
            al = loaded[f"m{j}.{lname}"]
            ctx.count("alias_views")
            case = {"stream": "source-package-alias", "table": table, "class": b, "alias": f"{pkg}.m{j}.{lname}", **extra}
            if not al.is_alias:
                ctx.tie_failure("harness", "expected an alias", case)
                continue
            ma, mc = mro_of(al), mro_of(objs[b])
            if ma != mc:
                ctx.property_failure(case, {"what": "Alias.mro() differs from the class's", "alias": ma, "class": mc})
            try:
                got = sorted([n, a.path, a.final_target.path] for n, a in al.inherited_members.items())
                want = sorted([n, f"{al.path}.{n}", a.final_target.path] for n, a in objs[b].inherited_members.items())
            except Exception as e:  # noqa: BLE001
                ctx.property_failure(case, {"what": "inherited members through an alias raised", "griffe": f"{type(e).__name__}: {e}"})
                continue
            if got != want:
                ctx.property_failure(case, {"what": "inherited members seen through an alias: wrong names, origin, or not under the alias's path", "alias": got, "class": want})


# ------------------------------------------------------------------------------------------------ (4) arbitrary tables (cycles, self bases, external bases)

def arbitrary_small_tables(n, maxb):
    choices = []
    for k in range(0, maxb + 1):
        choices += list(itertools.permutations(range(n), k))
    for combo in itertools.product(choices, repeat=n):
        yield [[f"m{i % 2}.K{i}", list(bs), []] for i, bs in enumerate(combo)]


def random_arbitrary_table(rng, external=False):
    n = rng.randint(2, 6)
    table = []
    for i in range(n):
        k = rng.choice([0, 1, 1, 2, 2, 3])
        bases = []
        for _ in range(k):
            r = rng.random()
            if external and r < 0.25:
                b = n + rng.randrange(len(EXT))
            elif r < 0.7 and i > 0:
                b = rng.randrange(i)
            else:
                b = rng.randrange(n)
            if b not in bases or rng.random() < 0.1:
                bases.append(b)
        table.append([f"m{rng.randrange(2)}.K{i}", bases, random_members(rng)])
    return table


# ------------------------------------------------------------------------------------------------ (5) cyclic tables as source

def stream_cyclic_source(ctx, count):
    import griffe
    root = ctx.scratch / "cyc"
    root.mkdir(parents=True, exist_ok=True)
    for k in range(count):
        pkg = f"c07c{ctx.seed % 100000}x{k}"
        raw = random_arbitrary_table(ctx.rng)
        table = [[f"{pkg}.c{i}.K{i}", b, m] for i, (_, b, m) in enumerate(raw)]
        files = {"__init__.py": ""}
        for i, (_, bases, members) in enumerate(table):
            imps = []
            for b in bases:
                ln = f"from {pkg}.c{b} import K{b}"
                if b != i and ln not in imps:
                    imps.append(ln)
            body = [f"class K{i}({', '.join(f'K{b}' for b in bases)}):" if bases else f"class K{i}:"]
            body += [f"    def {m}(self): ..." if m[0] == "f" else (f"    class {m}: pass" if m[0] == "N" else f"    {m} = 0") for m in members] or ["    pass"]
            files[f"c{i}.py"] = "\n".join(imps + [""] + body) + "\n"
        write_package(root, pkg, files)
        try:
            with watchdog(60):
                loaded = griffe.load(pkg, search_paths=[str(root)])
        except BaseException as e:  # noqa: BLE001
            if isinstance(e, KeyboardInterrupt):
                raise
            ctx.property_failure({"stream": "cyclic-source", "table": table, "class": 0, "files": files},
                                 {"what": "griffe.load raised on a generated package with cyclic bases (must be reported as uncomputable, not raise)",
                                  "griffe": f"{type(e).__name__}: {e}"})
            continue
        objs = [loaded[f"c{i}.K{i}"] for i in range(len(table))]
        which = list(range(len(table)))
        outs = ctx.model([["class", table, c] for c in which])
        check_classes(ctx, "cyclic-source", table, objs, which, outs, {"files": files})


# ------------------------------------------------------------------------------------------------ (6) raw merges

def griffe_merge(lists):
    from _griffe.c3linear import c3linear_merge
    names = [[f"i{x}" for x in l] for l in lists]      # truthy items
    try:
        with watchdog():
            return ["ok", [int(s[1:]) for s in c3linear_merge(*names)]]
    except ValueError:
        return ["err", "inconsistent"]
    except BaseException as e:  # noqa: BLE001
        if isinstance(e, KeyboardInterrupt):
            raise
        return ["exc", type(e).__name__]


def stdlib_merge(lists):
    try:
        return ["ok", functools._c3_merge([list(l) for l in lists])]
    except RuntimeError:
        return ["err", "inconsistent"]


def merge_cases(ctx):
    words = [list(w) for k in range(0, 4) for w in itertools.product(range(3), repeat=k)]       # 40 lists over {0,1,2}
    short = [w for w in words if len(w) <= 2]                                                   # 13
    cases = [[a] for a in words] + [[a, b] for a in words for b in words]
    triples = [[a, b, c] for a in short for b in short for c in short]
    cases += triples if not ctx.quick else ctx.rng.sample(triples, 800)
    for _ in range(ctx.budget(2500, 40000)):
        k = ctx.rng.randint(1, 5)
        alpha = ctx.rng.randint(2, 6)
        ls = []
        for _ in range(k):
            ln = ctx.rng.randint(0, 5)
            if ctx.rng.random() < 0.8:
                ls.append(ctx.rng.sample(range(alpha), min(ln, alpha)))         # duplicate-free, like real MROs
            else:
                ls.append([ctx.rng.randrange(alpha) for _ in range(ln)])
        cases.append(ls)
    return cases


def stream_merge(ctx):
    cases = merge_cases(ctx)
    outs = ctx.model([["merge", ls] for ls in cases])
    for ls, (m_g, m_py) in zip(cases, outs):
        case = {"stream": "raw-merge", "lists": ls}
        g = griffe_merge(ls)
        std = stdlib_merge(ls)
        ctx.case(case, len(ls) >= 2 and any(ls))
        ctx.observe("stream", "raw-merge")
        ctx.observe("merge_result", g[0])
        ctx.observe("merge_lists", len(ls))
        if m_g != g:
            ctx.tie_failure("correspondence", "c3linear_merge(model) vs c3linear_merge", {"model": m_g, "impl": g}, case)
        if m_py != std:
            ctx.tie_failure("oracle", "cpython_pmerge(model) vs functools._c3_merge", {"model": m_py, "cpython": std}, case)
        if g != std:
            ctx.property_failure(case, {"what": "c3linear_merge differs from CPython's C3 merge", "griffe": g, "cpython": std})


# ------------------------------------------------------------------------------------------------ (7) load histories: several packages, one loader, every order

XSTYLES = ["from", "reexport", "attr"]


def render_history(rng, tag, n_pkgs):
    """Ordered table spread over n_pkgs packages (class i in package pk[i], non-decreasing); each package has one module `m`.
    Cross-package bases are written with from-import, re-export through the base package's __init__, or attribute style."""
    n = rng.randint(n_pkgs + 1, 6)
    pk = sorted([rng.randrange(n_pkgs) for _ in range(n - n_pkgs)] + list(range(n_pkgs)))
    pkgs = [f"c07h{tag}p" + ["", "_x", "2"][j] for j in range(n_pkgs)]        # names extending each other
    table = []
    for i in range(n):
        if i == 0:
            bases = []
        else:
            earlier_pkg = [b for b in range(i) if pk[b] < pk[i]]
            k = rng.choice([1, 1, 2, 2, 3])
            bases = rng.sample(range(i), min(k, i))
            if earlier_pkg and not any(b in earlier_pkg for b in bases) and rng.random() < 0.8:
                bases[rng.randrange(len(bases))] = rng.choice(earlier_pkg)      # make cross-package inheritance the norm
                bases = list(dict.fromkeys(bases))
            if rng.random() < 0.75:
                bases.sort(reverse=True)
        # a class without its own __init__ is what the built-in dataclasses extension asks all_members of at load time
        table.append([f"{pkgs[pk[i]]}.m.K{i}", bases, random_members(rng)])
    imports = {j: [] for j in range(n_pkgs)}
    bodies = {j: [] for j in range(n_pkgs)}
    reexp = {j: [] for j in range(n_pkgs)}
    local = {}
    styles = []
    for i, (path, bases, members) in enumerate(table):
        j = pk[i]
        refs = []
        for b in bases:
            jb = pk[b]
            if jb == j:
                refs.append(f"K{b}")
                continue
            if (j, b) not in local:
                st = rng.choice(XSTYLES)
                styles.append(st)
                if st == "from":
                    imports[j].append(f"from {pkgs[jb]}.m import K{b}")
                    local[(j, b)] = f"K{b}"
                elif st == "reexport":
                    if b not in reexp[jb]:
                        reexp[jb].append(b)
                    imports[j].append(f"from {pkgs[jb]} import K{b}")
                    local[(j, b)] = f"K{b}"
                else:
                    imports[j].append(f"import {pkgs[jb]}.m")
                    local[(j, b)] = f"{pkgs[jb]}.m.K{b}"
            refs.append(local[(j, b)])
        lines = [f"class K{i}({', '.join(refs)}):" if refs else f"class K{i}:"]
        for name in members:
            lines.append(f"    def {name}(self): return ({i}, '{name}')" if name[0] == "f" else
                         (f"    class {name}: pass" if name[0] == "N" else f"    {name} = ({i}, '{name}')"))
        if not members:
            lines.append("    pass")
        bodies[j].append("\n".join(lines))
    files = {}
    for j in range(n_pkgs):
        imps = list(dict.fromkeys(imports[j]))
        files[f"{pkgs[j]}/m.py"] = "\n".join(imps + [""] + bodies[j]) + "\n"
        files[f"{pkgs[j]}/__init__.py"] = (f"from {pkgs[j]}.m import " + ", ".join(f"K{b}" for b in reexp[j]) + "\n") if reexp[j] else ""
    return pkgs, pk, table, files, styles


def real_import_multi(root, pkgs, table):
    """Import all packages for real (the most derived package last).  'TypeError' or {class index: mro paths}."""
    sys.path.insert(0, str(root))
    try:
        importlib.invalidate_caches()
        try:
            for p in pkgs:
                importlib.import_module(p + ".m")
        except TypeError:
            return "TypeError"
        out = {}
        for i, (path, _, _) in enumerate(table):
            mod, cname = path.rsplit(".", 1)
            k = getattr(sys.modules[mod], cname)
            out[i] = [f"{x.__module__}.{x.__qualname__}" for x in k.__mro__[1:-1]]
        return out
    finally:
        sys.path.remove(str(root))
        for name in [m for m in sys.modules if any(m == p or m.startswith(p + ".") for p in pkgs)]:
            del sys.modules[name]


def stream_histories(ctx, count, with_model=True):
    """The property is about the hierarchy the collection holds NOW: whatever was asked of a class while one of its
    bases' packages was not loaded yet must not stick once that package is loaded into the same loader."""
    import griffe
    root = ctx.scratch / "hist"
    root.mkdir(parents=True, exist_ok=True)
    for k in range(count):
        n_pkgs = 2 if k % 3 else 3
        pkgs, pk, table, files, styles = render_history(ctx.rng, f"{ctx.seed % 100000}x{k}", n_pkgs)
        for rel, src in files.items():
            (root / rel).parent.mkdir(parents=True, exist_ok=True)
            (root / rel).write_text(src)
        for st in styles:
            ctx.observe("history_import_style", st)
        orc = oracle_table(table)
        real = real_import_multi(root, pkgs, table)
        if real == "TypeError":
            if all(o is not None for o in orc):
                ctx.tie_failure("harness", "generated packages fail to import although the table is consistent", files)
        else:
            for i, o in enumerate(orc):
                want = None if o is None else [table[x][0] for x in o["mro"]]
                if want != real[i]:
                    ctx.tie_failure("harness", "generated source does not mean the table", {"class": i, "import": real[i], "table": want, "files": files})
        which = list(range(len(table)))
        final_model = ctx.model([["class", table, c] for c in which]) if with_model else None
        finals = {}
        for order in itertools.permutations(range(n_pkgs)):
            base_case = {"stream": "load-history", "table": table, "load_order": [pkgs[j] for j in order], "files": files}
            try:
                with watchdog(60):
                    loader = griffe.GriffeLoader(search_paths=[str(root)])
                    loaded = set()
                    for step, j in enumerate(order):
                        loader.load(pkgs[j])
                        loaded.add(j)
                        if step == len(order) - 1:
                            break
                        # ask between loads: the answers for the partial collection (unloaded bases are dropped, as the model says)
                        sub = [i for i in which if pk[i] in loaded]
                        renum = {i: x for x, i in enumerate(sub)}
                        subtable = [[table[i][0], [renum.get(b, len(sub)) for b in table[i][1]], table[i][2]] for i in sub]
                        mids = ctx.model([["class", subtable, renum[i]] for i in sub]) if with_model else [None] * len(sub)
                        for i, mrow in zip(sub, mids):
                            obj = loader.modules_collection[table[i][0]]
                            g = mro_of(obj)
                            _ = obj.inherited_members
                            ctx.count("history_intermediate_queries")
                            if mrow is not None:
                                ids = {row[0]: x for x, row in enumerate(subtable)}
                                g_ids = ["ok", [ids.get(p, -1) for p in g[1]]] if g[0] == "ok" else g
                                if mrow[0] != g_ids:
                                    ctx.tie_failure("correspondence", "griffe_mro(model, unloaded bases dropped) vs Class.mro() between loads",
                                                    {"model": mrow[0], "impl": g, "loaded": sorted(pkgs[x] for x in loaded)}, {**base_case, "class": i})
                    objs = [loader.modules_collection[row[0]] for row in table]
            except BaseException as e:  # noqa: BLE001
                if isinstance(e, KeyboardInterrupt):
                    raise
                ctx.property_failure({**base_case, "class": 0}, {"what": "loading the packages into one loader raised", "griffe": f"{type(e).__name__}: {e}"})
                continue
            ctx.observe("history_order", "base-package-first" if list(order) == sorted(order) else ("derived-first" if list(order) == sorted(order, reverse=True) else "mixed"))
            if final_model is not None:
                check_classes(ctx, "load-history", table, objs, which, final_model, {"load_order": [pkgs[j] for j in order], "files": files})
            else:
                for c in which:
                    ctx.evaluations += 1
                    direct_check(ctx, {**base_case, "class": c}, table, c, observe(objs[c]), orc[c])
            finals[order] = [observe(o) for o in objs]
        ref_order = tuple(range(n_pkgs))
        for order, obs in finals.items():
            if ref_order in finals and obs != finals[ref_order]:
                c = next(i for i in which if obs[i] != finals[ref_order][i])
                ctx.property_failure({"stream": "load-history", "table": table, "load_order": [pkgs[j] for j in order], "files": files, "class": c},
                                     {"what": "answers depend on the order in which the packages were loaded into the loader",
                                      "this_order": obs[c], "base_first_order": finals[ref_order][c]})


# ------------------------------------------------------------------------------------------------ failing inputs: report + shrink

SHRINK_BUDGET = {"left": 6}        # failing inputs shrunk per run (each costs a few hundred evaluations at most)


def fail(ctx, case, detail, finding=None):
    """Report a failing input; table-shaped and program-shaped cases are first shrunk (greedy, implementation vs authority
    only) to a smaller input on which the same kind of disagreement persists."""
    if finding is None and SHRINK_BUDGET["left"] > 0 and not getattr(ctx, "_no_shrink", False):
        try:
            small = shrink_case(case, detail)
        except Exception:  # noqa: BLE001   shrinking must never hide the original failing input
            small = None
        if small is not None:
            SHRINK_BUDGET["left"] -= 1
            ctx.count("failing_inputs_shrunk")
            case, detail = small
    ctx.property_failure(case, detail, finding=finding)


def table_failures(table, c, n_ext=None):
    """Implementation vs authority for one class of a directly built table."""
    orc = oracle_table(table, n_ext)
    if orc is None:
        return []
    objs = build_direct(table)
    return direct_eval(table, c, observe(objs[c]), orc[c])


def remove_class(table, k):
    out = []
    for i, (path, bases, members) in enumerate(table):
        if i == k:
            continue
        out.append([path, [b - 1 if b > k else b for b in bases if b != k], members])
    return out


def shrink_table(table, c, what):
    """Greedy: drop classes, base edges, members, then put everything in one module, while class c still shows `what`."""
    def bad(t, cc):
        try:
            return any(d["what"] == what for d in table_failures(t, cc))
        except Exception:  # noqa: BLE001
            return False
    if not bad(table, c):
        return None
    steps = 0
    changed = True
    while changed and steps < 400:
        changed = False
        for k in reversed(range(len(table))):
            if k == c:
                continue
            t2 = remove_class(table, k)
            c2 = c - 1 if k < c else c
            steps += 1
            if bad(t2, c2):
                table, c, changed = t2, c2, True
                break
        if changed:
            continue
        for i, (path, bases, members) in enumerate(table):
            for j in range(len(bases)):
                t2 = [list(r) for r in table]
                t2[i] = [path, bases[:j] + bases[j + 1:], members]
                steps += 1
                if bad(t2, c):
                    table, changed = t2, True
                    break
            if changed:
                break
            for j in range(len(members)):
                t2 = [list(r) for r in table]
                t2[i] = [path, bases, members[:j] + members[j + 1:]]
                steps += 1
                if bad(t2, c):
                    table, changed = t2, True
                    break
            if changed:
                break
    t2 = [["m." + p.rsplit(".", 1)[1], b, m] for p, b, m in table]
    if len({r[0] for r in t2}) == len(t2) and bad(t2, c):
        table = t2
    return table, c


def shrink_case(case, detail):
    what = detail.get("what")
    if what is None:
        return None
    if "prog" in case:
        return shrink_program_case(case, detail)
    if "files" in case or "load_order" in case or case.get("stream") in (None, "raw-merge"):
        return None
    if "prog" in case:
        return _replay_program(ctx, case)
    if case.get("stream") == "alias-maze":
        import griffe
        root = ctx.scratch / "replay"
        write_package(root, case["pkg"], case["files"])
        for rel, src in sorted(case["files"].items()):
            print(f"--- {case['pkg']}/{rel}\n{src}")
        try:
            with watchdog(30):
                loaded = griffe.load(case["pkg"], search_paths=[str(root)])
                if case.get("class"):
                    print("class  :", case["class"])
                    print("griffe :", observe2(loaded[case["class"][len(case["pkg"]) + 1:]]))
        except BaseException as e:  # noqa: BLE001
            print("griffe raised / hung:", type(e).__name__, e)
        return 0
    if "bases_of" in case:
        table = [[f"m.K{i}", list(bs), []] for i, bs in enumerate(case["bases_of"])]
    elif "table" in case:
        table = case["table"]
    else:
        return None
    if any(b >= len(table) for _, bs, _ in table for b in bs):
        return None
    r = shrink_table(table, case["class"], what)
    if r is None:
        return None
    t2, c2 = r
    d2 = next(d for d in table_failures(t2, c2) if d["what"] == what)
    new_case = {"stream": case.get("stream"), "table": t2, "class": c2, "shrunk_from": {"classes": len(table), "bases": sum(len(r[1]) for r in table)}}
    return new_case, d2


# ------------------------------------------------------------------------------------------------ (8) programs: the bases as they are written

MODPOOL = ["shapes", "shapes_base", "sh", "core", "core2", "m1", "m10", "sub", "sub.mod", "sub.mod_x", "subs", "sub.deep.leaf"]
RELATED = [("shapes_base", "shapes"), ("shapes", "sh"), ("shapes_base", "sh"), ("core2", "core"), ("m10", "m1"), ("subs", "sub"),
           ("sub.mod_x", "sub.mod")]          # (module of the base, module of the subclass): the second name is a string prefix of the first
XSTYLES2 = ["from", "from-as", "import-dotted", "from-parent-import-mod", "relative", "import-as", "reexport", "wildcard"]
EXT_PATHS = [["typing", "Generic"], ["abc", "ABC"]]       # root classes CPython knows and the collection does not hold
OBJECT_PATH = ["object"]


def gen_program(rng, tag, gaps=True):
    """A package as a specification: modules (dotted names: names extending each other, underscores, nested packages), classes
    in module order, and for every base how it is written (import style, subscript, assignment alias), plus Generic[T] /
    explicit object bases and members (own, or imported into the class body)."""
    k = rng.choice([1, 2, 2, 3, 3, 4])
    names = []
    if k >= 2 and rng.random() < 0.5:
        names = list(rng.choice(RELATED))
    while len(names) < k:
        m = rng.choice(MODPOOL)
        if m not in names:
            names.append(m)
    if rng.random() < 0.5:
        rng.shuffle(names)
    names.sort(key=lambda m: m.count("."))            # a package before its submodules (stable: otherwise random order)
    n = rng.randint(2, 7)
    mod_of = sorted(rng.randrange(len(names)) for _ in range(n))
    classes = []
    holder = None
    hid = 0
    for i in range(n):
        if i == 0:
            bases = []
        else:
            kb = rng.choice([0, 1, 1, 2, 2, 2, 3, 3])
            bases = rng.sample(range(i), min(kb, i))
            if rng.random() < 0.7:
                bases.sort(reverse=True)
        # holder classes group consecutive classes of one module
        if holder is not None and (mod_of[i] != mod_of[i - 1] or rng.random() < 0.5):
            holder = None
        if holder is None and rng.random() < 0.15:
            holder = hid
            hid += 1
        specs = []
        for b in bases:
            specs.append({"b": b, "style": rng.choice(XSTYLES2), "sub": rng.choice([None, "int", "int", "T"]),
                          "assign": (rng.choice([1, 1, 2]) if rng.random() < 0.1 else 0),
                          # how the assignment stands: plain (`B = K0`, followed since fix 3a123f9) or one of the residual shapes of C07-F2
                          "form": (rng.choice(["plain", "plain", "plain", "sub-first", "mid", "rebind"]) if gaps else "plain")})
        generic = None
        if rng.random() < 0.22:
            pos = len(specs) if (not gaps or rng.random() < 0.85) else rng.randrange(len(specs) + 1)
            generic = {"form": rng.choice(["Generic", "Generic", "typing.Generic"]), "pos": pos}
        abc = None
        if rng.random() < 0.1:
            abc = "last" if (not gaps or rng.random() < 0.85) else "random"
        obj = None
        if rng.random() < 0.07:
            obj = "first" if (gaps and specs and rng.random() < 0.2) else "last"
        members = random_members(rng)
        amembers = []
        if mod_of[i] > 0 and members and rng.random() < 0.12:
            amembers = [rng.choice(members)]
        classes.append({"mod": mod_of[i], "holder": holder, "bases": specs, "generic": generic, "object": obj,
                        "members": members, "amembers": amembers, "abc": abc})
    if rng.random() < 0.3:
        # a scope puzzle at the end of the last module: a module-level class R, a holder HA with a nested class that is ALSO
        # named R, a holder HB(HA) with a nested class deriving from the bare name R.  Python: the module's R (a class body sees
        # the names bound in it, then the module -- never what the enclosing class inherits, never an enclosing class body).
        j = len(names) - 1
        def spec(b):
            return {"b": b, "style": rng.choice(XSTYLES2), "sub": None, "assign": 0, "form": "plain"}
        def plain(mod, holder, bases, **kw):
            return {"mod": mod, "holder": holder, "bases": bases, "generic": None, "object": None,
                    "members": random_members(rng), "amembers": [], **kw}
        k = len(classes)
        earlier = list(range(k))
        classes.append(plain(j, None, [spec(b) for b in rng.sample(earlier, min(len(earlier), rng.choice([0, 1, 1, 2])))]))          # R = k
        classes.append(plain(j, hid, [spec(b) for b in rng.sample(earlier, min(len(earlier), rng.choice([0, 1, 1])))], shadow=k))    # HA.R
        more = [spec(b) for b in rng.sample(earlier, min(len(earlier), rng.choice([0, 0, 1])))]
        bs = [spec(k)] + more if rng.random() < 0.6 else more + [spec(k)]
        classes.append(plain(j, hid + 1, bs, hbase=hid))                                                                            # HB(HA).K(R)
        if rng.random() < 0.5:
            classes.append(plain(j, hid + 1, [spec(k + 2)] + ([spec(k + 1)] if rng.random() < 0.3 else []), hbase=hid))               # a sibling deriving from it by its bare name
    if len(names) >= 2 and rng.random() < 0.3:
        # an imported name bound again by a class statement of the importing module (`from lib import Handler` ... `class Handler(...)`),
        # and classes deriving from the LOCAL class by that name
        j = len(names) - 1
        cands = [x for x, c in enumerate(classes) if c["mod"] < j and c["holder"] is None]
        if cands:
            b = rng.choice(cands)
            def spec2(x, style=None):
                return {"b": x, "style": style or rng.choice(XSTYLES2), "sub": None, "assign": 0, "form": "plain"}
            def plain2(bases, **kw):
                return {"mod": j, "holder": None, "bases": bases, "generic": None, "object": None,
                        "members": random_members(rng), "amembers": [], **kw}
            k = len(classes)
            classes.append(plain2([spec2(b, rng.choice(["import-as", "import-dotted"]))] if rng.random() < 0.6 else [], rename=b))
            classes.append(plain2([spec2(k)] + ([spec2(b)] if rng.random() < 0.4 else [])))
            if rng.random() < 0.5:
                classes.append(plain2([spec2(k + 1), spec2(k)] if rng.random() < 0.5 else [spec2(k + 1)]))
    prog = {"pkg": f"c07g{tag}", "mods": names, "classes": classes}
    if rng.random() < 0.35:
        # .pyi files next to the modules: same classes, but the stubs simplify the hierarchy (a base left out, bases reordered)
        prog["stubs"] = [rng.choice(["drop-first", "drop-last", "reverse", "same"]) for _ in classes]
    return prog


def norm_holders(classes):
    """A holder class groups consecutive classes of one module; a holder id that comes back later (after shrinking) is a new holder."""
    out = []
    closed = set()
    fresh = 1000
    prev = (None, None)
    ren = {}
    for c in classes:
        h = c["holder"]
        if h is not None:
            if prev == (c["mod"], h):
                h2 = ren.get(h, h)
            else:
                if h in closed:
                    ren[h] = fresh
                    fresh += 1
                closed.add(h)
                h2 = ren.get(h, h)
        else:
            h2 = None
        prev = (c["mod"], h)
        out.append({**c, "holder": h2})
    return out


def _bx(parts):
    e = ["n", parts[0]]
    for a in parts[1:]:
        e = ["a", e, a]
    return e


def render_program(prog):
    """Specification -> source files + what the source means: the heap of objects the loader should build (for the Coq model of
    base resolution) and the class statements.  Anything the specification asks for that Python cannot express (a subscript on a
    class that is not generic, a style that does not apply between two modules) is normalised away here, so every specification
    -- also a shrunk one -- renders to a program."""
    pkg, mods, classes = prog["pkg"], prog["mods"], prog["classes"]
    n = len(classes)
    P = [[pkg] + m.split(".") for m in mods]
    is_pkg = [any(o.startswith(m + ".") for o in mods) for m in mods]
    classes = norm_holders(classes)
    subs = []
    for c in classes:
        subs.append(c.get("generic") is not None or any(b.get("sub") == "T" and subs[b["b"]] for b in c["bases"]))
    # a nested class may carry the name of a module-level class of its module (`shadow`): only as the last class of its holder, when
    # that class stands before the holder, and when neither it nor a sibling derives from that class (Griffe's scopes are flow-insensitive)
    cname = []
    rebound = {}
    for i, c in enumerate(classes):
        r = c.get("shadow")
        ok = r is not None and c["holder"] is not None and 0 <= r < i and classes[r]["mod"] == c["mod"] and classes[r]["holder"] is None
        if ok:
            run = [x for x in range(n) if classes[x]["mod"] == c["mod"] and classes[x]["holder"] == c["holder"]]
            ok = run[-1] == i and r < run[0] and not any(bb["b"] == r for x in run for bb in classes[x]["bases"])
        rn = c.get("rename")
        if (not ok and rn is not None and c["holder"] is None and 0 <= rn < i and classes[rn]["holder"] is None
                and classes[rn]["mod"] < c["mod"] and (c["mod"], rn) not in rebound and not classes[rn].get("rename")):
            # a module-level class published under the name of a class imported from an earlier module
            rebound[(c["mod"], rn)] = i
            cname.append(f"K{rn}")
            continue
        cname.append(f"K{r}" if ok else f"K{i}")
    top = [f"H{c['holder']}" if c["holder"] is not None else cname[i] for i, c in enumerate(classes)]
    cpath = [P[c["mod"]] + ([f"H{c['holder']}"] if c["holder"] is not None else []) + [cname[i]] for i, c in enumerate(classes)]
    heap_mod = {j: [] for j in range(len(mods))}       # explicit entries of module j, in first-match order
    heap_by_mod = {}
    patch = []                                          # bindings current when a class statement ran, where the final one differs
    wild = {j: [] for j in range(len(mods))}
    typing_names = {j: set() for j in range(len(mods))}
    imports = {j: [] for j in range(len(mods))}
    blocks = {j: [] for j in range(len(mods))}
    init_lines = {j: [] for j in range(len(mods))}     # re-exports in the top __init__, after `import pkg.<module j>`
    heap_init = []
    styles = []
    xclasses = []
    helper_needed = any(c["amembers"] for c in classes)

    def add_import(j, line, entries):
        if line not in imports[j]:
            imports[j].append(line)
            heap_mod[j] += entries

    def package_of(j):
        return P[j] if is_pkg[j] else P[j][:-1]

    def head_for(j, b, style):
        """How module j names the module-level object leading to class b (K<b> or its holder)."""
        jb = classes[b]["mod"]
        Pm, t = P[jb], top[b]
        dotted = ".".join(Pm)
        if (j, b) in rebound and style in ("from", "reexport", "wildcard", "relative"):
            style = "import-as"        # module j binds this very name again: the imported class is named through its module
        if style == "reexport" and t != f"K{b}" and classes[b]["holder"] is None:
            style = "from"             # two classes of one name cannot both be re-exported by the top __init__
        if style == "relative":
            if package_of(j) == Pm and j != jb:
                add_import(j, f"from . import {t}", [[P[j] + [t], ["alias", Pm + [t]]]])
                return [t], "relative-from-package"
            if package_of(j) == Pm[:-1] and not is_pkg[j]:
                if len(styles) % 2:
                    add_import(j, f"from .{Pm[-1]} import {t}", [[P[j] + [t], ["alias", Pm + [t]]]])
                    return [t], "relative-from"
                add_import(j, f"from . import {Pm[-1]}", [[P[j] + [Pm[-1]], ["alias", Pm]]])
                return [Pm[-1], t], "relative-import-mod"
            style = "from"
        if style == "from":
            add_import(j, f"from {dotted} import {t}", [[P[j] + [t], ["alias", Pm + [t]]]])
            return [t], style
        if style == "from-as":
            add_import(j, f"from {dotted} import {t} as Z{b}", [[P[j] + [f"Z{b}"], ["alias", Pm + [t]]]])
            return [f"Z{b}"], style
        if style == "import-dotted":
            add_import(j, f"import {dotted}", [[P[j] + [pkg], ["alias", [pkg]]]])
            return Pm + [t], style
        if style == "from-parent-import-mod":
            add_import(j, f"from {'.'.join(Pm[:-1])} import {Pm[-1]}", [[P[j] + [Pm[-1]], ["alias", Pm]]])
            return [Pm[-1], t], style
        if style == "import-as":
            add_import(j, f"import {dotted} as q{jb}", [[P[j] + [f"q{jb}"], ["alias", Pm]]])
            return [f"q{jb}", t], style
        if style == "reexport":
            line = f"from {dotted} import {t}"
            if line not in init_lines[jb]:
                init_lines[jb].append(line)
                heap_init.append([[pkg, t], ["alias", Pm + [t]]])
            add_import(j, f"from {pkg} import {t}", [[P[j] + [t], ["alias", [pkg, t]]]])
            return [t], style
        if style == "wildcard":
            if jb not in wild[j]:
                wild[j].append(jb)
            return [t], style
        raise ValueError(style)

    open_holder = {}
    abc_mods = set()
    holders_done = set()
    for i, c in enumerate(classes):
        j = c["mod"]
        pre = []                                        # module-level assignment lines standing before the class (or its holder)
        post = []                                       # ... and after it (rebinding)
        nested_i = c["holder"] is not None
        texts, bexprs = [], []
        for pos, spec in enumerate(c["bases"]):
            b = spec["b"]
            if classes[b]["mod"] == j:
                if classes[b]["holder"] is None or classes[b]["holder"] == c["holder"]:
                    parts = [cname[b]]
                else:
                    parts = [top[b], cname[b]]
                st = "same-module" + ("/holder" if classes[b]["holder"] is not None else "")
            else:
                head, st = head_for(j, b, spec["style"])
                parts = head + ([cname[b]] if classes[b]["holder"] is not None else [])
                if classes[b]["holder"] is not None:
                    st += "/nested"
            text, bx = ".".join(parts), _bx(parts)
            same_holder = classes[b]["mod"] == j and classes[b]["holder"] is not None and classes[b]["holder"] == c["holder"]
            levels = 0 if same_holder else (spec.get("assign") or 0)
            form = spec.get("form") or "plain"
            want_sub = bool(spec.get("sub")) and subs[b]
            if want_sub and spec["sub"] == "T":
                typing_names[j].add("Generic")
            if levels and form == "sub-first" and want_sub and not c.get("generic"):
                # `IntG = G[int]` then `class D(IntG)`: the assigned value is subscripted (residual shape (a))
                text, bx = f"{text}[{spec['sub']}]", ["s", bx]
                want_sub = False
                st += "+sub-in-value"
            tail = None
            if levels and form == "mid" and len(parts) >= 2:
                # `ns = H` then `class E(ns.Inner)`: the assigned name stands in the middle of the chain (residual shape (b))
                tail = parts[-1]
                text, bx = ".".join(parts[:-1]), _bx(parts[:-1])
                st += "+assign-mid"
            first_value = None
            for lvl in range(levels):
                name = f"B{i}_{pos}" + ("" if lvl == 0 else f"_{lvl}")
                pre.append(f"{name} = {text}")
                entry = [P[j] + [name], ["attr", bx]]
                heap_mod[j].append(entry)
                if lvl == levels - 1:
                    first_value = entry
                text, bx = name, ["n", name]
                st += "+assign"
            if levels and form == "rebind" and not nested_i:
                # `Base = K1; class C(Base); Base = K2`: the collection keeps the last binding (residual shape (c))
                others = [r for r in range(i) if r != b and classes[r]["mod"] == j and classes[r]["holder"] is None]
                other = cname[others[-1]] if others else cname[i]
                post.append(f"{first_value[0][-1]} = {other}")
                patch.append([first_value[0], first_value[1]])
                first_value[1] = ["attr", ["n", other]]
                st += "+rebind"
            if tail is not None:
                text, bx = f"{text}.{tail}", ["a", bx, tail]
            # the subscript goes on last (`B = K0` then `B[int]`): whether a base is a generic alias is then visible in its syntax
            if want_sub:
                text, bx = f"{text}[{spec['sub']}]", ["s", bx]
                st += "+sub"
            styles.append(st)
            texts.append(text)
            bexprs.append(bx)
        if c.get("generic"):
            g = c["generic"]
            pos = min(g["pos"], len(texts))
            if g["form"] == "Generic":
                typing_names[j].add("Generic")
                texts.insert(pos, "Generic[T]")
                bexprs.insert(pos, ["s", ["n", "Generic"]])
            else:
                typing_names[j].add("typing")
                texts.insert(pos, "typing.Generic[T]")
                bexprs.insert(pos, ["s", ["a", ["n", "typing"], "Generic"]])
            styles.append("Generic" + ("" if pos == len(texts) - 1 else "/not-last"))
        if c.get("abc"):
            # a second class the collection does not hold: `class C(A, Generic[T], ABC)`
            pos = len(texts) if c["abc"] == "last" else (i * 7 + len(texts)) % (len(texts) + 1)
            texts.insert(pos, "ABC")
            bexprs.insert(pos, ["n", "ABC"])
            abc_mods.add(j)
            styles.append("ABC" + ("" if pos == len(texts) - 1 else "/not-last"))
        if c.get("object"):
            if c["object"] == "first" and texts:
                texts.insert(0, "object")
                bexprs.insert(0, ["n", "object"])
                styles.append("object/first")
            else:
                texts.append("object")
                bexprs.append(["n", "object"])
                styles.append("object/last")
        nested = c["holder"] is not None
        ind = "    " if nested else ""
        lines = []
        if nested and open_holder.get(j) != c["holder"]:
            hb = c.get("hbase")
            hb_ok = hb is not None and hb != c["holder"] and (j, hb) in holders_done
            lines.append(f"class H{c['holder']}(H{hb}):" if hb_ok else f"class H{c['holder']}:")
            heap_mod[j].append([P[j] + [f"H{c['holder']}"], ["obj"]])
            holders_done.add((j, c["holder"]))
            if hb_ok:
                styles.append("holder-with-base")
        open_holder[j] = c["holder"]
        if cname[i] != f"K{i}" and not nested:
            add_import(j, f"from {'.'.join(P[classes[c['rename']]['mod']])} import {cname[i]}", [])
            styles.append("imported-name-bound-again-by-a-class")
        elif cname[i] != f"K{i}":
            styles.append("nested-class-named-like-a-module-level-class")
        lines.append(f"{ind}class {cname[i]}({', '.join(texts)}):" if texts else f"{ind}class {cname[i]}:")
        heap_mod[j].append([cpath[i], ["cls", i]])
        malias = []
        for name in c["members"]:
            if name in c["amembers"] and j > 0:
                lines.append(f"{ind}    from {'.'.join(P[0])} import helper as {name}")
                heap_mod[j].append([cpath[i] + [name], ["alias", P[0] + ["helper"]]])
                malias.append([name, P[0] + ["helper"]])
            elif name[0] == "f":
                lines.append(f"{ind}    def {name}(self): return ({i}, '{name}')")
                heap_mod[j].append([cpath[i] + [name], ["obj"]])
            elif name[0] == "N":
                lines.append(f"{ind}    class {name}: pass")
                heap_mod[j].append([cpath[i] + [name], ["obj"]])
            else:
                lines.append(f"{ind}    {name} = ({i}, '{name}')")
                heap_mod[j].append([cpath[i] + [name], ["obj"]])
        if not c["members"]:
            lines.append(f"{ind}    pass")
        # assignments of a nested class' bases stand before its holder; a holder's body must stay contiguous
        if nested and blocks[j] and blocks[j][-1][0] == c["holder"]:
            blocks[j][-1][1][:0] = pre
            blocks[j][-1][2].extend(lines)
        else:
            blocks[j].append([c["holder"] if nested else None, pre, lines + post])
        scope = P[j] + ([f"H{c['holder']}"] if nested else [])
        xclasses.append([cpath[i], scope, bexprs, list(c["members"]), malias])
    files = {}
    heap = [[[pkg], ["mod"]]]
    if mods:
        heap.append([[pkg, pkg], ["alias", [pkg]]])
    init = []
    seen_pk = set()
    for j, m in enumerate(mods):
        parts = m.split(".")
        for d in range(1, len(parts)):
            pk = ".".join(parts[:d])
            if pk not in mods and pk not in seen_pk:
                seen_pk.add(pk)
                files[pk.replace(".", "/") + "/__init__.py"] = ""
                heap.append([[pkg] + parts[:d], ["mod"]])
        head = []
        ents = [[P[j], ["mod"]]]
        if "Generic" in typing_names[j]:
            head += ["from typing import Generic, TypeVar", "T = TypeVar('T')"]
            ents += [[P[j] + ["Generic"], ["alias", ["typing", "Generic"]]], [P[j] + ["TypeVar"], ["alias", ["typing", "TypeVar"]]], [P[j] + ["T"], ["obj"]]]
        if "typing" in typing_names[j]:
            head += ["import typing"] + ([] if "Generic" in typing_names[j] else ["T = typing.TypeVar('T')"])
            ents += [[P[j] + ["typing"], ["alias", ["typing"]]]] + ([] if "Generic" in typing_names[j] else [[P[j] + ["T"], ["obj"]]])
        if j in abc_mods:
            head += ["from abc import ABC"]
            ents += [[P[j] + ["ABC"], ["alias", ["abc", "ABC"]]]]
        head += [f"from {'.'.join(P[w])} import *" for w in wild[j]]
        head += imports[j]
        if j == 0 and helper_needed:
            head += ["def helper(self=None): return 'helper'"]
            ents.append([P[0] + ["helper"], ["obj"]])
        ents += heap_mod[j]
        have = {tuple(e[0]) for e in ents}
        for w in wild[j]:                                       # names a wildcard import brings (no __all__: every public module-level name)
            for (pth, kind) in list(heap_by_mod[w]):
                if len(pth) == len(P[w]) + 1 and not pth[-1].startswith("_") and kind[0] != "mod":
                    if tuple(P[j] + [pth[-1]]) not in have:
                        have.add(tuple(P[j] + [pth[-1]]))
                        ents.append([P[j] + [pth[-1]], ["alias", pth]])
        heap_by_mod[j] = ents
        heap += ents
        body = []
        for _, pre, lines in blocks[j]:
            body += pre + lines
        src = "\n".join(head + [""] + body) + "\n"
        files[m.replace(".", "/") + ("/__init__.py" if is_pkg[j] else ".py")] = src
        init.append(f"import {'.'.join(P[j])}")
        init += init_lines[j]
    heap[2:2] = heap_init
    files["__init__.py"] = "\n".join(init) + "\n"
    return {"files": files, "heap": heap, "xclasses": xclasses, "paths": [".".join(p) for p in cpath], "styles": styles,
            "request": ["prog", [heap, xclasses, EXT_PATHS, OBJECT_PATH, patch]]}


def observe2(cls):
    """observe() plus what the base-resolution model predicts: resolved_bases (path, kind) and where inherited aliases finally lead."""
    out = observe(cls)
    try:
        with watchdog():
            out["resolved"] = [[b.path, "cls" if b.is_class else ("mod" if b.is_module else "other")] for b in cls.resolved_bases]
            out["inherited_final"] = sorted([name, a.final_target.path] for name, a in cls.inherited_members.items())
    except BaseException as e:  # noqa: BLE001
        if isinstance(e, KeyboardInterrupt):
            raise
        out["resolved_exc"] = type(e).__name__ + ": " + str(e)[:200]
    return out


def real_import_prog(root, pkg, paths):
    """Import the generated package for real: per class its __bases__ and __mro__ as dotted paths ('typing.Generic', 'builtins.object' kept)."""
    sys.dont_write_bytecode = True          # generated files are rewritten within one second: never trust a cached .pyc
    sys.path.insert(0, str(root))
    try:
        importlib.invalidate_caches()
        try:
            importlib.import_module(pkg)
        except TypeError as e:
            return "TypeError", str(e)
        out = []
        for path in paths:
            p = path.split(".")
            d = 1
            while ".".join(p[:d + 1]) in sys.modules:
                d += 1
            k = sys.modules[".".join(p[:d])]
            for attr in p[d:]:
                k = getattr(k, attr)
            nm = lambda x: f"{x.__module__}.{x.__qualname__}"
            out.append({"bases": [nm(x) for x in k.__bases__], "mro": [nm(x) for x in k.__mro__], "vars": sorted(vars(k))})
        return "ok", out
    finally:
        sys.path.remove(str(root))


def forget_modules(pkg):
    for name in [m for m in sys.modules if m == pkg or m.startswith(pkg + ".")]:
        del sys.modules[name]


def hierarchy_of(pb, c):
    """c and every class reachable through Python's bases (ids of the program's own classes only)."""
    n = len(pb)
    seen, todo = [], [c]
    while todo:
        k = todo.pop()
        if k in seen or k >= n:
            continue
        seen.append(k)
        todo += list(pb[k] or [])
    return seen


def gap_F1(pb, orc, c):
    """KnownGap for C07-F1: somewhere in the hierarchy of c a class the collection does not hold (typing.Generic, object) stands
    elsewhere than last -- in a bases list or in the linearisation CPython computes.  (Python mirror of Coq's
    [ext_not_last]; when every external class is last-only, dropping it commutes with the C3 merge: C07_hidden_last_only.)"""
    n = len(pb)
    for k in hierarchy_of(pb, c):
        bs = pb[k] or []
        if any(b >= n for b in bs[:-1]):
            return True                                  # written before another base
        for b in bs:
            if b >= n:
                continue
            if orc[b] is None:                            # a base CPython cannot even create: no linearisation to look at
                if any(x >= n for kk in hierarchy_of(pb, b) for x in (pb[kk] or [])):
                    return True
                continue
            if any(x >= n for x in orc[b]["mro"][:-1]):   # inside a linearisation that is merged here
                return True
    return False


def eval_program(ctx, prog, root, mout, inspected=True, stream="program", trees=("visitor", "json", "stubs", "inspector")):
    """One generated program: static load (and inspected load) against the real classes; mout = the model's rows (or None).
    Returns the list of (case, detail, finding) disagreements between Griffe and CPython."""
    import griffe
    R = render_program(prog)
    pkg = prog["pkg"]
    import shutil
    shutil.rmtree(root / pkg, ignore_errors=True)
    (root / pkg).mkdir(parents=True)
    for rel, src in R["files"].items():
        (root / pkg / rel).parent.mkdir(parents=True, exist_ok=True)
        (root / pkg / rel).write_text(src)
    paths = R["paths"]
    n = len(paths)
    members = [x[3] for x in R["xclasses"]]
    base_case = {"stream": stream, "prog": prog, "files": R["files"]}
    fails = []
    for st in R["styles"]:
        ctx.observe("base_spelling", st)
    ctx.observe("program_modules", ",".join(sorted(prog["mods"])) if len(prog["mods"]) <= 2 else f"{len(prog['mods'])} modules")
    # ---- authority: the real import, and type() over Python's bases
    status, real = real_import_prog(root, pkg, paths)
    ext_names = {".".join(p): n + j for j, p in enumerate(EXT_PATHS)}
    o_idx = n + len(EXT_PATHS)
    ids = {p: i for i, p in enumerate(paths)}

    def to_id(name, explicit_object):
        if name in ids:
            return ids[name]
        if name in ext_names:
            return ext_names[name]
        if name == "builtins.object":
            return o_idx if explicit_object else None
        return -1
    pb = None
    if mout is not None:
        pb = [row[3][0] if row[3] else None for row in mout]
        if any(b is None for b in pb):
            ctx.tie_failure("harness", "a generated base expression does not denote a class in the model's Python reading", {"files": R["files"], "pbases": pb})
            return fails
    if status == "ok":
        ctx.observe("program_import", "ok")
        want_obj = [any(e == ["n", "object"] for e in x[2]) for x in R["xclasses"]]
        rb = [[to_id(b, want_obj[i]) for b in r["bases"]] for i, r in enumerate(real)]
        rb = [[b for b in bs if b is not None] for bs in rb]
        if pb is not None and rb != pb:
            ctx.tie_failure("oracle", "python bases (model: assignment followed, externals known) vs real __bases__", {"model": pb, "cpython": rb, "files": R["files"]})
        if pb is None:
            pb = rb
    else:
        ctx.observe("program_import", "TypeError")
        if pb is None:
            forget_modules(pkg)
            return fails
    ptable = [[paths[i], pb[i], members[i]] for i in range(n)]
    orc = oracle_table(ptable, n_ext=len(EXT_PATHS))
    if status == "ok":
        for i, r in enumerate(real):
            got = [to_id(x, False) for x in r["mro"][1:-1]]
            if orc[i] is None or got != orc[i]["mro"]:
                ctx.tie_failure("harness", "generated source does not mean the table", {"class": i, "import": r["mro"], "table": orc[i], "files": R["files"]})
    elif all(o is not None for o in orc):
        ctx.tie_failure("harness", "generated package fails to import although its table is consistent", {"files": R["files"], "error": real})
    # ---- static load
    try:
        with watchdog(60):
            loaded = griffe.load(pkg, search_paths=[str(root)])
            objs = [loaded[p[len(pkg) + 1:]] for p in paths]
    except BaseException as e:  # noqa: BLE001
        if isinstance(e, KeyboardInterrupt):
            raise
        forget_modules(pkg)
        return [({**base_case, "class": 0}, {"what": "griffe.load raised on a valid generated package", "griffe": f"{type(e).__name__}: {e}"}, None)]
    gtable = [[paths[i], [], members[i]] for i in range(n)]
    amember = [{a[0]: ".".join(a[1]) for a in x[4]} for x in R["xclasses"]]

    def check_tree(objs, agent, record):
        """One tree of the package (freshly visited, reloaded from its JSON dump, merged with stubs): every class against CPython and the model."""
        for c in range(n):
            case = {**base_case, "class": c, "agent": agent}
            obs = observe2(objs[c])
            o = orc[c]
            vis = None if o is None else {"mro": [i for i in o["mro"] if i < n], "attrs": o["attrs"]}
            details = direct_eval(gtable, c, obs, vis)
            if not details and o is not None and "inherited_final" in obs:
                want_final = sorted([name, amember[owner].get(name, f"{paths[owner]}.{name}")] for name, owner in o["attrs"].items() if name not in members[c])
                if obs["inherited_final"] != want_final:
                    details.append({"what": "an inherited alias does not finally lead to the object CPython finds", "griffe": obs["inherited_final"], "cpython": want_final})
            if "resolved_exc" in obs:
                details.append({"what": "resolved_bases raised", "griffe": obs["resolved_exc"]})
            nontrivial = len(pb[c]) >= 2 or obs["mro"][0] != "ok" or bool(obs.get("inherited"))
            ctx.case({"stream": stream, "tree": agent, "pkg_spec": prog, "class": c}, nontrivial)
            ctx.observe("stream", stream if agent == "visitor" else f"{stream}/{agent}")
            if record:
                ctx.observe("griffe_result", obs["mro"][0] if obs["mro"][0] != "err" else "err:" + obs["mro"][1])
                ctx.observe("n_bases", len(pb[c]))
            repro = False
            if mout is not None:
                row = mout[c]
                repro = check_program_row(ctx, case, row, obs, o, paths, n, c, record)
                f2 = any(mout[k][10] for k in hierarchy_of(pb, c))
            else:
                f2 = any(b.get("assign") and (b.get("form") or "plain") != "plain" for k in hierarchy_of(pb, c) for b in prog["classes"][k]["bases"])
            f1 = gap_F1(pb, orc, c)
            if mout is not None and any(x >= n for k in hierarchy_of(pb, c) for x in (pb[k] or [])):
                # the hypothesis of C07_hidden_all, evaluated by the extracted model: when it holds the theorem says "no gap"
                applies = bool(mout[c][12]) and not any(o_idx in (pb[k] or [])[:-1] for k in hierarchy_of(pb, c))
                if record:
                    ctx.observe("hidden_classes_theorem", "applies" if applies else ("hierarchy-gap" if f1 else "table-gap-only"))
                if applies:
                    f1 = False
            if record:
                ctx.observe("program_gap", ("misresolved-assignment " if f2 else "") + ("external-not-last" if f1 else "") or "none")
            for d in details:
                finding = None
                if mout is None:
                    if f1 or f2:
                        ctx.count("search_mode_skipped_in_known_gap")
                        continue
                elif repro and f2:
                    finding = "C07-F2"
                elif repro and f1:
                    finding = "C07-F1"
                fails.append((case, d, finding))

    def check_alias_views(getter, agent):
        """The same classes reached THROUGH an alias (re-export, `from ... import`, `import ... as` + attribute): MRO, inherited members and the
        `inherited` flag of every entry of all_members / [] must be those of the class, under the alias's own path."""
        ids = {p: i for i, p in enumerate(paths)}
        seen_views = 0
        for hp, kind in R["heap"]:
            if kind[0] != "alias" or seen_views >= 8:
                continue
            try:
                al = getter(".".join(hp))
                if not al.is_alias or not al.final_target.is_class or al.final_target.path not in ids:
                    continue
            except Exception:  # noqa: BLE001   dangling / external aliases are not views of a class
                continue
            c = ids[al.final_target.path]
            o = orc[c]
            if o is None:
                continue
            seen_views += 1
            ctx.count("alias_views")
            case = {**base_case, "class": c, "agent": agent, "through_alias": al.path}
            try:
                with watchdog():
                    try:
                        got_mro = [k.path for k in al.mro()]
                    except ValueError:
                        got_mro = None
                    got = sorted([name, bool(m.is_alias and m.inherited), m.path, (m.final_target.path if (m.is_alias and m.inherited) else None),
                                  bool(al[name].is_alias and al[name].inherited)] for name, m in al.all_members.items())
                    got_inh = sorted(al.inherited_members)
            except BaseException as e:  # noqa: BLE001
                if isinstance(e, KeyboardInterrupt):
                    raise
                if o["mro"] is not None and not gap_F1(pb, orc, c):
                    fails.append((case, {"what": "members of a class reached through an alias raised", "griffe": f"{type(e).__name__}: {e}"}, None))
                continue
            canon = observe2(objs_by_agent[agent][c])
            if (canon["mro"] != ["ok", got_mro] and not (canon["mro"][0] == "err" and got_mro is None)) or "all" not in canon:
                if "all" in canon:
                    fails.append((case, {"what": "Alias.mro() differs from the class's", "alias": got_mro, "class": canon["mro"]}, None))
                continue
            # against the class itself (already compared with CPython): same names, same flags, same final targets, paths under the alias
            want = sorted([e[0], e[1] == "inherited", f"{al.path}.{e[0]}",
                           (dict(canon.get("inherited_final") or []).get(e[0]) if e[1] == "inherited" else None), e[1] == "inherited"] for e in canon["all"])
            if got != want:
                fails.append((case, {"what": "all_members / [] of a class reached through an alias: names, `inherited` flags, paths or final targets differ from the class's own",
                                     "alias": got, "class": want}, None))
            elif got_inh != sorted(e[0] for e in canon["all"] if e[1] == "inherited"):
                fails.append((case, {"what": "inherited_members of a class reached through an alias differ from the class's own", "alias": got_inh}, None))

    objs_by_agent = {}
    if "visitor" in trees:
        check_tree(objs, "visitor", True)
        objs_by_agent["visitor"] = objs
        check_alias_views(lambda p: loaded[p[len(pkg) + 1:]], "visitor")
    # ---- the tree dumped to JSON and reloaded into a fresh collection (what `griffe dump` consumers query)
    if "json" in trees:
        for full in (False, True):
            agent = "visitor+json" + ("-full" if full else "")
            try:
                with watchdog(60):
                    reloaded = griffe.Module.from_json(loaded.as_json(full=full))
                    col = griffe.ModulesCollection()
                    col.set_member(pkg, reloaded)
                    objs2 = [col[p] for p in paths]
            except BaseException as e:  # noqa: BLE001
                if isinstance(e, KeyboardInterrupt):
                    raise
                fails.append(({**base_case, "class": 0, "agent": agent}, {"what": "dumping the tree to JSON and reloading it raised", "griffe": f"{type(e).__name__}: {e}"}, None))
                continue
            check_tree(objs2, agent, False)
    # ---- the same package with .pyi files next to its modules whose class statements list other bases: CPython never reads them
    if "stubs" in trees and prog.get("stubs"):
        stub_files = render_stubs(prog, R)
        for rel, src in stub_files.items():
            (root / pkg / rel).write_text(src)
        try:
            with watchdog(60):
                merged = griffe.load(pkg, search_paths=[str(root)])
                objs3 = [merged[p[len(pkg) + 1:]] for p in paths]
        except BaseException as e:  # noqa: BLE001
            if isinstance(e, KeyboardInterrupt):
                raise
            fails.append(({**base_case, "class": 0, "agent": "visitor+stubs", "stub_files": stub_files},
                          {"what": "griffe.load raised on a package with .pyi files next to its modules", "griffe": f"{type(e).__name__}: {e}"}, None))
            objs3 = None
        if objs3 is not None:
            before = len(fails)
            check_tree(objs3, "visitor+stubs", False)
            for k in range(before, len(fails)):
                fails[k] = ({**fails[k][0], "stub_files": stub_files}, fails[k][1], fails[k][2])
        for rel in stub_files:
            (root / pkg / rel).unlink()
    # ---- the same package analysed dynamically (inspection): bases come from __bases__, not from expressions
    if "inspector" in trees and inspected and status == "ok":
        fails += eval_inspected(ctx, prog, R, root, real, orc, pb, mout is not None)
    forget_modules(pkg)
    return fails


def render_stubs(prog, R):
    """.pyi text for every plain module that has module-level classes: the typing / import header of the module (no wildcard), the
    module-level classes with the same member names, and bases as stubs like to simplify them (one left out, or reordered)."""
    out = {}
    classes = norm_holders(prog["classes"])
    kinds = prog.get("stubs") or []
    for rel, src in R["files"].items():
        if rel == "__init__.py" or not src.strip() or not rel.endswith(".py"):
            continue
        lines = src.split("\n")
        head = [ln for ln in lines if (ln.startswith("from ") or ln.startswith("import ") or ln.startswith("T = ")) and not ln.endswith("import *")]
        body = []
        k = 0
        while k < len(lines):
            ln = lines[k]
            if ln.startswith("class K"):
                idx = int(ln[len("class K"):].split("(")[0].split(":")[0])
                kind = kinds[idx] if idx < len(kinds) else "same"
                bases = []
                if "(" in ln:
                    inner = ln[ln.index("(") + 1:ln.rindex(")")]
                    bases = [x.strip() for x in _split_top(inner)]
                if kind == "drop-first" and len(bases) >= 2:
                    bases = bases[1:]
                elif kind == "drop-last" and len(bases) >= 2:
                    bases = bases[:-1]
                elif kind == "reverse":
                    bases = bases[::-1]
                body.append(f"class K{idx}({', '.join(bases)}):" if bases else f"class K{idx}:")
                k += 1
                wrote = False
                while k < len(lines) and lines[k].startswith("    "):
                    m = lines[k].strip()
                    if m.startswith("def "):
                        body.append("    " + m.split(":")[0] + " -> tuple: ...")
                        wrote = True
                    elif " = " in m and not m.startswith("from "):
                        body.append("    " + m.split(" = ")[0] + ": tuple")
                        wrote = True
                    elif m.startswith("class "):
                        body.append("    " + m.split(":")[0] + ": ...")
                        wrote = True
                    k += 1
                if not wrote:
                    body.append("    ...")
                continue
            k += 1
        if body:
            out[rel[:-3] + ".pyi"] = "\n".join(head + [""] + body) + "\n"
    return out


def _split_top(text):
    parts, depth, cur = [], 0, ""
    for ch in text:
        if ch == "[":
            depth += 1
        elif ch == "]":
            depth -= 1
        if ch == "," and depth == 0:
            parts.append(cur)
            cur = ""
        else:
            cur += ch
    if cur.strip():
        parts.append(cur)
    return parts


def check_program_row(ctx, case, row, obs, o, paths, n, c, record=True):
    """(C) and (O) for one class of a program; returns True when the model reproduces both Griffe's and CPython's answers."""
    ok = True
    ids = {p: i for i, p in enumerate(paths)}
    m_res = [[p, {"cls": "cls", "mod": "mod"}.get(k, "other")] for p, k in row[0]]
    if "resolved" in obs and m_res != obs["resolved"]:
        ok = False
        ctx.tie_failure("correspondence", "resolved_bases(model: canonical_path + get_member + final_target) vs Class.resolved_bases",
                        {"model": m_res, "impl": obs["resolved"], "per_base": row[1]}, case)
    if record:
        for r in row[1]:
            ctx.observe("resolution_outcome", r[0] if r[0] != "found" else "found:" + r[2])
    g_impl = obs["mro"]
    g_ids = ["ok", [ids.get(p, -1) for p in g_impl[1]]] if g_impl[0] == "ok" else g_impl
    if row[4] != g_ids:
        ok = False
        ctx.tie_failure("correspondence", "griffe_mro(model, program) vs Class.mro()", {"model": row[4], "impl": g_impl}, case)
    if "members_exc" in obs:
        ctx.tie_failure("correspondence", "inherited_members raised", obs["members_exc"], case)
        return False
    inh_m = sorted([name, a[1], a[2], bool(a[4])] for name, a in row[7])
    if inh_m != obs["inherited"]:
        ok = False
        ctx.tie_failure("correspondence", "inherited_members(model, program) vs Class.inherited_members", {"model": inh_m, "impl": obs["inherited"]}, case)
    fin_m = sorted([name, a[5][1] if a[5][0] == "found" else a[5][0]] for name, a in row[7])
    if "inherited_final" in obs and fin_m != obs["inherited_final"]:
        ok = False
        ctx.tie_failure("correspondence", "final target of inherited aliases (model) vs Alias.final_target", {"model": fin_m, "impl": obs["inherited_final"]}, case)
    all_m = sorted([e[0], "own", e[2], True, True] if e[1] == "own" else [e[0], "inherited", e[2][1], e[2][2], True] for e in row[8])
    if all_m != obs["all"]:
        ok = False
        ctx.tie_failure("correspondence", "all_members(model, program) vs Class.all_members / __getitem__", {"model": all_m, "impl": obs["all"]}, case)
    # (O)
    if row[13] != row[3]:
        ok = False
        ctx.tie_failure("oracle", "python bases by the nested evaluation (pyfin, C07_resolved_base_sound_py) vs the guarded reading (fin true)",
                        {"nested": row[13], "guarded": row[3]}, case)
    o_idx = n + len(EXT_PATHS)
    expect = ["err", "inconsistent"] if o is None else ["ok", [c] + o["mro"] + [o_idx]]
    if row[5] != expect:
        ok = False
        ctx.tie_failure("oracle", "cpython_mro_ext(model) vs type().__mro__ with externals and explicit object", {"model": row[5], "cpython": expect}, case)
    if o is not None:
        ga = {name: (v[0] if v else None) for name, v in row[9]}
        for name in ga:
            if ga[name] != o["attrs"].get(name):
                ok = False
                ctx.tie_failure("oracle", "cpython_getattr_ext(model) vs vars() along __mro__", {"name": name, "model": ga[name], "cpython": o["attrs"].get(name)}, case)
    return ok


def eval_inspected(ctx, prog, R, root, real, orc, pb, with_model):
    """The package is already imported; let Griffe inspect it and compare with the very classes it inspected."""
    import griffe
    pkg = prog["pkg"]
    paths = R["paths"]
    n = len(paths)
    base_case = {"stream": "program-inspected", "prog": prog, "files": R["files"], "agent": "inspector"}
    try:
        with watchdog(60):
            loaded = griffe.load(pkg, search_paths=[str(root)], force_inspection=True)
            objs = [loaded[p[len(pkg) + 1:]] for p in paths]
    except BaseException as e:  # noqa: BLE001
        if isinstance(e, KeyboardInterrupt):
            raise
        return [({**base_case, "class": 0}, {"what": "griffe.load(force_inspection=True) raised on an importable generated package", "griffe": f"{type(e).__name__}: {e}"}, None)]
    gm = []
    for i, ob in enumerate(objs):
        names = sorted(x for x in ob.members if not x.startswith("__"))     # dunder entries (__dict__, __orig_bases__...) follow the same rule; kept out of the type() authority
        gm.append(names)
        pool_g = [x for x in names if x in POOL]
        pool_r = [x for x in real[i]["vars"] if x in POOL]
        if pool_g != pool_r:
            ctx.tie_failure("harness", "inspected members of a class differ from vars() on the generated names (outside C07: membership is C17's)",
                            {"class": paths[i], "griffe": pool_g, "cpython": pool_r, "files": R["files"]})
    # the table the inspector should have produced: CPython's own bases, Griffe's own member names
    table = [[paths[i], [b for b in pb[i] if b < n + len(EXT_PATHS)], gm[i]] for i in range(n)]
    outs = ctx.model([["class", table, c] for c in range(n)]) if with_model else [None] * n
    otab = oracle_table(table, n_ext=len(EXT_PATHS))
    fails = []
    for c in range(n):
        case = {**base_case, "class": c}
        obs = observe(objs[c])
        if "inherited" in obs:
            obs["inherited"] = [e for e in obs["inherited"] if not e[0].startswith("__")]
            obs["all"] = [e for e in obs["all"] if not e[0].startswith("__")]
        o = otab[c]
        details = direct_eval(table, c, obs, o)
        ctx.case({"stream": "program-inspected", "pkg_spec": prog, "class": c}, len(table[c][1]) >= 2 or bool(obs.get("inherited")))
        ctx.observe("stream", "program-inspected")
        repro = False
        if outs[c] is not None:
            repro = check_inspected_row(ctx, case, outs[c], obs, o, paths, c)
        f1 = gap_F1(pb, orc, c)
        for d in details:
            finding = None
            if not with_model:
                if f1:
                    continue
            elif repro and f1:
                finding = "C07-F1"
            fails.append((case, d, finding))
    return fails


def check_inspected_row(ctx, case, mrow, obs, o, paths, c):
    ok = True
    ids = {p: i for i, p in enumerate(paths)}
    g_model, py_model, _orderedb, inh_model, all_model, getattr_model, _pyobj = mrow
    g_impl = obs["mro"]
    g_ids = ["ok", [ids.get(p, -1) for p in g_impl[1]]] if g_impl[0] == "ok" else g_impl
    if g_model != g_ids:
        ok = False
        ctx.tie_failure("correspondence", "griffe_mro(model) vs Class.mro() of an inspected class", {"model": g_model, "impl": g_impl}, case)
    if "members_exc" in obs:
        ctx.tie_failure("correspondence", "inherited_members raised (inspected)", obs["members_exc"], case)
        return False
    inh_m = sorted([name, a[1], a[2], bool(a[4])] for name, a in inh_model)
    if inh_m != obs["inherited"]:
        ok = False
        ctx.tie_failure("correspondence", "inherited_members(model) vs inspected Class.inherited_members", {"model": inh_m, "impl": obs["inherited"]}, case)
    expect = ["err", "inconsistent"] if o is None else ["ok", [c] + o["mro"]]
    if py_model != expect:
        ok = False
        ctx.tie_failure("oracle", "cpython_mro(model, externals as root classes) vs type().__mro__", {"model": py_model, "cpython": expect}, case)
    return ok


def stream_corpus_programs(ctx, with_model=True):
    """corpus/C07/programs.json: small programs kept from past disagreements (shrunk failing inputs), replayed first."""
    fp = Path(__file__).resolve().parents[2] / "corpus" / "C07" / "programs.json"
    if not fp.exists():
        return
    root = ctx.scratch / "corpus-prog"
    root.mkdir(parents=True, exist_ok=True)
    progs = [e["prog"] for e in json.loads(fp.read_text())["programs"]]
    mouts = ctx.model([render_program(p)["request"] for p in progs]) if with_model else [None] * len(progs)
    for prog, mout in zip(progs, mouts):
        for case, detail, finding in eval_program(ctx, prog, root, mout, stream="corpus-program"):
            fail(ctx, case, detail, finding)


def stream_programs(ctx, count, with_model=True, gaps=True, inspected=True):
    root = ctx.scratch / "prog"
    root.mkdir(parents=True, exist_ok=True)
    progs = [gen_program(ctx.rng, f"{ctx.seed % 100000}x{k}", gaps=gaps) for k in range(count)]
    mouts = [None] * count
    if with_model:
        mouts = ctx.model([render_program(p)["request"] for p in progs])
    for prog, mout in zip(progs, mouts):
        if mout == ["bad-input"]:
            ctx.tie_failure("harness", "the model rejects a generated program", prog)
            continue
        for case, detail, finding in eval_program(ctx, prog, root, mout, inspected=inspected):
            fail(ctx, case, detail, finding)


class QuietCtx:
    """Evaluations made while shrinking: same model and scratch directory, nothing recorded."""
    def __init__(self, ctx):
        self._ctx = ctx
        self.evaluations = 0
        self.scratch = ctx.scratch
        self.rng = ctx.rng
        self.seed = ctx.seed
    def model(self, values):
        return self._ctx.model(values)
    def observe(self, *a, **k): pass
    def case(self, *a, **k): pass
    def count(self, *a, **k): pass
    def tie_failure(self, *a, **k): pass


def prog_variants(prog, keep):
    """Smaller / plainer specifications, most drastic first.  keep = index of the class that showed the failure."""
    cl = prog["classes"]
    n = len(cl)
    def with_classes(new, mods=None):
        out = {"pkg": prog["pkg"], "mods": list(mods if mods is not None else prog["mods"]), "classes": new}
        if prog.get("stubs") and len(new) == n:
            out["stubs"] = prog["stubs"]
        return out
    if prog.get("stubs"):
        for k in range(n):
            if prog["stubs"][k] != "same":
                yield {**prog, "stubs": prog["stubs"][:k] + ["same"] + prog["stubs"][k + 1:]}, keep
    for k in reversed(range(n)):
        if k == keep:
            continue
        new = []
        for i, c in enumerate(cl):
            if i == k:
                continue
            bs = [{**b, "b": b["b"] - 1 if b["b"] > k else b["b"]} for b in c["bases"] if b["b"] != k]
            c2 = {**c, "bases": bs}
            for fld in ("shadow", "rename"):
                if c.get(fld) is not None:
                    c2[fld] = None if c[fld] == k else (c[fld] - 1 if c[fld] > k else c[fld])
            new.append(c2)
        out = with_classes(new)
        if prog.get("stubs"):
            out["stubs"] = prog["stubs"][:k] + prog["stubs"][k + 1:]
        yield out, (keep - 1 if k < keep else keep)
    for i, c in enumerate(cl):
        for j in range(len(c["bases"])):
            yield with_classes([{**x, "bases": x["bases"][:j] + x["bases"][j + 1:]} if ii == i else x for ii, x in enumerate(cl)]), keep
        if c.get("generic"):
            yield with_classes([{**x, "generic": None} if ii == i else x for ii, x in enumerate(cl)]), keep
        if c.get("object"):
            yield with_classes([{**x, "object": None} if ii == i else x for ii, x in enumerate(cl)]), keep
        if c.get("abc"):
            yield with_classes([{**x, "abc": None} if ii == i else x for ii, x in enumerate(cl)]), keep
        if c.get("shadow") is not None:
            yield with_classes([{**x, "shadow": None} if ii == i else x for ii, x in enumerate(cl)]), keep
        if c.get("rename") is not None:
            yield with_classes([{**x, "rename": None} if ii == i else x for ii, x in enumerate(cl)]), keep
        if c.get("hbase") is not None:
            yield with_classes([{**x, "hbase": None} if ii == i else x for ii, x in enumerate(cl)]), keep
        if c.get("holder") is not None:
            yield with_classes([{**x, "holder": None} if ii == i else x for ii, x in enumerate(cl)]), keep
        for j, b in enumerate(c["bases"]):
            for key, plain in (("assign", 0), ("form", "plain"), ("sub", None), ("style", "from")):
                if (b.get(key) or plain) != plain:
                    nb = c["bases"][:j] + [{**b, key: plain}] + c["bases"][j + 1:]
                    yield with_classes([{**x, "bases": nb} if ii == i else x for ii, x in enumerate(cl)]), keep
        if c["amembers"]:
            yield with_classes([{**x, "amembers": []} if ii == i else x for ii, x in enumerate(cl)]), keep
        for j in range(len(c["members"])):
            ms = c["members"][:j] + c["members"][j + 1:]
            yield with_classes([{**x, "members": ms, "amembers": [a for a in x["amembers"] if a in ms]} if ii == i else x for ii, x in enumerate(cl)]), keep
    if len(prog["mods"]) > 1:
        used = sorted({c["mod"] for c in cl})
        if len(used) < len(prog["mods"]):
            ren = {m: x for x, m in enumerate(used)}
            yield with_classes([{**c, "mod": ren[c["mod"]]} for c in cl], [prog["mods"][m] for m in used]), keep
        yield with_classes([{**c, "mod": 0} for c in cl], prog["mods"][:1]), keep
    for j, m in enumerate(prog["mods"]):
        plain = f"m{j}"
        if m != plain and plain not in prog["mods"]:
            yield with_classes(cl, prog["mods"][:j] + [plain] + prog["mods"][j + 1:]), keep


SHRINK_CTX = {}


def shrink_program_case(case, detail):
    ctx = SHRINK_CTX.get("ctx")
    if ctx is None:
        return None
    q = QuietCtx(ctx)
    root = ctx.scratch / "shrink"
    root.mkdir(parents=True, exist_ok=True)
    what, agent = detail["what"], case.get("agent")
    with_model = SHRINK_CTX.get("with_model", True)
    counter = [0]

    def bad(prog, keep):
        counter[0] += 1
        p2 = {**prog, "pkg": f"{case['prog']['pkg']}s{counter[0]}"}
        try:
            mout = q.model([render_program(p2)["request"]])[0] if with_model else None
            if mout == ["bad-input"]:
                return None
            kind = "inspector" if agent == "inspector" else ("json" if "json" in (agent or "") else ("stubs" if "stubs" in (agent or "") else "visitor"))
            res = eval_program(q, p2, root, mout, inspected=(agent == "inspector"), stream=case.get("stream", "program"), trees=(kind,))
        except Exception:  # noqa: BLE001
            return None
        for cs, d, finding in res:
            if finding is None and d["what"] == what and cs.get("agent") == agent:
                return cs, d
        return None

    prog, keep = case["prog"], case["class"]
    best = bad(prog, keep)
    if best is None:
        return None
    changed = True
    while changed and counter[0] < 250:
        changed = False
        for p2, k2 in prog_variants(prog, keep):
            r = bad(p2, k2)
            if r is not None:
                prog, keep, best, changed = p2, r[0]["class"], r, True
                break
    cs, d = best
    cs = {**cs, "prog": {**prog, "pkg": cs["prog"]["pkg"]}, "shrunk_from": {"classes": len(case["prog"]["classes"]), "modules": len(case["prog"]["mods"]), "evaluations": counter[0]}}
    return cs, d


# ------------------------------------------------------------------------------------------------ (9) alias mazes: resolution of bases on packages Python could not import

def gen_maze(rng, tag):
    """Modules a, b, c of one package with classes in `a`, and names bound by arbitrary import-from statements (chains,
    cycles, dangling targets, targets outside the package), assignments and module aliases; then classes whose bases go through
    those names.  No CPython authority (most of these packages do not import): model vs Griffe, plus 'never raises / hangs'."""
    pkg = f"c07z{tag}"
    mods = ["a", "b", "c"]
    P = {m: [pkg, m] for m in mods}
    heap = [[[pkg], ["mod"]]] + [[P[m], ["mod"]] for m in mods]
    lines = {m: [] for m in mods}
    nk = rng.randint(1, 3)
    xclasses = []
    for i in range(nk):
        lines["a"].append(f"class K{i}:\n    class N{i}: pass")
        heap.append([P["a"] + [f"K{i}"], ["cls", i]])
        xclasses.append([P["a"] + [f"K{i}"], P["a"], [], [], []])
    for i in range(nk):
        heap.append([P["a"] + [f"K{i}", f"N{i}"], ["cls", nk + i]])
        xclasses.append([P["a"] + [f"K{i}", f"N{i}"], P["a"] + [f"K{i}"], [], [], []])
    names = [f"X{j}" for j in range(rng.randint(2, 5))]
    bound = {m: [] for m in mods}
    for m in ("b", "c"):
        for nm in names:
            r = rng.random()
            if r < 0.35:
                k = rng.randrange(nk)
                lines[m].append(f"from {pkg}.a import K{k} as {nm}")
                heap.append([P[m] + [nm], ["alias", P["a"] + [f"K{k}"]]])
            elif r < 0.62:
                src_mod, tgt = rng.choice(["b", "c"]), rng.choice(names)
                lines[m].append(f"from {pkg}.{src_mod} import {tgt} as {nm}")
                heap.append([P[m] + [nm], ["alias", P[src_mod] + [tgt]]])
            elif r < 0.68:
                lines[m].append(f"from {pkg}.{rng.choice(mods)} import Nope as {nm}")
                heap.append([P[m] + [nm], ["alias", [pkg, lines[m][-1].split()[1].split(".")[1], "Nope"]]])
            elif r < 0.74:
                lines[m].append(f"from os import path as {nm}")
                heap.append([P[m] + [nm], ["alias", ["os", "path"]]])
            elif r < 0.84 and bound[m]:
                other = rng.choice(bound[m])
                lines[m].append(f"{nm} = {other}")
                heap.append([P[m] + [nm], ["attr", ["n", other]]])
            elif r < 0.92:
                lines[m].append(f"import {pkg}.a as {nm}")
                heap.append([P[m] + [nm], ["alias", P["a"]]])
            else:
                continue
            bound[m].append(nm)
    ci = 2 * nk
    for m in ("b", "c"):
        for _ in range(rng.randint(1, 3)):
            exprs, texts = [], []
            for _ in range(rng.randint(1, 3)):
                nm = rng.choice(bound[m] or names)
                parts = [nm]
                r = rng.random()
                if r < 0.25:
                    parts.append(rng.choice([f"K{rng.randrange(nk)}", f"N{rng.randrange(nk)}", "Nope"]))
                    if rng.random() < 0.3:
                        parts.append(f"N{rng.randrange(nk)}")
                bx, text = _bx(parts), ".".join(parts)
                if rng.random() < 0.2:
                    bx, text = ["s", bx], text + "[int]"
                exprs.append(bx)
                texts.append(text)
            lines[m].append(f"class C{ci}({', '.join(texts)}):\n    pass")
            heap.append([P[m] + [f"C{ci}"], ["cls", ci]])
            xclasses.append([P[m] + [f"C{ci}"], P[m], exprs, [], []])
            ci += 1
    files = {"__init__.py": ""}
    for m in mods:
        files[f"{m}.py"] = "\n".join(lines[m]) + "\n"
    return {"pkg": pkg, "files": files, "heap": heap, "xclasses": xclasses, "request": ["prog", [heap, xclasses, [], OBJECT_PATH, []]]}


def stream_mazes(ctx, count):
    import griffe
    root = ctx.scratch / "maze"
    root.mkdir(parents=True, exist_ok=True)
    mazes = [gen_maze(ctx.rng, f"{ctx.seed % 100000}x{k}") for k in range(count)]
    mouts = ctx.model([z["request"] for z in mazes])
    for z, mout in zip(mazes, mouts):
        write_package(root, z["pkg"], z["files"])
        case0 = {"stream": "alias-maze", "files": z["files"], "pkg": z["pkg"]}
        try:
            with watchdog(30):
                loaded = griffe.load(z["pkg"], search_paths=[str(root)])
        except BaseException as e:  # noqa: BLE001
            if isinstance(e, KeyboardInterrupt):
                raise
            ctx.property_failure({**case0, "class": None}, {"what": "griffe.load raised or hung on a package with cyclic / dangling import aliases", "griffe": f"{type(e).__name__}: {e}"})
            continue
        for c, x in enumerate(z["xclasses"]):
            if not x[2]:
                continue
            path = ".".join(x[0])
            case = {**case0, "class": path}
            obj = loaded[path[len(z["pkg"]) + 1:]]
            obs = observe2(obj)
            row = mout[c]
            ctx.case({"stream": "alias-maze", "heap": z["heap"], "class": path}, True)
            ctx.observe("stream", "alias-maze")
            for r in row[1]:
                ctx.observe("maze_resolution_outcome", r[0] if r[0] != "found" else "found:" + r[2])
            if "resolved_exc" in obs or obs["mro"][0] == "exc":
                ctx.property_failure(case, {"what": "resolving the bases / the MRO raised instead of dropping what cannot be resolved (or hung)",
                                            "griffe": obs.get("resolved_exc") or obs["mro"]})
                continue
            m_res = [[p, {"cls": "cls", "mod": "mod"}.get(k, "other")] for p, k in row[0]]
            if m_res != obs["resolved"]:
                ctx.tie_failure("correspondence", "resolved_bases(model) vs Class.resolved_bases on an alias maze", {"model": m_res, "impl": obs["resolved"], "per_base": row[1]}, case)
            paths = [".".join(y[0]) for y in z["xclasses"]]
            ids = {p: i for i, p in enumerate(paths)}
            g = obs["mro"]
            g_ids = ["ok", [ids.get(p, -1) for p in g[1]]] if g[0] == "ok" else g
            if row[4] != g_ids:
                ctx.tie_failure("correspondence", "griffe_mro(model, program) vs Class.mro() on an alias maze", {"model": row[4], "impl": g}, case)


# ------------------------------------------------------------------------------------------------ entry points

def explore(ctx):
    import time
    t0 = time.time()
    def lap(name):
        nonlocal t0
        ctx.notes.append(f"{name}: {time.time() - t0:.1f}s")
        t0 = time.time()
    SHRINK_CTX.update(ctx=ctx, with_model=True)
    SHRINK_BUDGET["left"] = 6
    replay_findings(ctx)
    corpus = json.loads((Path(__file__).resolve().parents[2] / "corpus" / "C07" / "classic.json").read_text())["cases"]
    run_tables(ctx, "corpus", [c["table"] for c in corpus])
    stream_corpus_programs(ctx)
    stream_merge(ctx)
    lap("raw-merge")
    stream_exhaustive(ctx, 5 if ctx.quick else 6)
    ctx.exhaustive = True
    lap("exhaustive-ordered")
    run_tables(ctx, "random-ordered-members", [random_ordered_table(ctx.rng) for _ in range(ctx.budget(2500, 25000))])
    lap("random-ordered-members")
    small = list(arbitrary_small_tables(2, 2)) + list(arbitrary_small_tables(3, 2 if ctx.quick else 3))
    run_tables(ctx, "arbitrary-exhaustive-small", small)
    run_tables(ctx, "arbitrary-random", [random_arbitrary_table(ctx.rng) for _ in range(ctx.budget(1500, 15000))])
    run_tables(ctx, "external-bases", [random_arbitrary_table(ctx.rng, external=True) for _ in range(ctx.budget(400, 4000))])
    lap("arbitrary")
    stream_source(ctx, ctx.budget(400, 3000))
    lap("source-package")
    stream_cyclic_source(ctx, ctx.budget(100, 800))
    lap("cyclic-source")
    stream_histories(ctx, ctx.budget(24, 300))
    lap("load-history")
    stream_programs(ctx, ctx.budget(350, 4000))
    lap("program (visitor + inspector)")
    stream_mazes(ctx, ctx.budget(150, 1500))
    lap("alias-maze")
    if not ctx.quick:
        sample = [["class", random_ordered_table(ctx.rng, nmax=5), 1] for _ in range(25)] + \
                 [["class", random_arbitrary_table(ctx.rng), 0] for _ in range(15)] + \
                 [["merge", [[0, 1, 2], [1, 2], [0, 2]]], ["merge", [[0, 1], [1, 0]]]] + \
                 [render_program(gen_program(ctx.rng, f"x{k}"))["request"] for k in range(12)] + \
                 [gen_maze(ctx.rng, f"x{k}")["request"] for k in range(6)]
        ctx.cross_check_extraction(sample)


def search(ctx):
    """A tie broke and no failing input is known yet: evaluate the property on the implementation alone, wider."""
    for bases_of, g, py in exhaustive_nodes(5):
        ctx.evaluations += 1
        g_ids = ["ok", [int(p[3:]) for p in g[1]]] if g[0] == "ok" else g
        if (py is None and g[0] != "err") or (py is not None and g_ids != ["ok", py]):
            ctx.property_failure({"stream": "exhaustive-ordered", "bases_of": [list(b) for b in bases_of], "class": len(bases_of) - 1},
                                 {"what": "MRO differs from CPython's", "griffe": g, "cpython": "TypeError" if py is None else py})
            return
    for gen in (lambda: random_ordered_table(ctx.rng), lambda: random_arbitrary_table(ctx.rng)):
        for _ in range(4000):
            table = gen()
            orc = oracle_table(table)
            objs = build_direct(table)
            for c in range(len(table)):
                ctx.evaluations += 1
                direct_check(ctx, {"stream": "search", "table": table, "class": c}, table, c, observe(objs[c]), orc[c])
            if ctx.prop_failures:
                return
    for ls in merge_cases(ctx):
        ctx.evaluations += 1
        g, std = griffe_merge(ls), stdlib_merge(ls)
        if g != std:
            ctx.property_failure({"stream": "raw-merge", "lists": ls}, {"griffe": g, "cpython": std})
            return
    stream_source(ctx, 150, with_model=False)
    if not ctx.prop_failures:
        SHRINK_CTX.update(ctx=ctx, with_model=False)
        stream_programs(ctx, 300, with_model=False)
    if not ctx.prop_failures:
        stream_histories(ctx, 60, with_model=False)


def replay(ctx, data):
    import shutil
    try:
        return _replay(ctx, data)
    finally:
        shutil.rmtree(ctx.scratch, ignore_errors=True)


def _replay_program(ctx, case):
    import griffe
    prog = case["prog"]
    R = render_program(prog)
    root = ctx.scratch / "replay"
    pkg = prog["pkg"]
    for rel, src in sorted(R["files"].items()):
        (root / pkg / rel).parent.mkdir(parents=True, exist_ok=True)
        (root / pkg / rel).write_text(src)
        print(f"--- {pkg}/{rel}\n{src}")
    c = case["class"]
    path = R["paths"][c]
    print("class  :", path, "| agent:", case.get("agent"))
    status, real = real_import_prog(root, pkg, R["paths"])
    try:
        loaded = griffe.load(pkg, search_paths=[str(root)], force_inspection=(case.get("agent") == "inspector"))
        obs = observe2(loaded[path[len(pkg) + 1:]])
        print("griffe :", {k: v for k, v in obs.items() if k in ("mro", "resolved", "inherited", "members_exc")})
    except Exception as e:  # noqa: BLE001
        print("griffe.load raised:", type(e).__name__, e)
    print("cpython:", real if status != "ok" else {"bases": real[c]["bases"], "mro": real[c]["mro"][1:-1]})
    forget_modules(pkg)
    return 0


def replay_findings(ctx):
    """Replay the witnesses of findings/C07.json on the implementation, every run (a finding reproduces when all its witnesses do)."""
    import griffe
    fp = Path(__file__).resolve().parents[2] / "findings" / "C07.json"
    if not fp.exists():
        return
    root = ctx.scratch / "witness"
    root.mkdir(parents=True, exist_ok=True)
    sys.dont_write_bytecode = True
    for f in json.loads(fp.read_text()).get("findings", []):
        ok_all = True
        for wi, w in enumerate([f.get("witness") or {}] + list(f.get("more_witnesses") or [])):
            if "source" not in w:
                continue
            mod = "c07w" + f["id"].replace("-", "").lower() + f"w{wi}"
            (root / f"{mod}.py").write_text(w["source"])
            try:
                m = griffe.load(mod, search_paths=[str(root)])
                got = [k.name for k in m[w["class"]].mro()]
            except Exception as e:  # noqa: BLE001
                got = f"{type(e).__name__}"
            sys.path.insert(0, str(root))
            try:
                importlib.invalidate_caches()
                real = importlib.import_module(mod)
                want = [k.__name__ for k in getattr(real, w["class"]).__mro__[1:-1] if k.__module__ == mod]
            finally:
                sys.path.remove(str(root))
                sys.modules.pop(mod, None)
            ok_all = ok_all and got != want and got == w.get("griffe_mro") and want == w.get("cpython_mro")
        ctx.witness(f["id"], ok_all)


def _replay(ctx, data):
    case = data.get("failing_input") or {}
    if "lists" in case:
        print("lists  :", case["lists"])
        print("griffe :", griffe_merge(case["lists"]))
        print("cpython:", stdlib_merge(case["lists"]))
        return 0
    if "prog" in case:
        return _replay_program(ctx, case)
    if case.get("stream") == "alias-maze":
        import griffe
        root = ctx.scratch / "replay"
        write_package(root, case["pkg"], case["files"])
        for rel, src in sorted(case["files"].items()):
            print(f"--- {case['pkg']}/{rel}\n{src}")
        try:
            with watchdog(30):
                loaded = griffe.load(case["pkg"], search_paths=[str(root)])
                if case.get("class"):
                    print("class  :", case["class"])
                    print("griffe :", observe2(loaded[case["class"][len(case["pkg"]) + 1:]]))
        except BaseException as e:  # noqa: BLE001
            print("griffe raised / hung:", type(e).__name__, e)
        return 0
    if "bases_of" in case:
        table = [[f"m.K{i}", list(bs), []] for i, bs in enumerate(case["bases_of"])]
    elif "table" in case:
        table = case["table"]
    else:
        print("replay names no input:", data.get("no_longer_checks"))
        return 0
    c = case["class"]
    for row in table:
        print(row)
    if "load_order" in case:
        import griffe
        root = ctx.scratch / "replay"
        for rel, src in sorted(case["files"].items()):
            (root / rel).parent.mkdir(parents=True, exist_ok=True)
            (root / rel).write_text(src)
            print(f"--- {rel}\n{src}")
        loader = griffe.GriffeLoader(search_paths=[str(root)])
        for step, pkg in enumerate(case["load_order"]):
            loader.load(pkg)
            print(f"loaded {pkg}")
            if step < len(case["load_order"]) - 1:
                for path, _, _ in table:
                    if path.split(".")[0] in case["load_order"][:step + 1]:
                        print("  between loads:", path, mro_of(loader.modules_collection[path]))
        obj = loader.modules_collection[table[c][0]]
    elif "files" in case:
        import griffe
        root = ctx.scratch / "replay"
        pkg = table[0][0].split(".")[0]
        write_package(root, pkg, case["files"])
        for rel, src in sorted(case["files"].items()):
            print(f"--- {pkg}/{rel}\n{src}")
        try:
            loaded = griffe.load(pkg, search_paths=[str(root)])
        except Exception as e:  # noqa: BLE001
            print("griffe.load raised:", type(e).__name__, e)
            return 0
        obj = loaded[table[c][0][len(pkg) + 1:]]
    else:
        obj = build_direct(table)[c]
    print("class  :", table[c][0])
    print("griffe :", observe(obj))
    orc = oracle_table(table)
    print("cpython:", "no authority (external bases)" if orc is None else ("cannot exist (TypeError / cycle)" if orc[c] is None else
          {"mro": [table[i][0] for i in orc[c]["mro"]], "attrs": {n: table[o][0] for n, o in orc[c]["attrs"].items()}}))
    return 0
