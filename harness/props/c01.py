"""C01 — Static extraction is faithful to the source.

(T) Gen/C01_tables.v regenerated from visitor.py (decorator->label tables, shape of decorators_to_labels) and mixins.py
    (visibility ladders); Gen/C01_dispatch.v regenerated from visitor.py / agents/nodes/assignments.py / ast.py (which node
    kinds have a visit_ method and what it is, which targets get_name accepts, conditional / guard parent kinds, ...).
(C) visitor machine (model, fed with RAW ast nodes that Coq lowers by the regenerated dispatch tables) vs griffe.visit on
    generated source: members tree incl. the members of __init__ function objects (name, kind, parent, lineno/endlineno,
    labels, runtime flag, docstring span, alias target, imports, exports, member order) and the extension event trace;
    the declarative member tables (spec side of theorems C01_member_table*) vs every module / class / __init__ object;
    Coq lowering vs the harness's own lowering; generated visibility ladders vs the real predicates.
(O) level semantics / declarative bindings vs CPython (exec + vars()); layout model: render = the source text, number =
    CPython's line numbers, reported spans = CPython's positions, slicing verdicts; documented decorator table mirror.
direct: griffe.visit vs the source itself (CPython ast / exec as authority): bound names, kinds, span slicing re-parses to
    the definition, docstring text/span, attribute-docstring and forwarding rule, type-guard flag, labels vs the documented
    table, exports, event discipline, totality.
history: sequences of modules in one fresh interpreter, varied order; every failure re-evaluated in a fresh interpreter
    and, when it depends on earlier visits, reported as a minimised self-contained history.
"""
from __future__ import annotations

import ast
import inspect
import itertools
import json
import os
import signal
import subprocess
import sys
import textwrap
import time
from pathlib import Path

from harness.translate import c01_dispatch, c01_tables

ID = "C01"
LEVEL_TEXT = ("34 theorems (all closed under the global context) about a Gallina model of the static visitor, for ALL statement lists of an abstract "
              "statement language (def/class/assign/annassign/__all__ +=/import/from-import/if/block/handler/docstring statement; any nesting, any "
              "duplication): (1) the stack-and-flag visitor machine (frame stack = Visitor.current, mutable type_guarded saved/restored by visit_if, "
              "events, Python errors) computes exactly a recursive level semantics in which the type-guard flag is an inherited attribute true only "
              "in the body of a module/class-level `if TYPE_CHECKING`; it never raises; the extension trace is well bracketed, parents first. "
              "(2) The complete member TABLE -- names, their order, and per member kind, line span, runtime flag, labels, docstring span, alias "
              "target -- equals a declarative fold (`run_table`/`step`) over the bindings of the level in source order: at module level, for every "
              "class statement at any depth (attributes assigned through self.<name> in its __init__ are instance attributes of the class) and for "
              "the function object of every __init__ (which keeps the defs, classes and imports of its body as members); no accessor hypothesis "
              "any more (x.setter / @overload are rules of `step`); the older statements (bound names once each in first-binding order, surviving "
              "kind/line/flag) follow, and the detailed bindings provably refine the plain ones. (3) Decorator-derived labels, for every decorator "
              "list: a label is present iff the documented table gives it for the callable path of one of the decorators (the tables regenerated "
              "from visitor.py are proved equal to the documented table for every path), plus `async`; the labels form a set. (4) Attribute "
              "docstring, for every statement list: the candidate handed to a statement is exactly the string statement at the next index of the "
              "same list (its constant's span). (5) Raw modules (AST nodes tagged by class name) are lowered inside Coq by the dispatch tables "
              "regenerated from visitor.py / assignments.py (which kinds have a visit_ method, which targets get_name accepts, which parents make a "
              "re-assignment conditional, ...): all theorems hold for every raw module; a node kind without visit_ method is transparent; an "
              "assignment binds nothing as soon as one target is rejected; `__all__ += x`, `__all__.extend(x)` and `__all__.append(x)` are one "
              "statement whose only effect, wherever evaluated, is to append well-formed items to the exports of a module that already has an "
              "exports list. (6) Source text: for every layout tree (gap / decorator / header / "
              "continuation / parenthesis lines, any nesting) slicing the rendered lines by a reported span returns exactly the item's text "
              "(function/class from the first decorator line, property-attribute from the def line, docstring = the string constant's lines), and "
              "every member's reported span is the span of an item defining that very name with that kind; Object.lines is that text and "
              "Object.source its dedent (textwrap.dedent modelled for blanks and tabs), which cuts off nothing but the longest common whitespace prefix. (6b) Decorator spellings are resolved inside the model, in the scope of that moment (member of the current object, enclosing "
              "class bodies skipped, module last): every statement of every list is resolved against exactly the frames the machine has reached there; "
              "(6c) extension containers with a history: any interleaving of Extensions.add and visits announces each visit completely, in order and "
              "once to every extension registered before it; (6d) lines collections with a history: after any sequence of loads (own / same / shared "
              "collection) of files whose text changes, the collection holds for the loaded path the text of that very load. (7) The visibility ladders regenerated "
              "from mixins.py equal the documented table on all 15360 inputs. Findings F1-F5, F7 repaired; F6 (overload-only names have no member) "
              "stays known with a computed witness. Model tied to the code on every run: two translators (fail closed), differential runs on "
              "generated modules (tree incl. function-object members, spans, labels, docstring spans, flags, imports, exports, event trace; "
              "declarative tables vs every class/__init__ object; layout render/number/spans vs the text and CPython's positions), sequences of "
              "modules in one fresh interpreter in varied order, and direct checks against CPython's ast/exec.")
LEVEL_NOTE = ("Trusted: Coq kernel, extraction, the two translators (harness/translate/c01_tables.py, c01_dispatch.py: whitelisted AST shapes), the "
              "payload reading of the harness (raw node -> line numbers, decorator spellings as written, ClassVar through module-level imports, import "
              "paths for a parentless module, __all__ items, text of an if-test; the structural decisions are made in Coq from the regenerated "
              "tables and cross-checked against the harness's own lowering), the cutting of a source into a layout tree (checked on every run: "
              "render = the text, number = CPython's line numbers), CPython ast/exec as authority. Modelled, not verified: expression contents "
              "(C03), overload buffer / setter-deleter objects (C02; their effect on membership and labels is in `step`), annotation forwarding. "
              "The layout model covers block-form sources (one statement per line, bodies on their own lines); source text <-> ast positions are "
              "CPython's. The 'documented decorator table' is a hand-written table (doc_labels) that the regenerated tables are proved equal to. "
              "A difference confined to docstring forwarding shapes outside the direct checks is reported as a broken tie, not with a failing "
              "input. The extension-history stream registers every recorder once (the theorem also covers repeated registration). History effects: a failure is only reported after it reproduced in a fresh "
              "interpreter, alone or after a minimised list of earlier modules.")
MODEL = ("Model.C01_run", "run_C01_all")
COQ_TARGETS = ["Proofs/C01_visitor.vo", "Proofs/C01_vis.vo", "Proofs/C01_content.vo", "Proofs/C01_raw.vo", "Proofs/C01_layout.vo", "Proofs/C01_dedent.vo", "Proofs/C01_resolve.vo", "Proofs/C01_ext.vo", "Proofs/C01_lines.vo", "Model/C01_run.vo"]
RULE = ("seeded random structural modules (nesting <=4; name pool of 11 (incl. _t__, z__) with forced duplicates; decorators from the label tables, overload, "
        "accessor, unknown, over one or several lines; docstrings in every legal position incl. attribute docstrings, after if/for/try bodies, also "
        "parenthesised over several lines, concatenated across lines or followed by a comment line; layout noise: blank / comment lines at any "
        "indentation in front of statements and between decorators, headers continued over two lines; conditional placement in "
        "if/elif/else, TYPE_CHECKING (plain, typing., negated, nested), try/except/else/finally, for/while/else, with, match; __init__ "
        "instance attributes incl. conditional, annotated, dotted, tuple, and defs/classes/imports inside __init__; __all__ forms incl. +=, "
        "concatenation, empty, annotated; imports: plain, dotted, as, from, star, relative, self-referencing; module or package __init__ file); "
        "batches visited in shuffled order in one process. History stream: sequences of 2-4 small modules rich in state-carrying features "
        "(decorated coroutines, overloads, property/setter idioms, __all__) visited in ONE fresh interpreter, each sequence in two orders, every "
        "visit compared with the model and the direct checks; any failure of any stream is re-evaluated alone in a fresh interpreter and, if it "
        "passes there, reported as a delta-debugged self-contained history. A grammar-based stream of syntactically valid modules over all "
        "statement kinds is checked for totality (and exercises the generic lowering of every node kind). A case is non-trivial when it has "
        "a duplicate name, a conditional block or a nested scope; distinct by source text")
TRUSTED = ["translators harness/translate/c01_tables.py and c01_dispatch.py (whitelisted AST shapes of visitor.py tables and dispatch, mixins.py "
           "ladders, assignments.py name maps, ast.py helpers; fail closed)",
           "payload reading: harness walk over ast.parse(source) into raw nodes (line numbers, decorator head resolution through module-level "
           "imports, relative import paths for a parentless module, __all__ item extraction, if-test text); lowering itself is done in Coq",
           "layout cutting: harness splits the source lines by CPython positions; render/number are checked against text and ast on every run"]
ASSUMPTIONS = ["ClassVar in annotations is resolved through module-level imports only (decorator spellings are resolved in the model, in scope)",
               "one statement per line in generated modules, so (name, line) identifies a binding occurrence",
               "layout theorems speak about block-form sources (body of a compound statement on its own lines)"]
TRANSLATOR_NAME = "harness/translate/c01_tables.py + c01_dispatch.py"

TC_TESTS = {"TYPE_CHECKING", "typing.TYPE_CHECKING"}
NEG_TC_TESTS = {"not TYPE_CHECKING", "not typing.TYPE_CHECKING"}


def tc_code(test):
    """0 nothing, 1 `TYPE_CHECKING` (the body is type-checking-only), 2 `not TYPE_CHECKING` (the else branch is)"""
    t = ast.unparse(test)
    return 1 if t in TC_TESTS else 2 if t in NEG_TC_TESTS else 0


def translate(ctx):
    c01_tables.translate(ctx)
    c01_dispatch.translate(ctx)


# =====================================================================================================================
# abstraction: ast -> model statements
# =====================================================================================================================
class Abstraction:
    def __init__(self, mname: str, is_init: bool):
        self.mname = mname
        self.is_init = is_init
        self.import_map: dict[str, str] = {}

    # -- helpers
    def dotted(self, node):
        """Name / Attribute chain of Names -> list of identifiers, else None."""
        parts = []
        while isinstance(node, ast.Attribute):
            parts.append(node.attr)
            node = node.value
        if isinstance(node, ast.Name):
            parts.append(node.id)
            return parts[::-1]
        return None

    def resolve(self, parts):
        head = self.import_map.get(parts[0], parts[0])
        return ".".join([head] + parts[1:])

    def deco(self, node):
        if isinstance(node, ast.Call):
            node = node.func
        parts = self.dotted(node)
        if parts is None:
            return ["path", "?"]
        if len(parts) == 2 and parts[1] in ("setter", "deleter"):
            return ["acc", parts[0], parts[1]]
        # the spelling only: which callable it denotes at that place is resolved in Coq (Model/C01_resolve.v)
        return ["ref", parts[0], "".join("." + p for p in parts[1:])]

    def target(self, node):
        if isinstance(node, ast.Name):
            return ["name", node.id]
        parts = self.dotted(node)
        if parts is None:
            return ["bad"]
        if parts[0] == "self":
            return ["self", ".".join(parts[1:])]
        return ["dotted"]

    def all_items(self, node):
        """agents/nodes/exports.py:_extract, any failure -> []"""
        class Unsupported(Exception):
            pass

        def ex(n):
            if isinstance(n, ast.Constant):
                return [("s:" + n.value) if isinstance(n.value, str) else ("c:" + repr(n.value))]
            if isinstance(n, ast.Name):
                return ["n:" + n.id]
            if isinstance(n, ast.Attribute):
                ex(n.value)[0]
                return ["n:" + n.attr]
            if isinstance(n, ast.BinOp):
                return ex(n.left) + ex(n.right)
            if isinstance(n, (ast.List, ast.Set, ast.Tuple)):
                out = []
                for e in n.elts:
                    out += ex(e)
                return out
            if isinstance(n, ast.Starred):
                return ex(n.value)
            raise Unsupported
        if node is None:
            return []
        try:
            return ex(node)
        except (Unsupported, IndexError):
            return []

    def is_classvar(self, ann):
        if isinstance(ann, ast.Subscript):
            parts = self.dotted(ann.value)
            if parts:
                return self.resolve(parts).rsplit(".", 1)[-1] == "ClassVar"
        return False

    # -- statements
    def stmts(self, body, top=False):
        return [self.stmt(s, top) for s in body]

    def stmt(self, s, top=False):
        if isinstance(s, (ast.FunctionDef, ast.AsyncFunctionDef)):
            decos = [self.deco(d) for d in s.decorator_list]
            dln = s.decorator_list[0].lineno if s.decorator_list else s.lineno
            return ["def", s.lineno, dln, s.end_lineno, s.name, isinstance(s, ast.AsyncFunctionDef), decos, self.stmts(s.body)]
        if isinstance(s, ast.ClassDef):
            decos = [self.deco(d) for d in s.decorator_list]
            dln = s.decorator_list[0].lineno if s.decorator_list else s.lineno
            return ["class", s.lineno, dln, s.end_lineno, s.name, decos, self.stmts(s.body)]
        if isinstance(s, ast.Assign):
            ts = [self.target(t) for t in s.targets]
            items = self.all_items(s.value) if any(t == ["name", "__all__"] or t == ["self", "__all__"] for t in ts) else []
            return ["assign", s.lineno, s.end_lineno, ts, items]
        if isinstance(s, ast.AnnAssign):
            t = self.target(s.target)
            items = self.all_items(s.value) if t in (["name", "__all__"], ["self", "__all__"]) else []
            return ["ann", s.lineno, s.end_lineno, t, s.value is not None, self.is_classvar(s.annotation), items]
        if isinstance(s, ast.AugAssign):
            if isinstance(s.target, ast.Name) and s.target.id == "__all__" and isinstance(s.op, ast.Add):
                return ["augall", self.all_items(s.value)]
            return ["other"]
        if isinstance(s, ast.Import):
            names = []
            for a in s.names:
                path = a.name if a.asname else a.name.split(".", 1)[0]
                name = a.asname or path.split(".", 1)[0]
                names.append([name, path])
                if top:
                    self.import_map[name] = path
            return ["import", s.lineno, s.end_lineno, names]
        if isinstance(s, ast.ImportFrom):
            names = []
            for a in s.names:
                if not s.module and s.level == 1 and not a.asname and self.is_init:
                    names.append(["skip"])
                    continue
                base = self.mname + "." if s.level > 0 else ""
                path = base + (s.module + "." if s.module else "") + a.name
                if a.name == "*":
                    names.append(["star", path.replace(".", "/"), path.replace(".*", "")])
                else:
                    names.append(["name", a.asname or a.name, path])
                    if top:
                        self.import_map[a.asname or a.name] = path
            return ["importfrom", s.lineno, s.end_lineno, names]
        if isinstance(s, ast.If):
            return ["if", tc_code(s.test), self.stmts(s.body), self.stmts(s.orelse)]
        if isinstance(s, (ast.For, ast.AsyncFor, ast.While)):
            return ["block", [["sub", False, self.stmts(s.body)], ["sub", False, self.stmts(s.orelse)]]]
        if isinstance(s, (ast.With, ast.AsyncWith)):
            return ["block", self.stmts(s.body)]
        if isinstance(s, (ast.Try, getattr(ast, "TryStar", ast.Try))):
            ch = [["sub", False, self.stmts(s.body)]] + [["sub", True, self.stmts(h.body)] for h in s.handlers] + \
                 [["sub", False, self.stmts(s.orelse)], ["sub", False, self.stmts(s.finalbody)]]
            return ["block", ch]
        if isinstance(s, ast.Match):
            return ["block", [["sub", False, self.stmts(c.body)] for c in s.cases]]
        if isinstance(s, ast.Expr) and isinstance(s.value, ast.Constant) and isinstance(s.value.value, str):
            return ["doc", s.value.lineno, s.value.end_lineno]      # the string constant's own span, not the statement's
        if isinstance(s, ast.Expr):
            c = all_method_call(s)
            if c is not None and c[0] == "__all__" and c[1] in ("extend", "append") and c[2]:
                return ["augall", self.all_items(s.value.args[0])]
        return ["other"]


def all_method_call(s):
    """Expression statement `<recv>.<method>(args...)` -> (receiver name or "", method, has first positional argument)."""
    call = s.value
    if isinstance(call, ast.Call) and isinstance(call.func, ast.Attribute):
        recv = call.func.value.id if isinstance(call.func.value, ast.Name) else ""
        return recv, call.func.attr, len(call.args) > 0
    return None


def abstract_module(src: str, mname: str, is_init: bool):
    """The harness's own lowering ast -> stmt (kept as a cross-check of the Coq lowering of raw nodes, see raw_module)."""
    tree = ast.parse(src)
    ab = Abstraction(mname, is_init)
    stmts = ab.stmts(tree.body, top=True)
    tree._c01_import_map = dict(ab.import_map)
    return stmts, tree


STATEMENT_FIELDS = ("body", "handlers", "orelse", "finalbody", "cases")


class RawAbstraction(Abstraction):
    """ast -> raw nodes tagged with their class names (Model/C01_raw.v).  Which kinds are visited by a visit_ method,
    which targets have a name, what is conditional: decided in Coq from the regenerated Gen/C01_dispatch.v.  Here only
    the payload each handler reads is taken off the node."""

    def rtarget(self, node):
        if isinstance(node, ast.Name):
            return ["Name", node.id, []]
        if isinstance(node, ast.Attribute):
            return ["Attribute", node.attr, [self.rtarget(node.value)]]
        return [type(node).__name__, "", []]

    def _is_all(self, t):
        return (isinstance(t, ast.Name) and t.id == "__all__") or \
               (isinstance(t, ast.Attribute) and t.attr == "__all__" and isinstance(t.value, ast.Name) and t.value.id == "self")

    def payload(self, s, top):
        if isinstance(s, (ast.FunctionDef, ast.AsyncFunctionDef, ast.ClassDef)):
            decos = [self.deco(d) for d in s.decorator_list]
            dln = s.decorator_list[0].lineno if s.decorator_list else s.lineno
            return ["class" if isinstance(s, ast.ClassDef) else "def", s.lineno, dln, s.end_lineno, s.name, decos]
        if isinstance(s, ast.Assign):
            items = self.all_items(s.value) if any(self._is_all(t) for t in s.targets) else []
            return ["assign", s.lineno, s.end_lineno, [self.rtarget(t) for t in s.targets], items]
        if isinstance(s, ast.AnnAssign):
            items = self.all_items(s.value) if self._is_all(s.target) else []
            return ["ann", s.lineno, s.end_lineno, self.rtarget(s.target), s.value is not None, self.is_classvar(s.annotation), items]
        if isinstance(s, ast.AugAssign):
            flag = isinstance(s.target, ast.Name) and s.target.id == "__all__" and isinstance(s.op, ast.Add)
            return ["aug", flag, self.all_items(s.value) if flag else []]
        if isinstance(s, (ast.Import, ast.ImportFrom)):
            old = self.stmt(s, top)             # import names / paths (also feeds the module-level import map)
            return [old[0], old[1], old[2], old[3]]
        if isinstance(s, ast.If):
            return ["if", ast.unparse(s.test)]
        if isinstance(s, ast.Expr) and isinstance(s.value, ast.Constant) and isinstance(s.value.value, str):
            return ["doc", s.value.lineno, s.value.end_lineno]
        if isinstance(s, ast.Expr):
            c = all_method_call(s)          # whether it is an extension of __all__ is decided in Coq (all_receiver, all_methods)
            if c is not None:
                return ["call", c[0], c[1], c[2], self.all_items(s.value.args[0]) if c[2] else []]
        return ["none"]

    def rnode(self, s, top=False):
        pay = self.payload(s, top)
        fields = []
        for fname in s._fields:
            if fname in STATEMENT_FIELDS:
                v = getattr(s, fname, None)
                if isinstance(v, list):
                    fields.append([self.rnode(x) for x in v])
        return [type(s).__name__, pay, fields]


def raw_module(src: str, mname: str, is_init: bool):
    tree = ast.parse(src)
    ab = RawAbstraction(mname, is_init)
    raw = [ab.rnode(s, top=True) for s in tree.body]
    tree._c01_import_map = dict(ab.import_map)
    return raw, tree


def model_views(ctx, items):
    """items: (source, mname, is_init) -> per item [visit, spec, bindings, content] computed by the extracted model from
    the RAW nodes (lowered in Coq by the regenerated dispatch tables), plus the parsed trees."""
    raws, trees = [], []
    for src, mname, is_init in items:
        r, t = raw_module(src, mname, is_init)
        raws.append(r)
        trees.append(t)
    outs = ctx.model([["raw", mname, r] for (src, mname, is_init), r in zip(items, raws)])
    return outs, trees


# =====================================================================================================================
# implementation view
# =====================================================================================================================
class Recorder:
    """Passive extension: records every hook call (made a griffe.Extension subclass lazily)."""
    _cls = None

    @classmethod
    def make(cls):
        import griffe
        if cls._cls is None:
            class _Rec(griffe.Extension):
                def __init__(self):
                    super().__init__()
                    self.calls = []
                    self.keep = []          # keeps announced objects alive so that id() stays unique

                def _rec(self, hook, node=None, obj=None):
                    ln = getattr(node, "lineno", 0) if node is not None else 0
                    info = None
                    if obj is not None:
                        self.keep.append(obj)
                        parent = obj.parent
                        info = (id(obj), "alias" if obj.is_alias else obj.kind.value, obj.name,
                                parent.path if parent is not None else "", bool(parent is not None and parent.kind.value == "function"),
                                id(parent) if parent is not None else None, obj.path)
                    self.calls.append((hook, type(node).__name__ if node is not None else None, ln, info))
                    if getattr(self, "shared", None) is not None:
                        self.shared.append((self.ext_id, hook))

                def on_node(self, *, node, agent, **kw): self._rec("on_node", node)
                def on_instance(self, *, node, obj, agent, **kw): self._rec("on_instance", node, obj)
                def on_members(self, *, node, obj, agent, **kw): self._rec("on_members", node, obj)
                def on_module_node(self, *, node, agent, **kw): self._rec("on_module_node", node)
                def on_module_instance(self, *, node, mod, agent, **kw): self._rec("on_module_instance", node, mod)
                def on_module_members(self, *, node, mod, agent, **kw): self._rec("on_module_members", node, mod)
                def on_class_node(self, *, node, agent, **kw): self._rec("on_class_node", node)
                def on_class_instance(self, *, node, cls, agent, **kw): self._rec("on_class_instance", node, cls)
                def on_class_members(self, *, node, cls, agent, **kw): self._rec("on_class_members", node, cls)
                def on_function_node(self, *, node, agent, **kw): self._rec("on_function_node", node)
                def on_function_instance(self, *, node, func, agent, **kw): self._rec("on_function_instance", node, func)
                def on_attribute_node(self, *, node, agent, **kw): self._rec("on_attribute_node", node)
                def on_attribute_instance(self, *, node, attr, agent, **kw): self._rec("on_attribute_instance", node, attr)
                def on_alias(self, *, node, alias, agent, **kw): self._rec("on_alias", node, alias)
            cls._cls = _Rec
        return cls._cls()


class Timeout(Exception):
    pass


def _alarm(signum, frame):
    raise Timeout()


HISTORY: list[dict] = []      # every module handed to griffe.visit in this process, in order (see history_triage)


def run_griffe(src: str, mname: str, filepath: Path, record=True):
    """Returns (module, recorder). Raises whatever griffe raises; a hang becomes Timeout."""
    import griffe
    HISTORY.append({"source": src, "mname": mname, "is_init": filepath.name == "__init__.py"})
    rec = Recorder.make() if record else None
    lc = griffe.LinesCollection()
    lc[filepath] = src.splitlines(keepends=False)
    old = signal.signal(signal.SIGALRM, _alarm)
    signal.alarm(20)
    rl = sys.getrecursionlimit()
    try:
        sys.setrecursionlimit(3000)
        mod = griffe.visit(mname, filepath=filepath, code=src, extensions=griffe.Extensions(rec) if rec else None, lines_collection=lc)
    finally:
        signal.alarm(0)
        signal.signal(signal.SIGALRM, old)
        sys.setrecursionlimit(rl)
    return mod, rec


def export_items(exports):
    if exports is None:
        return None
    out = []
    for e in exports:
        if isinstance(e, str):
            out.append("s:" + e)
        elif hasattr(e, "name") and not isinstance(e, (int, float, bytes)):
            out.append("n:" + e.name)
        else:
            out.append("c:" + repr(e))
    return out


def impl_obj(name, o):
    """Same shape as the model's enc_obj (options as [] / [x])."""
    if o.is_alias:
        return [name, "alias", o.alias_lineno, o.alias_endlineno, o.runtime, [], [], o.target_path, [], [], []]
    kind = o.kind.value
    doc = [[o.docstring.lineno, o.docstring.endlineno]] if o.docstring is not None else []
    # function objects too: the __init__ of a class keeps what its body binds (defs, classes, imports) as its members
    scope = kind in ("class", "function")
    members = [impl_obj(n, m) for n, m in o.members.items()] if scope else []
    imports = [[k, v] for k, v in o.imports.items()] if scope else []
    ex = export_items(o.exports) if scope else None
    return [name, kind, o.lineno, o.endlineno, o.runtime, sorted(o.labels), doc, "", members, imports, [] if ex is None else [ex]]


def impl_events(calls):
    """Compress hook pairs into the model's abstract events; returns (events, pairing_errors)."""
    out, errs = [], []
    i = 0
    n = len(calls)
    while i < n:
        hook, ntype, ln, info = calls[i]
        nxt = calls[i + 1] if i + 1 < n else None
        if hook == "on_node":
            if nxt is None or not nxt[0].endswith("_node") or nxt[0] == "on_node" or nxt[2] != ln:
                errs.append(("unpaired on_node", i))
                i += 1
                continue
            out.append(["node", nxt[0][3:-5], ln])
            i += 2
        elif hook == "on_instance":
            kind = info[1]
            if nxt is None or nxt[0] != f"on_{kind}_instance" or nxt[3][0] != info[0]:
                errs.append(("unpaired on_instance", i))
                i += 1
                continue
            out.append(["inst", kind, info[2], ln, info[3], info[4]])
            i += 2
        elif hook == "on_members":
            kind = info[1]
            if nxt is None or nxt[0] != f"on_{kind}_members" or nxt[3][0] != info[0]:
                errs.append(("unpaired on_members", i))
                i += 1
                continue
            out.append(["members", kind, info[2], ln, info[6]])
            i += 2
        elif hook == "on_alias":
            out.append(["alias", info[2], ln, info[3], info[4]])
            i += 1
        else:
            errs.append(("stray " + hook, i))
            i += 1
    return out, errs


def norm_model_obj(o):
    o = list(o)
    o[5] = sorted(o[5])
    o[8] = [norm_model_obj(m) for m in o[8]]
    return o


def impl_view(mod, rec):
    members = [impl_obj(n, m) for n, m in mod.members.items()]
    imports = [[k, v] for k, v in mod.imports.items()]
    ex = export_items(mod.exports)
    doc = [[mod.docstring.lineno, mod.docstring.endlineno]] if mod.docstring is not None else []
    evs, perr = impl_events(rec.calls)
    return ["ok", doc, members, imports, [] if ex is None else [ex], evs], perr


def impl_table(o):
    """Ordered member table of a module / class / function object, same shape as the model's enc_table."""
    out = []
    for n, m in o.members.items():
        if m.is_alias:
            out.append([n, "alias", m.alias_lineno, m.alias_endlineno, m.runtime, [], [], m.target_path])
        else:
            doc = [[m.docstring.lineno, m.docstring.endlineno]] if m.docstring is not None else []
            out.append([n, m.kind.value, m.lineno, m.endlineno, m.runtime, sorted(m.labels), doc, ""])
    return out


def norm_table(t):
    return [[e[0], e[1], e[2], e[3], e[4], sorted(e[5]), e[6], e[7]] for e in t]


def walk_scopes(mod):
    """Every class and function object reachable through members (also through the members of function objects)."""
    def rec(o):
        for m in o.members.values():
            if not m.is_alias and m.kind.value in ("class", "function"):
                yield m
                yield from rec(m)
    yield from rec(mod)


def content_check(ctx, mc, mod, small):
    """The declarative member tables (spec side of theorems C01_member_table, _nested, C01_init_function_members) vs the
    implementation: module table, the table of every class object and of every __init__ function object in the tree."""
    table, nested = mc
    d = first_diff(norm_table(table), impl_table(mod), "$module")
    if d:
        ctx.tie_failure("correspondence", "declarative member table (run_table level_details) vs griffe.visit: module level", d, small)
    entries = {}
    for kind, path, line, t in nested:
        entries[(kind, path, line)] = t          # a later statement with the same key cannot exist (one statement per line)
    for o in walk_scopes(mod):
        kind = o.kind.value
        if kind == "function":
            if not (o.name == "__init__" and o.parent is not None and o.parent.kind.value == "class"):
                if o.members:
                    ctx.property_failure(small, f"function object {o.path} (not a class's __init__) has members {list(o.members)}")
                continue
            key = ("init", o.path, o.lineno)
        else:
            key = ("class", o.path, o.lineno)
        t = entries.get(key)
        if t is None:
            ctx.tie_failure("correspondence", "declarative member tables: no class / __init__ statement for an object of the tree", list(key), small)
            continue
        d = first_diff(norm_table(t), impl_table(o), "$" + o.path)
        if d:
            ctx.tie_failure("correspondence", f"declarative member table vs griffe.visit: {key[0]} level", d, small)
        ctx.count("content_tables_compared")
        if kind == "function" and o.members:
            ctx.observe("branch", "init-function-members")


def norm_model_result(r):
    if r and r[0] == "ok":
        return ["ok", r[1], [norm_model_obj(m) for m in r[2]], r[3], r[4], r[5]]
    return r


# =====================================================================================================================
# generator of structural modules
# =====================================================================================================================
POOL = ["a", "b", "x", "f", "C", "_p", "__q", "__d__", "y", "_t__", "z__"]
PREAMBLE = [
    "import functools, abc, dataclasses, contextlib",
    "import typing",
    "import os",
    "from typing import overload, TYPE_CHECKING, ClassVar",
    "from functools import cached_property",
    "def deco(fn):\n    return fn",
]
FUNC_DECOS = ["property", "staticmethod", "classmethod", "functools.cache", "functools.lru_cache(maxsize=None)", "abc.abstractmethod",
              "deco", "cached_property", "functools.cached_property", "typing.overload", "overload", "functools.wraps(deco)"]
CLASS_DECOS = ["dataclasses.dataclass", "deco", "dataclasses.dataclass(frozen=True)"]


class Gen:
    def __init__(self, rng, executable: bool, maxdepth: int = 4, profile: str = "structural"):
        self.rng = rng
        self.exe = executable
        self.maxdepth = maxdepth
        self.profile = profile
        self.lines: list[str] = []
        self.k = 0
        self.features: set[str] = set()

    def emit(self, ind, text):
        self.lines.append("    " * ind + text)

    def uid(self):
        self.k += 1
        return self.k

    def name(self):
        return self.rng.choice(POOL)

    def docstring(self, ind, force=False):
        r = self.rng.random()
        n = self.uid()
        pad = "    " * ind
        if r < 0.45:
            self.emit(ind, f'"""Doc {n}."""')
        elif r < 0.52:
            self.lines.append(f'{pad}"""Doc {n}.\nflush left {n}\n  two {n}\n{pad}"""')       # string content at lower columns
            self.features.add("less-indented-line")
        elif r < 0.6:
            self.lines.append(f'{pad}"""Doc {n}.\n\n{pad}    indented {n}\n{pad}tail {n}   \n\n{pad}"""')
        elif r < 0.7:
            self.emit(ind, f"'single {n}'")
        elif r < 0.75:
            self.emit(ind, '""')
        elif r < 0.8:
            self.emit(ind, f'"cat {n}" " enated"')
        elif r < 0.85:
            self.emit(ind, f'r"""raw \\d {n}"""')
        elif r < 0.90:
            self.lines.append(f'{pad}"""\n{pad}   Leading blank {n}.\n{pad}"""')
        elif r < 0.94:
            self.emit(ind, f'"""  spaced {n}  """')
        elif r < 0.96:
            self.lines.append(f'{pad}(\n{pad}    "paren {n}"\n{pad})')
            self.features.add("docstring-parenthesised")
        elif r < 0.98:
            self.lines.append(f'{pad}(\n{pad}    "cat {n}"\n{pad}    " over lines"\n{pad})')
            self.features.add("docstring-parenthesised")
        else:
            self.lines.append(f'{pad}(\n{pad}    """commented {n}"""\n{pad}    # trailing comment\n{pad})')
            self.features.add("docstring-parenthesised")
        self.features.add("docstring")

    def nondoc_expr(self, ind):
        self.emit(ind, self.rng.choice(['f"fstring {1}"', 'b"bytes"', "1", "...", "print", "(\"paren\" if 1 else 2)",
                                        '{"k": 1, **{}}', '{**{}, "k": 2, **{}}', "print(**{'end': '', **{}})", "(lambda *, k=1, j: j)"]))

    # -- bodies
    def body(self, kind, depth, ind):
        """kind: module | class | init | func"""
        n0 = len(self.lines)
        if self.rng.random() < 0.45:
            self.docstring(ind)
        count = self.rng.randint(1, 5 if depth < 2 else 3)
        for _ in range(count):
            self.statement(kind, depth, ind)
        if len(self.lines) == n0:
            self.emit(ind, "pass")

    def block_body(self, kind, depth, ind, allow_doc=True):
        n0 = len(self.lines)
        if allow_doc and self.rng.random() < 0.15:
            self.docstring(ind)
        for _ in range(self.rng.randint(1, 3)):
            self.statement(kind, depth, ind)
        if len(self.lines) == n0:
            self.emit(ind, "pass")

    def maybe_gap(self, ind):
        """layout noise in front of a statement: blank lines, comment lines at any indentation"""
        r = self.rng.random()
        if r < 0.06:
            self.lines.append("")
            self.features.add("gap")
        elif r < 0.11:
            self.lines.append("    " * self.rng.randint(0, ind + 1) + "# note " + str(self.uid()))
            self.features.add("gap")
        elif r < 0.13:
            self.lines += ["", "    " * self.rng.randint(0, ind) + "# note", ""]
            self.features.add("gap")
        elif r < 0.16:
            # whitespace made of tabs (and blanks): comment lines and whitespace-only lines may be indented any way
            self.lines.append(self.rng.choice(["\t# tab note", "  \t# mixed note", "\t", "  \t ", "    " * ind + "\t# deep tab note", "   "]))
            self.features.add("gap")
            self.features.add("tab-line")

    def statement(self, kind, depth, ind):
        self.maybe_gap(ind)
        r = self.rng.random()
        deep = depth >= self.maxdepth
        if kind == "init":
            if r < 0.45:
                return self.init_assign(ind)
            if r < 0.6 and not deep:
                return self.compound(kind, depth, ind)
            if r < 0.68:
                return self.funcdef(kind, depth, ind)
            if r < 0.73 and not deep:
                return self.classdef(kind, depth, ind)
            if r < 0.78:
                return self.imports(kind, ind)
            if r < 0.88:
                return self.assign(kind, ind)
            if r < 0.94:
                return self.docstring(ind)
            return self.emit(ind, "pass")
        if kind == "func":
            if r < 0.5:
                return self.emit(ind, self.rng.choice(["pass", "return 1", "x = 1", "self.q = 2"]))
            if r < 0.7:
                return self.funcdef(kind, depth, ind)
            if r < 0.8 and not deep:
                return self.classdef(kind, depth, ind)
            return self.emit(ind, "import os")
        # module / class
        if self.rng.random() < (0.12 if self.profile == "history" else 0.05):
            return self.shadow(kind, ind)
        if r < 0.04:
            return self.property_idiom(ind)
        if r < 0.22:
            return self.funcdef(kind, depth, ind)
        if r < 0.34 and not deep:
            return self.classdef(kind, depth, ind)
        if r < 0.6:
            return self.assign(kind, ind)
        if r < 0.72:
            return self.imports(kind, ind)
        if r < 0.9 and not deep:
            return self.compound(kind, depth, ind)
        if r < 0.94:
            return self.all_stmt(kind, ind)
        if r < 0.97:
            return self.docstring(ind)
        return self.nondoc_expr(ind)

    def maybe_attr_doc(self, ind):
        r = self.rng.random()
        if r < 0.3:
            self.docstring(ind)
            self.features.add("attr-doc")
        elif r < 0.34:
            self.nondoc_expr(ind)

    def assign(self, kind, ind):
        r = self.rng.random()
        n = self.name()
        v = self.uid()
        if r < 0.4:
            self.emit(ind, f"{n} = {v}")
        elif r < 0.5:
            self.emit(ind, f"{n} = {self.name()} = {v}")
            self.features.add("chained")
        elif r < 0.6:
            self.emit(ind, f"{n}: int")
        elif r < 0.7:
            self.emit(ind, f"{n}: int = {v}")
        elif r < 0.76:
            self.emit(ind, f"{n}: {self.rng.choice(['ClassVar[int]', 'typing.ClassVar[int]'])} = {v}")
            self.features.add("classvar")
        elif r < 0.78:
            self.emit(ind, f"{n} = (\n{'    ' * ind}    {v}\n{'    ' * ind})")
        elif r < 0.8:
            self.emit(ind, self.rng.choice([f"{n} = (\n{v}\n)", f"{n} = [\n  {v},\n{v}]", f'{n} = """a {v}\nflush\n"""',
                                            f"{n} = (\n\t{v}\n)", f"{n} = [\n  \t{v},\n\t\t{v}]", f'{n} = """a {v}\n\ttabbed\n  \t\n"""',
                                            f"{n} = (\n{'    ' * ind}\t{v}\n{'    ' * ind}\t)"]))   # continuation at low columns / with tabs
            self.features.add("less-indented-line")
        elif self.exe:
            self.emit(ind, f"{n} = {v}")
        elif r < 0.85:
            self.emit(ind, f"{n}.{self.name()} = {v}")
            self.features.add("dotted-target")
        elif r < 0.89:
            self.emit(ind, f"{n}[0] = {v}")
            self.features.add("bad-target")
        elif r < 0.93:
            self.emit(ind, f"{n}, {self.name()} = {v}, {v}")
            self.features.add("bad-target")
        elif r < 0.96:
            self.emit(ind, f"{n} = {self.name()}[0] = {v}")
            self.features.add("bad-target")
        else:
            self.emit(ind, f"self.{n} = {v}")
        self.maybe_attr_doc(ind)

    def init_assign(self, ind):
        r = self.rng.random()
        n = self.name()
        v = self.uid()
        self.features.add("init-attr")
        if r < 0.5:
            self.emit(ind, f"self.{n} = {v}")
        elif r < 0.65:
            self.emit(ind, f"self.{n}: int = {v}")
        elif r < 0.72:
            self.emit(ind, f"self.{n}: int")
        elif r < 0.8:
            self.emit(ind, f"self.{n} = self.{self.name()} = {v}")
        elif r < 0.86:
            self.emit(ind, f"self.{n}.{self.name()} = {v}")
        elif r < 0.91:
            self.emit(ind, f"self.{n}, self.{self.name()} = {v}, {v}")
        elif r < 0.95:
            self.emit(ind, f"other.{n} = {v}")
        else:
            self.emit(ind, f"self.{n} = {self.name()} = {v}")
        self.maybe_attr_doc(ind)

    def all_stmt(self, kind, ind):
        self.features.add("__all__")
        a, b = self.name(), self.name()
        forms = [f'__all__ = ["{a}", "{b}"]', f'__all__ = ("{a}",)', f'__all__ += ["{a}"]', f'__all__ = ["{a}"] + ["{b}"]',
                 f'__all__: list[str] = ["{a}"]', "__all__ = []", f'__all__ = ["{a}", *["{b}"]]', f'__all__ += ("{b}",)',
                 f'__all__ = {{"{a}", "{b}"}}' if not self.exe else f'__all__ = ["{b}"]',
                 f'__all__.extend(["{a}"])', f'__all__.append("{b}")', f'__all__.extend(("{a}", "{b}"))', f'__all__ = ["{b}"]']
        if not self.exe:
            forms += [f'__all__ = os.__all__ + ["{a}"]', f"__all__ = [{a}, \"{b}\"]", f'__all__ = [x for x in "{a}"]', '__all__ = ["a", 1]',
                      f'__all__ -= ["{a}"]', "__all__: list[str]",
                      "__all__.extend(os.__all__)", f"__all__.extend({a})", f"__all__.append({b})", "__all__.extend()", "__all__.append(1)",
                      f'os.__all__.extend(["{a}"])', f'other.extend(["{a}"])', f'__all__.remove("{a}")', f'__all__.extend(["{a}"], ["{b}"])',
                      f'__all__.extend(*["{a}"])', f'__all__.extend(x for x in "{a}")', f'__all__.extend(["{a}"] + os.__all__)',
                      f'__all__.append(os.{a})', f'extend(["{a}"])', f'__all__.extend(names=["{a}"])']
        form = self.rng.choice(forms)
        top = self.exe and kind == "module" and ind == 0
        if top and getattr(self, "has_all_top", False) and self.rng.random() < 0.6:
            form = self.rng.choice([f'__all__.extend(["{a}"])', f'__all__.append("{b}")', f'__all__.extend(("{a}", "{b}"))', f'__all__ += ["{a}"]'])
        if top and not getattr(self, "has_all_top", False) and ("__all__." in form or "+=" in form):
            self.emit(ind, f'__all__ = ["{self.name()}"]')        # so that the extension has something to extend when executed
        if top and (form.startswith("__all__ =") or form.startswith("__all__:") or "__all__." in form or "+=" in form):
            self.has_all_top = True
        if "__all__." in form or form.startswith(("other.", "extend(")):
            self.features.add("__all__-method")
        self.emit(ind, form)
        self.maybe_attr_doc(ind)

    def imports(self, kind, ind):
        self.features.add("import")
        n = self.name()
        forms = ["import os.path", f"import os as {n}", f"from os import path as {n}", "import os, sys", f"from os import sep as {n}, path",
                 f"import os.path as {n}", "from os import sep", "from os import __all__"]
        if kind == "module" and ind == 0:
            forms.append("from os.path import *")
        if not self.exe:
            forms += ["from pkg import __all__", "from .rel import __all__ as __all__", f"from pkg import __all__ as {n}", f"from pkg import {n} as __all__",
                      f"import pkg.sub.{n}", f"from pkg import {n}", f"from . import {n}", f"from .rel import {n}", f"from .. import {n} as {self.name()}",
                      f"from m import {n}", f"from m import {n} as {self.name()}", f"from m.C import {n}", f"from pkg import {n} as {n}",
                      f"from . import {n} as {n}", "from pkg import (\n" + "    " * ind + f"    {n},\n" + "    " * ind + f"    {self.name()},\n" + "    " * ind + ")"]
        self.emit(ind, self.rng.choice(forms))

    def funcdef(self, kind, depth, ind, name=None):
        self.features.add("def")
        r = self.rng.random()
        name = name or (("__init__" if kind == "class" and self.rng.random() < 0.3 else self.name()))
        decos = []
        if r < 0.35:
            pass
        elif r < 0.75:
            decos = [self.rng.choice(FUNC_DECOS)]
        elif r < 0.85:
            decos = [self.rng.choice(FUNC_DECOS), self.rng.choice(FUNC_DECOS)]
        else:
            decos = [f"{name if self.rng.random() < 0.8 else self.name()}.{self.rng.choice(['setter', 'deleter'])}"]
            self.features.add("accessor")
        if self.exe:
            decos = [d for d in decos if not d.endswith((".setter", ".deleter"))]
            if decos and any(d in ("classmethod", "staticmethod", "abc.abstractmethod") for d in decos) and len(decos) > 1:
                decos = decos[:1]
        for d in decos:
            if d.endswith(")") and self.rng.random() < 0.3:
                head, _, arg = d[:-1].partition("(")
                self.lines.append("    " * ind + "@" + head + "(\n" + "    " * (ind + 1) + arg + "\n" + "    " * ind + ")")
                self.features.add("deco-multiline")
            else:
                self.emit(ind, "@" + d)
            if self.rng.random() < 0.05:
                self.emit(ind, "# between decorators")
            self.features.add("deco:" + d.split("(")[0].split(".")[-1])
        is_async = self.rng.random() < (0.5 if self.profile == "history" else 0.12)
        if is_async:
            self.features.add("async" + ("-decorated" if decos else ""))
        if self.rng.random() < 0.1:
            self.lines.append("    " * ind + ("async " if is_async else "") + f"def {name}(self=None,\n" + "    " * (ind + 2) + "*args):")
            self.features.add("header-multiline")
        else:
            self.emit(ind, ("async " if is_async else "") + self.rng.choice([f"def {name}(self=None, *args):", f"def {name}(self=None, *args):",
                                                                            f"def {name}(self=None, *args, timeout=10, port=None):",
                                                                            f"def {name}(self=None, *args, timeout=10, port):"]))
        sub = "init" if (kind == "class" and name == "__init__") else "func"
        if sub == "init" or self.rng.random() < 0.35:
            self.body(sub, depth + 1, ind + 1)
        else:
            if self.rng.random() < 0.4:
                self.docstring(ind + 1)
            else:
                self.emit(ind + 1, self.rng.choice(["pass", "return 1", "..."]))

    def shadow(self, kind, ind):
        """(Re)bind a decorator spelling in this scope: from here on (and, in a class body, only inside this body) the same
        text denotes another callable than before."""
        s_ = self.rng.choice(["property", "cached_property", "staticmethod", "classmethod", "overload", "deco", "cached_property", "property"])
        r = self.rng.random()
        self.features.add("decorator-shadowed")
        if r < 0.45:
            self.emit(ind, f"def {s_}(fn):")
            self.emit(ind + 1, "return fn")
        elif r < 0.65:
            self.emit(ind, f"{s_} = (lambda fn: fn)")
        elif r < 0.85:
            self.emit(ind, f"from functools import cached_property as {s_}")
        elif r < 0.93:
            self.emit(ind, f"from functools import cache as {s_}")
        else:
            self.emit(ind, f"class {s_}:")
            self.emit(ind + 1, "pass")
        # ... and use it right away, and once more later through the ordinary statements
        if self.rng.random() < 0.7:
            self.emit(ind, "@" + s_)
            self.emit(ind, f"def {self.name()}(self=None, *args):")
            self.emit(ind + 1, "return 1")

    def property_idiom(self, ind):
        n = self.name()
        self.features.add("property-idiom")
        self.emit(ind, "@" + self.rng.choice(["property", "property", "cached_property" if not self.exe else "property"]))
        self.emit(ind, f"def {n}(self=None, *args):")
        self.docstring(ind + 1) if self.rng.random() < 0.5 else self.emit(ind + 1, "return 1")
        if self.rng.random() < 0.3:
            self.assign("class", ind)
        for acc in self.rng.sample(["setter", "deleter", "setter"], self.rng.randint(1, 2)):
            self.emit(ind, f"@{n}.{acc}")
            self.emit(ind, f"def {n}(self=None, *args):")
            self.emit(ind + 1, "pass")

    def classdef(self, kind, depth, ind):
        self.features.add("class")
        if self.rng.random() < 0.25:
            self.emit(ind, "@" + self.rng.choice(CLASS_DECOS))
        self.emit(ind, f"class {self.name()}:")
        self.body("class", depth + 1, ind + 1)

    def compound(self, kind, depth, ind):
        r = self.rng.random()
        d = depth + 1
        if r < 0.4:
            test = self.rng.choice(["TYPE_CHECKING", "TYPE_CHECKING", "typing.TYPE_CHECKING", "1", "0", "not TYPE_CHECKING", "not typing.TYPE_CHECKING",
                                    "not TYPE_CHECKING", "TYPE_CHECKING and 1", 'len("ab")', "not (TYPE_CHECKING)", "not not TYPE_CHECKING"])
            self.features.add("if-tc" if test in TC_TESTS else "if-not-tc" if test in NEG_TC_TESTS else "if")
            self.emit(ind, f"if {test}:")
            self.block_body(kind, d, ind + 1)
            rr = self.rng.random()
            if rr < 0.3:
                self.emit(ind, "elif 0:")
                self.block_body(kind, d, ind + 1)
                self.features.add("elif")
            if rr < 0.55:
                self.emit(ind, "else:")
                self.block_body(kind, d, ind + 1)
                self.features.add("else")
        elif r < 0.62:
            self.features.add("try")
            self.emit(ind, "try:")
            self.block_body(kind, d, ind + 1)
            rr = self.rng.random()
            if rr < 0.8:
                self.emit(ind, self.rng.choice(["except Exception:", "except (KeyError, ValueError) as _e:", "except:"]))
                self.block_body(kind, d, ind + 1)
                if self.rng.random() < 0.3:
                    self.emit(ind, "else:")
                    self.block_body(kind, d, ind + 1)
            if rr >= 0.8 or self.rng.random() < 0.3:
                self.emit(ind, "finally:")
                self.block_body(kind, d, ind + 1)
        elif r < 0.74:
            self.features.add("for")
            self.emit(ind, "for _i in range(2):")
            self.block_body(kind, d, ind + 1)
            if self.rng.random() < 0.4:
                self.emit(ind, "else:")
                self.block_body(kind, d, ind + 1)
        elif r < 0.82:
            self.features.add("while")
            self.emit(ind, "while 0:")
            self.block_body(kind, d, ind + 1)
            if self.rng.random() < 0.4:
                self.emit(ind, "else:")
                self.block_body(kind, d, ind + 1)
        elif r < 0.92:
            self.features.add("with")
            self.emit(ind, "with contextlib.nullcontext() as _c:")
            self.block_body(kind, d, ind + 1)
        else:
            self.features.add("match")
            self.emit(ind, "match 1:")
            self.emit(ind + 1, "case 1:")
            self.block_body(kind, d, ind + 2)
            self.emit(ind + 1, "case _:")
            self.block_body(kind, d, ind + 2)

    def module(self):
        if self.rng.random() < 0.5:
            self.docstring(0)
        pre = PREAMBLE[:]
        if self.rng.random() < 0.15:
            pre.insert(0, "from __future__ import annotations")
        self.lines += pre
        for _ in range(self.rng.randint(2, 7) if self.profile != "history" else self.rng.randint(1, 4)):
            self.statement("module", 0, 0)
        return "\n".join(self.lines) + "\n"


# =====================================================================================================================
# correspondence: model vs implementation
# =====================================================================================================================
def gen_case(rng, idx, profile="structural"):
    exe = rng.random() < 0.5
    g = Gen(rng, executable=exe, maxdepth=4 if profile == "structural" else 2, profile=profile)
    src = g.module()
    is_init = (not exe) and rng.random() < 0.3
    mname = "m"
    return {"source": src, "mname": mname, "is_init": is_init, "executable": exe, "features": sorted(g.features)}


def filepath_for(ctx_scratch: Path, case) -> Path:
    # never read by griffe.visit; only its name matters (is_init_module) and it keys the lines collection
    return Path(ctx_scratch) / ("pkgdir/__init__.py" if case["is_init"] else "m.py")


def first_diff(a, b, path="$"):
    if type(a) != type(b) and not (isinstance(a, (int, bool)) and isinstance(b, (int, bool))):
        return f"{path}: {a!r} != {b!r}"
    if isinstance(a, list):
        for i, (x, y) in enumerate(zip(a, b)):
            d = first_diff(x, y, f"{path}[{i}]")
            if d:
                return d
        if len(a) != len(b):
            return f"{path}: length {len(a)} != {len(b)}; extra {(a[len(b):] or b[len(a):])[:2]!r}"
        return None
    return None if a == b else f"{path}: {a!r} != {b!r}"


# =====================================================================================================================
# direct evaluation of the property on the implementation (authority: CPython ast / exec), no model involved
# =====================================================================================================================
PROPERTY_DECOS = ("property", "cached_property", "functools.cached_property")
SCOPE_NODES = (ast.FunctionDef, ast.AsyncFunctionDef, ast.ClassDef, ast.Lambda)


def level_statements(body):
    """Yield (stmt, direct, conditional, container_field) for the statements of one level: the body and, recursively, the
    bodies of compound statements, not entering nested scopes."""
    def rec(stmts, direct, cond):
        for s in stmts:
            yield s, direct, cond
            if isinstance(s, ast.If):
                yield from rec(s.body, False, True)
                yield from rec(s.orelse, False, True)
            elif isinstance(s, (ast.For, ast.AsyncFor, ast.While)):
                yield from rec(s.body, False, False)
                yield from rec(s.orelse, False, False)
            elif isinstance(s, (ast.With, ast.AsyncWith)):
                yield from rec(s.body, False, False)
            elif isinstance(s, (ast.Try, getattr(ast, "TryStar", ast.Try))):
                yield from rec(s.body, False, False)
                for h in s.handlers:
                    yield from rec(h.body, False, True)
                yield from rec(s.orelse, False, False)
                yield from rec(s.finalbody, False, False)
            elif isinstance(s, ast.Match):
                for c in s.cases:
                    yield from rec(c.body, False, False)
    yield from rec(body, True, False)


def deco_text(d):
    if isinstance(d, ast.Call):
        d = d.func
    try:
        return ast.unparse(d)
    except Exception:  # noqa: BLE001
        return "?"


BUILTIN_SPELLINGS = {"property", "staticmethod", "classmethod"}


def ambiguous_heads(tree):
    """Decorator spellings whose meaning depends on the place in the module: a builtin spelling that is bound anywhere, or
    any other name bound more than once (the static direct checks, which read decorators textually, leave definitions
    decorated with them to the model tie and to the checks against the executed module)."""
    from collections import Counter
    cnt = Counter()
    for n in ast.walk(tree):
        if isinstance(n, (ast.FunctionDef, ast.AsyncFunctionDef, ast.ClassDef)):
            cnt[n.name] += 1
        elif isinstance(n, ast.Name) and isinstance(n.ctx, (ast.Store, ast.Del)):
            cnt[n.id] += 1
        elif isinstance(n, ast.alias):
            cnt[n.asname or n.name.split(".", 1)[0]] += 1
        elif isinstance(n, ast.arg):
            cnt[n.arg] += 0
    return {h for h, k in cnt.items() if k >= 2 or (k == 1 and h in BUILTIN_SPELLINGS)}


def rebindings_straight(tree, heads):
    """Every statement binding one of the heads is a plain statement of the module body or of the body of a class that
    is itself such a statement: then what Griffe sees in source order is what CPython executes."""
    ok = True

    def binds(s):
        if isinstance(s, (ast.FunctionDef, ast.AsyncFunctionDef, ast.ClassDef)):
            return {s.name}
        if isinstance(s, (ast.Import, ast.ImportFrom)):
            return {a.asname or a.name.split(".", 1)[0] for a in s.names}
        return {n.id for n in ast.walk(s) if isinstance(n, ast.Name) and isinstance(n.ctx, (ast.Store, ast.Del))} if isinstance(s, (ast.Assign, ast.AnnAssign, ast.AugAssign, ast.Delete)) else set()

    straight_stmts = set()

    def rec(body):
        for s in body:
            straight_stmts.add(id(s))
            if isinstance(s, ast.ClassDef):
                rec(s.body)
    rec(tree.body)
    for n in ast.walk(tree):
        if isinstance(n, ast.stmt) and id(n) not in straight_stmts and not isinstance(n, (ast.If, ast.For, ast.While, ast.Try, ast.With, ast.Match)):
            if binds(n) & heads:
                ok = False
        elif isinstance(n, ast.stmt) and id(n) not in straight_stmts:
            # names bound by the compound statement itself (loop targets, with-as): not decorator spellings in generated code
            pass
    return ok


def deco_head(d):
    if isinstance(d, ast.Call):
        d = d.func
    while isinstance(d, ast.Attribute):
        d = d.value
    return d.id if isinstance(d, ast.Name) else None


_AMB: set = set()          # ambiguous decorator spellings of the module under check (set by direct_checks / runtime_checks)


def amb_def(s):
    return any(deco_head(d) in _AMB for d in s.decorator_list)


def is_overload_def(s):
    return any(deco_text(d) in ("overload", "typing.overload", "typing_extensions.overload") for d in s.decorator_list)


def is_accessor_def(s):
    return any(deco_text(d).endswith((".setter", ".deleter")) for d in s.decorator_list)


def supported_bindings(body, class_level=False, path="m", mname="m", is_init=False, function_level=False):
    """name -> list of dict(kind, lineno, direct, cond, overload, accessor) for the binding forms Griffe supports
    (function_level: the own members of an __init__ function object -- definitions, classes, imports; no assignments)."""
    out: dict[str, list] = {}

    def add(name, **kw):
        out.setdefault(name, []).append(kw)
    for s, direct, cond in level_statements(body):
        if isinstance(s, (ast.FunctionDef, ast.AsyncFunctionDef)):
            add(s.name, kind="function", lineno=s.lineno, direct=direct, cond=False, overload=is_overload_def(s), accessor=is_accessor_def(s),
                prop=any(deco_text(d) in PROPERTY_DECOS for d in s.decorator_list), amb=amb_def(s))
            if class_level and s.name == "__init__" and (amb_def(s) or not any(deco_text(d) in PROPERTY_DECOS for d in s.decorator_list)):
                for t, _d, c in level_statements(s.body):
                    targets = t.targets if isinstance(t, ast.Assign) else [t.target] if isinstance(t, ast.AnnAssign) else []
                    if any(not isinstance(x, (ast.Name, ast.Attribute)) for x in targets):
                        continue
                    for x in targets:
                        if isinstance(x, ast.Attribute) and isinstance(x.value, ast.Name) and x.value.id == "self":
                            add(x.attr, kind="attribute", lineno=t.lineno, direct=False, cond=c, overload=False, accessor=False, instance=True,
                                chained=len(targets) > 1, amb=amb_def(s))
        elif isinstance(s, ast.ClassDef):
            add(s.name, kind="class", lineno=s.lineno, direct=direct, cond=False, overload=False, accessor=False, amb=amb_def(s))
        elif isinstance(s, (ast.Assign, ast.AnnAssign)):
            if function_level:
                continue
            targets = s.targets if isinstance(s, ast.Assign) else [s.target]
            simple = all(isinstance(x, (ast.Name, ast.Attribute)) and (isinstance(x, ast.Name) or Abstraction("m", False).dotted(x)) for x in targets)
            if not simple:
                continue
            for x in targets:
                if isinstance(x, ast.Name):
                    add(x.id, kind="attribute", lineno=s.lineno, direct=direct, cond=cond, overload=False, accessor=False,
                        chained=len(targets) > 1, has_value=getattr(s, "value", None) is not None)
        elif isinstance(s, ast.Import):
            for a in s.names:
                add(a.asname or a.name.split(".", 1)[0], kind="alias", lineno=s.lineno, direct=direct, cond=False, overload=False, accessor=False)
        elif isinstance(s, ast.ImportFrom):
            for a in s.names:
                if a.name != "*":
                    target = (mname + "." if s.level > 0 else "") + (s.module + "." if s.module else "") + a.name
                    if target == path + "." + (a.asname or a.name):
                        continue        # `from <this scope> import x`: documented as not creating an alias to itself
                    if is_init and not s.module and s.level == 1 and not a.asname:
                        continue        # `from . import b` in an __init__ module: documented as skipped (would be cyclic)
                    add(a.asname or a.name, kind="alias", lineno=s.lineno, direct=direct, cond=False, overload=False, accessor=False)
    return out


def stored_names(body):
    """Every name some statement of this level may bind (any form), not entering nested scopes."""
    names = set()

    def walk(n):
        for c in ast.iter_child_nodes(n):
            if isinstance(c, (ast.FunctionDef, ast.AsyncFunctionDef, ast.ClassDef)):
                names.add(c.name)
                for d in c.decorator_list:
                    walk(d)
                continue
            if isinstance(c, ast.Lambda):
                continue
            if isinstance(c, ast.Name) and isinstance(c.ctx, (ast.Store, ast.Del)):
                names.add(c.id)
            if isinstance(c, ast.alias):
                names.add(c.asname or c.name.split(".", 1)[0])
            if isinstance(c, ast.ExceptHandler) and c.name:
                names.add(c.name)
            if isinstance(c, (ast.MatchAs, ast.MatchStar)) and c.name:
                names.add(c.name)
            if isinstance(c, ast.MatchMapping) and c.rest:
                names.add(c.rest)
            walk(c)
    holder = ast.Module(body=list(body), type_ignores=[])
    walk(holder)
    return names


def guard_map(tree):
    """line -> True when the statement starting there is (transitively) inside the body of a module/class-level `if TYPE_CHECKING`."""
    out = {}

    def rec(stmts, parent, guarded):
        for s in stmts:
            out[s.lineno] = guarded
            for d in getattr(s, "decorator_list", []):
                out[d.lineno] = guarded
            if isinstance(s, ast.If):
                level = isinstance(parent, (ast.Module, ast.ClassDef))
                rec(s.body, s, guarded or (level and tc_code(s.test) == 1))
                rec(s.orelse, s, guarded or (level and tc_code(s.test) == 2))
            elif isinstance(s, (ast.Try, getattr(ast, "TryStar", ast.Try))):
                rec(s.body, s, guarded)
                for h in s.handlers:
                    rec(h.body, h, guarded)
                rec(s.orelse, s, guarded)
                rec(s.finalbody, s, guarded)
            elif isinstance(s, ast.Match):
                for c in s.cases:
                    rec(c.body, c, guarded)
            else:
                for field in ("body", "orelse"):
                    sub = getattr(s, field, None)
                    if isinstance(sub, list) and sub and isinstance(sub[0], ast.stmt):
                        rec(sub, s, guarded)
    rec(tree.body, tree, False)
    return out


def node_index(tree):
    """(lineno of the statement) -> node, for every statement anywhere (one statement per line in generated code);
    a string expression statement is also reachable through the line of its string constant (parenthesised docstrings)."""
    idx = {}
    for n in ast.walk(tree):
        if isinstance(n, ast.stmt):
            idx.setdefault(n.lineno, n)
    for n in ast.walk(tree):
        if isinstance(n, ast.Expr) and isinstance(n.value, ast.Constant) and isinstance(n.value.value, str):
            idx.setdefault(n.value.lineno, n)
            idx.setdefault(("doc", n.value.lineno), n)
    return idx


def parse_slice(lines, lineno, endlineno):
    text = "\n".join(lines[lineno - 1:endlineno])
    if text[:1] in (" ", "\t"):
        mod = ast.parse("if 1:\n" + text)
        body = mod.body[0].body
    else:
        mod = ast.parse(text)
        body = mod.body
    return body


def dump_nopos(n, drop_decorators=False):
    if drop_decorators and hasattr(n, "decorator_list"):
        import copy
        n = copy.copy(n)
        n.decorator_list = []
    return ast.dump(n, include_attributes=False)


def dump_shape(n, drop_decorators=False):
    """Structure of a node without positions and with every string constant blanked (dedent changes the text inside
    multi-line strings); no copy is made."""
    def rec(x, top):
        if isinstance(x, ast.AST):
            if isinstance(x, ast.Constant) and isinstance(x.value, (str, bytes)):
                return ("Constant", "")
            return (type(x).__name__,) + tuple(
                rec([] if (top and drop_decorators and f == "decorator_list") else getattr(x, f, None), False) for f in x._fields)
        if isinstance(x, list):
            return tuple(rec(y, False) for y in x)
        return x
    return rec(n, True)


def walk_objects(mod):
    """(path tuple, object, parent object, body-owner kind) for every object reachable through module/class members."""
    def rec(o, path):
        for name, m in o.members.items():
            yield path + (name,), m, o
            if not m.is_alias and (m.kind.value == "class" or (m.kind.value == "function" and m.members)):
                yield from rec(m, path + (name,))       # also what an __init__ function object holds
    yield from rec(mod, ())


# The documented decorator -> label table (mirror of Model/C01_content.v:doc_labels, compared with it on every run;
# kept here so that the direct checks and search() need neither the model nor the tables of the tree under test).
DOC_LABELS = {
    "property": {"property"}, "staticmethod": {"staticmethod"}, "classmethod": {"classmethod"},
    "abc.abstractmethod": {"abstractmethod"}, "functools.cache": {"cached"}, "functools.cached_property": {"cached", "property"},
    "cached_property.cached_property": {"cached", "property"}, "functools.lru_cache": {"cached"}, "dataclasses.dataclass": {"dataclass"},
}
_TABLES = DOC_LABELS


def check_doc_table(ctx):
    got = {p: set(ls) for p, ls in ctx.model([["doc-labels"]])[0]}
    if got != DOC_LABELS:
        ctx.tie_failure("oracle", "documented decorator table: harness mirror vs Model/C01_content.v:doc_labels", {"model": sorted(got), "harness": sorted(DOC_LABELS)}, None)


def expected_deco_labels(node, import_map):
    ab = Abstraction("m", False)
    ab.import_map = import_map
    out = set()
    for d in node.decorator_list:
        r = ab.deco(d)
        if r[0] == "ref":          # an unambiguous spelling: bound at most once, by a module-level import or not at all
            out |= _TABLES.get(import_map.get(r[1], r[1]) + r[2], set())
    return out


def expected_imports(body, mname, is_init):
    """name -> dotted path Python imports, for the import statements of one level, in order."""
    out = {}
    for s, _d, _c in level_statements(body):
        if isinstance(s, ast.Import):
            for a in s.names:
                out[a.asname or a.name.split(".", 1)[0]] = a.name if a.asname else a.name.split(".", 1)[0]
        elif isinstance(s, ast.ImportFrom):
            for a in s.names:
                if a.name == "*" or (is_init and not s.module and s.level == 1 and not a.asname):
                    continue
                out[a.asname or a.name] = (mname + "." if s.level > 0 else "") + (s.module + "." if s.module else "") + a.name
    return out


def direct_checks(case, tree, mod, rec):
    """Returns a list of (check-name, detail, finding-id-or-None)."""
    src = case["source"]
    lines = src.splitlines()
    fails = []
    global _AMB
    _AMB = ambiguous_heads(tree)
    idx = node_index(tree)
    gmap = guard_map(tree)
    deco_owner = {}
    for n in ast.walk(tree):
        if isinstance(n, (ast.FunctionDef, ast.AsyncFunctionDef, ast.ClassDef)) and n.decorator_list:
            deco_owner[n.decorator_list[0].lineno] = n

    def origin(obj):
        """The ast statement an object was built from."""
        if obj.is_alias:
            return idx.get(obj.alias_lineno)
        if obj.lineno in deco_owner and obj.kind.value in ("function", "class"):
            return deco_owner[obj.lineno]
        return idx.get(obj.lineno)

    for path, obj, parent in walk_objects(mod):
        node = origin(obj)
        where = ".".join(path)
        # ---- span slicing returns that very definition
        if node is None:
            fails.append(("span-origin", f"{where}: no statement starts at reported line", None))
            continue
        try:
            ln, eln = (obj.alias_lineno, obj.alias_endlineno) if obj.is_alias else (obj.lineno, obj.endlineno)
            body = parse_slice(lines, ln, eln)
            if len(body) != 1:
                fails.append(("span-slice", f"{where}: slice {ln}-{eln} holds {len(body)} statements", None))
            else:
                got = body[0]
                if obj.is_alias:
                    ok = isinstance(got, (ast.Import, ast.ImportFrom)) and dump_nopos(got) == dump_nopos(node)
                elif obj.kind.value == "attribute" and isinstance(node, (ast.FunctionDef, ast.AsyncFunctionDef)):
                    ok = type(got) is type(node) and got.name == path[-1] and dump_nopos(got, True) == dump_nopos(node, True)
                elif obj.kind.value in ("function", "class"):
                    ok = type(got) is type(node) and got.name == path[-1] and dump_nopos(got) == dump_nopos(node)
                else:
                    ok = isinstance(got, (ast.Assign, ast.AnnAssign)) and dump_nopos(got) == dump_nopos(node)
                if not ok:
                    fails.append(("span-slice", f"{where}: slice {ln}-{eln} is not the {obj.kind.value if not obj.is_alias else 'import'} definition", None))
        except SyntaxError as e:
            fails.append(("span-slice", f"{where}: slice does not parse: {e.msg}", None))
        # ---- Object.lines / Object.source: the sliced lines, and their text without the common margin; the source still
        #      is that very definition (string constants compared up to the margin that dedent takes out of their lines)
        if not obj.is_alias:
            sliced = lines[obj.lineno - 1:obj.endlineno]
            if list(obj.lines) != sliced:
                fails.append(("object-lines", f"{where}: lines differ from the source lines {obj.lineno}-{obj.endlineno}", None))
            exp_src = textwrap.dedent("\n".join(sliced))
            if obj.source != exp_src:
                k = next((i for i, (x, y) in enumerate(zip(obj.source.split("\n"), exp_src.split("\n"))) if x != y), None)
                fails.append(("object-source", f"{where}: source is not the dedented text of lines {obj.lineno}-{obj.endlineno} "
                                               f"(first differing line {k}: {obj.source.split(chr(10))[k][:40] if k is not None else '<length>'!r})", None))
            try:
                st = obj.source
                body = ast.parse("if 1:\n" + st).body[0].body if st[:1] in (" ", "\t") else ast.parse(st).body
                ok = len(body) == 1 and type(body[0]) is type(node) and getattr(body[0], "name", None) == getattr(node, "name", None) and \
                    dump_shape(body[0], obj.kind.value == "attribute") == dump_shape(node, obj.kind.value == "attribute")
                if not ok:
                    fails.append(("object-source", f"{where}: source does not re-parse to the {obj.kind.value} definition", None))
            except SyntaxError as e:
                fails.append(("object-source", f"{where}: source does not parse: {e.msg}", None))
        # ---- kind of object vs kind of statement, name bound by it
        if obj.is_alias:
            if not isinstance(node, (ast.Import, ast.ImportFrom)):
                fails.append(("kind", f"{where}: alias not from an import", None))
        elif obj.kind.value == "function" and not isinstance(node, (ast.FunctionDef, ast.AsyncFunctionDef)):
            fails.append(("kind", f"{where}: function from {type(node).__name__}", None))
        elif obj.kind.value == "class" and not isinstance(node, ast.ClassDef):
            fails.append(("kind", f"{where}: class from {type(node).__name__}", None))
        # ---- type-guard flag
        if gmap.get(node.lineno, False) != (not obj.runtime):
            fails.append(("type-guard", f"{where}: runtime={obj.runtime} but source position guarded={gmap.get(node.lineno)}", None))
        # ---- decorator-derived labels, alias targets
        imap = getattr(tree, "_c01_import_map", {})
        if isinstance(node, (ast.FunctionDef, ast.AsyncFunctionDef, ast.ClassDef)) and amb_def(node):
            pass        # the spelling of a decorator means different things in this module: model tie + runtime checks decide
        elif not obj.is_alias and obj.kind.value == "function" and isinstance(node, (ast.FunctionDef, ast.AsyncFunctionDef)):
            exp = expected_deco_labels(node, imap) | ({"async"} if isinstance(node, ast.AsyncFunctionDef) else set())
            if set(obj.labels) != exp:
                fails.append(("labels", f"{where}: labels {sorted(obj.labels)} but the decorators give {sorted(exp)}", None))
        elif not obj.is_alias and obj.kind.value == "class" and isinstance(node, ast.ClassDef):
            exp = expected_deco_labels(node, imap)
            if set(obj.labels) != exp:
                fails.append(("labels", f"{where}: labels {sorted(obj.labels)} but the decorators give {sorted(exp)}", None))
        elif not obj.is_alias and obj.kind.value == "attribute" and isinstance(node, (ast.FunctionDef, ast.AsyncFunctionDef)):
            exp = expected_deco_labels(node, imap) | ({"async"} if isinstance(node, ast.AsyncFunctionDef) else set())
            if not exp <= set(obj.labels) or not set(obj.labels) <= exp | {"writable", "deletable"}:
                fails.append(("labels", f"{where}: property labels {sorted(obj.labels)} but the decorators give {sorted(exp)}", None))
        # ---- docstrings
        if not obj.is_alias:
            ds = obj.docstring
            if obj.kind.value in ("function", "class") or (obj.kind.value == "attribute" and isinstance(node, (ast.FunctionDef, ast.AsyncFunctionDef))):
                first = node.body[0] if node.body else None
                exp = first.value if isinstance(first, ast.Expr) and isinstance(first.value, ast.Constant) and isinstance(first.value.value, str) else None
                if (exp is None) != (ds is None):
                    fails.append(("docstring", f"{where}: docstring presence differs from the source", None))
                elif ds is not None:
                    if ds.value != inspect.cleandoc(exp.value).rstrip() or (ds.lineno, ds.endlineno) != (exp.lineno, exp.end_lineno):
                        fails.append(("docstring", f"{where}: text/span differ from the source", None))
            elif obj.kind.value == "attribute":
                fails += attribute_doc_check(where, path, obj, node, tree, idx, parent)
    if list(mod.lines) != lines or mod.source != textwrap.dedent("\n".join(lines)):
        fails.append(("object-source", "module: lines / source differ from the source text", None))
    # module docstring
    first = tree.body[0] if tree.body else None
    exp = first.value if isinstance(first, ast.Expr) and isinstance(first.value, ast.Constant) and isinstance(first.value.value, str) else None
    if (exp is None) != (mod.docstring is None) or (exp is not None and (mod.docstring.value != inspect.cleandoc(exp.value).rstrip()
                                                                         or (mod.docstring.lineno, mod.docstring.endlineno) != (exp.lineno, exp.end_lineno))):
        fails.append(("docstring", "module docstring differs from the source", None))

    # ---- names per level: nothing extracted that is not bound; every supported binding extracted
    all_extended = any(
        (isinstance(n, ast.AugAssign) and isinstance(n.target, ast.Name) and n.target.id == "__all__")
        or (isinstance(n, ast.Expr) and (all_method_call(n) or ("", "", False))[0] == "__all__")
        or (isinstance(n, ast.ImportFrom) and any((a.asname or a.name) == "__all__" for a in n.names))
        for n in ast.walk(tree))
    levels = [((), mod, tree.body, False)]
    for path, obj, parent in walk_objects(mod):
        if not obj.is_alias and obj.kind.value == "class":
            node = origin(obj)
            if isinstance(node, ast.ClassDef):
                levels.append((path, obj, node.body, True))
        # the function object of a class's __init__: its members are the definitions, classes and imports of its body
        if not obj.is_alias and obj.kind.value == "function" and obj.name == "__init__" and parent.kind.value == "class":
            node = origin(obj)
            if isinstance(node, (ast.FunctionDef, ast.AsyncFunctionDef)):
                levels.append((path, obj, node.body, "function"))
        elif not obj.is_alias and obj.kind.value == "function" and obj.members:
            fails.append(("names-extra", f"{'.'.join(path)}: a function that is not a class's __init__ has members {list(obj.members)}", None))
    for path, obj, body, is_cls in levels:
        sup = supported_bindings(body, class_level=is_cls is True, function_level=is_cls == "function",
                                 path=".".join((case["mname"],) + path), mname=case["mname"], is_init=case["is_init"])
        where = ".".join(path) or "<module>"
        eimp = expected_imports(body, case["mname"], case["is_init"])
        if dict(obj.imports) != eimp:
            fails.append(("imports", f"{where}: imports map {dict(obj.imports)} but the import statements give {eimp}", None))
        # exports belong to the SURVIVING binding of __all__: when nothing extends the list afterwards, the exports are the
        # items of the very assignment the member __all__ reports (a conditional re-assignment that the tie-break skips
        # must not leave its list behind)
        am = obj.members.get("__all__") if is_cls != "function" else None
        if am is not None and not am.is_alias and am.kind.value == "attribute" and not all_extended:
            st = idx.get(am.lineno)
            if isinstance(st, (ast.Assign, ast.AnnAssign)) and st.value is not None and any(
                    isinstance(t, ast.Name) and t.id == "__all__" for t in (st.targets if isinstance(st, ast.Assign) else [st.target])):
                items = Abstraction("m", False).all_items(st.value)
                if isinstance(st.value, (ast.List, ast.Tuple, ast.Set)) and items and all(i.startswith("s:") for i in items):
                    got = export_items(obj.exports)
                    case["_exports_vs_binding"] = case.get("_exports_vs_binding", 0) + 1
                    if got != items:
                        fails.append(("exports-binding", f"{where}: exports {got} but the surviving assignment of __all__ (line {am.lineno}) lists {items}", None))
        for name, m in obj.members.items():
            if m.is_alias and not name.endswith("/*") and name in eimp and m.target_path != eimp[name] and \
                    eimp[name] != ".".join((case["mname"],) + path + (name,)) and \
                    [b for b in sup.get(name, []) if b["kind"] == "alias"][-1:] == sup.get(name, [])[-1:]:
                fails.append(("imports", f"{where}: alias {name!r} targets {m.target_path}, the import statement gives {eimp[name]}", None))
            # attribute labels of a name bound exactly once at this level (no forwarding possible)
            bs1 = sup.get(name, [])
            if not m.is_alias and m.kind.value == "attribute" and len(bs1) == 1 and bs1[0]["kind"] == "attribute":
                st = idx.get(bs1[0]["lineno"])
                if bs1[0].get("instance"):
                    expl = {"instance-attribute"}
                elif not is_cls:
                    expl = {"module-attribute"}
                elif isinstance(st, ast.AnnAssign) and Abstraction("m", False).is_classvar(st.annotation) is False and ast.unparse(st.annotation).split("[")[0].split(".")[-1] == "ClassVar":
                    expl = None
                elif isinstance(st, ast.AnnAssign) and ast.unparse(st.annotation).split("[")[0].split(".")[-1] == "ClassVar" and isinstance(st.annotation, ast.Subscript):
                    expl = {"class-attribute"}
                elif getattr(st, "value", None) is not None:
                    expl = {"class-attribute", "instance-attribute"}
                else:
                    expl = {"instance-attribute"}
                if expl is not None and set(m.labels) != expl:
                    fails.append(("labels", f"{where}: attribute {name!r} has labels {sorted(m.labels)}, expected {sorted(expl)}", None))
            # Griffe's documented forwarding rule on the plainest shape: a name re-assigned by statements of the level's own
            # statement list keeps the docstring of an earlier assignment when the later one has none of its own
            if not m.is_alias and m.kind.value == "attribute" and len(bs1) >= 2 and \
                    all(b["kind"] == "attribute" and b["direct"] and not b.get("instance") for b in bs1):
                doc = None
                for b in bs1:
                    st = idx.get(b["lineno"])
                    i = next((k for k, x in enumerate(body) if x is st), None)
                    nxt = body[i + 1] if i is not None and i + 1 < len(body) else None
                    if isinstance(nxt, ast.Expr) and isinstance(nxt.value, ast.Constant) and isinstance(nxt.value.value, str):
                        doc = nxt.value
                exp_span = (doc.lineno, doc.end_lineno) if doc is not None else None
                got_span = (m.docstring.lineno, m.docstring.endlineno) if m.docstring is not None else None
                if got_span != exp_span:
                    fails.append(("doc-forward", f"{where}: attribute {name!r} re-assigned at this level has docstring span {got_span}, "
                                                 f"the last docstring among its assignments is at {exp_span}", None))
        for name in obj.members:
            if name not in sup and not name.endswith("/*"):
                fails.append(("names-extra", f"{where}: member {name!r} is bound by no supported statement of this level", None))
        for name, bs in sup.items():
            if any(b.get("amb") for b in bs):
                continue        # property / overload status not readable off the text here
            if name not in obj.members:
                if all(b["overload"] and not b.get("prop") for b in bs):
                    fails.append(("names-missing", f"{where}: {name!r} bound only by @overload definitions has no member", "C01-F6"))
                else:
                    fails.append(("names-missing", f"{where}: {name!r} is bound at this level but has no member", None))
                continue
            m = obj.members[name]
            # Griffe's documented tie-break: a later definition wins, except that an attribute assignment directly inside
            # an `if` / `except` does not displace a member that already exists (overloads never bind)
            if not any(b["accessor"] for b in bs):
                cur = None
                for b in bs:
                    if b["overload"] and not b.get("prop"):
                        continue
                    if b["kind"] == "attribute" and b["cond"] and cur is not None:
                        continue
                    cur = b
                if cur is None:
                    fails.append(("names-extra", f"{where}: {name!r} is a member although only @overload definitions bind it", None))
                    continue
                kind = "alias" if m.is_alias else m.kind.value
                o = origin(m)
                lineno = m.alias_lineno if m.is_alias else (o.lineno if o is not None else None)
                exp_kind = "attribute" if (cur["kind"] == "function" and cur.get("prop")) else cur["kind"]
                if (kind, lineno) != (exp_kind, cur["lineno"]):
                    fails.append(("survivor", f"{where}: {name!r} is {kind}@{lineno}, the surviving binding is {exp_kind}@{cur['lineno']}", None))
    return fails


def attribute_doc_check(where, path, obj, node, tree, idx, parent):
    """Attribute docstring = the string statement immediately following an assignment of that name in the same block
    (Griffe documents forwarding the docstring of an earlier assignment of the same name when the later one has none)."""
    fails = []
    ds = obj.docstring
    name = path[-1]

    def next_in_block(stmt):
        for n in ast.walk(tree):
            for field in ("body", "orelse", "finalbody"):
                lst = getattr(n, field, None)
                if isinstance(lst, list) and stmt in lst:
                    i = lst.index(stmt)
                    return lst[i + 1] if i + 1 < len(lst) else None, (n, field)
        return None, None

    def is_doc(s):
        return isinstance(s, ast.Expr) and isinstance(s.value, ast.Constant) and isinstance(s.value.value, str)
    nxt, _ = next_in_block(node)
    own = nxt if nxt is not None and is_doc(nxt) else None
    if own is not None:
        if ds is None or (ds.lineno, ds.endlineno) != (own.value.lineno, own.value.end_lineno) or ds.value != inspect.cleandoc(own.value.value).rstrip():
            fails.append(("attr-docstring", f"{where}: the string following the assignment is not the reported docstring", None))
        return fails
    if ds is None:
        return fails
    # a docstring without a following string: must be forwarded from an earlier binding of the same name
    dnode = idx.get(("doc", ds.lineno)) or idx.get(ds.lineno)
    prev = None
    for n in ast.walk(tree):
        for field in ("body", "orelse", "finalbody"):
            lst = getattr(n, field, None)
            if isinstance(lst, list) and dnode in lst:
                i = lst.index(dnode)
                prev = lst[i - 1] if i > 0 else n
                first_of_branch = i == 0 and field in ("orelse", "finalbody")
    targets = []
    if isinstance(prev, ast.Assign):
        targets = prev.targets
    elif isinstance(prev, ast.AnnAssign):
        targets = [prev.target]
    names = set()
    for t in targets:
        if isinstance(t, ast.Name):
            names.add(t.id)
        elif isinstance(t, ast.Attribute) and isinstance(t.value, ast.Name) and t.value.id == "self":
            names.add(t.attr)
    if isinstance(prev, (ast.FunctionDef, ast.AsyncFunctionDef, ast.ClassDef)) and prev.name == name and prev.body and prev.body[0] is dnode:
        names.add(name)
    if name in names and not first_of_branch:
        return fails        # forwarded from an earlier assignment / property of the same name
    fails.append(("attr-docstring", f"{where}: docstring (line {ds.lineno}) does not follow an assignment of this name"
                                    + (" (first statement of an else/finally block)" if first_of_branch else ""), None))
    return fails


def event_checks(mod, rec):
    """Exactly-once / ordering discipline of the real hook calls (object identity based)."""
    fails = []
    calls = rec.calls
    inst_pos, memb_pos = {}, {}
    for i, (hook, ntype, ln, info) in enumerate(calls):
        if hook in ("on_instance", "on_alias"):
            inst_pos.setdefault(info[0], []).append(i)
        elif hook == "on_members":
            memb_pos.setdefault(info[0], []).append(i)
    _evs, perr = impl_events(calls)
    for e in perr[:3]:
        fails.append(("event-pairing", f"{e[0]} at call {e[1]}", None))

    def rec_walk(o, in_tree_parent_is_container):
        for name, m in o.members.items():
            pos = inst_pos.get(id(m), [])
            if len(pos) != 1:
                fails.append(("event-once", f"{m.path}: announced {len(pos)} times", None))
            else:
                ppos = inst_pos.get(id(o), [])
                if ppos and not ppos[0] < pos[0]:
                    fails.append(("event-order", f"{m.path}: announced before its parent", None))
                mp = memb_pos.get(id(o), [])
                if o.kind.value in ("module", "class"):
                    if len(mp) != 1:
                        fails.append(("event-members", f"{o.path}: members event fired {len(mp)} times", None))
                    elif not pos[0] < mp[0]:
                        fails.append(("event-order", f"{m.path}: announced after its parent's members event", None))
            if not m.is_alias and m.kind.value in ("class", "function"):
                rec_walk(m, True)
    if len(inst_pos.get(id(mod), [])) != 1 or len(memb_pos.get(id(mod), [])) != 1:
        fails.append(("event-once", "module instance/members event not fired exactly once", None))
    rec_walk(mod, True)
    for o in [mod] + [x for _p, x, _q in walk_objects(mod) if not x.is_alias and x.kind.value == "class"]:
        if len(memb_pos.get(id(o), [])) != 1:
            fails.append(("event-members", f"{o.path}: members event fired {len(memb_pos.get(id(o), []))} times", None))
    return fails


def exec_module(src):
    """Execute the module; returns its namespace or None (raised / timed out)."""
    ns = {"__name__": "c01_exec_mod"}
    old = signal.signal(signal.SIGALRM, _alarm)
    signal.alarm(5)
    try:
        exec(compile(src, "<c01>", "exec", dont_inherit=True), ns)
    except BaseException:  # noqa: BLE001
        return None
    finally:
        signal.alarm(0)
        signal.signal(signal.SIGALRM, old)
    return ns


AUTO_MODULE = {"__builtins__", "__name__", "__doc__", "__annotations__", "__warningregistry__"}
AUTO_CLASS = {"__module__", "__qualname__", "__doc__", "__dict__", "__weakref__", "__annotations__", "__firstlineno__", "__static_attributes__",
              "__abstractmethods__", "_abc_impl"}


RUNTIME_LABELS = {"property", "cached", "staticmethod", "classmethod", "abstractmethod"}


def runtime_labels(v):
    """The decorator-derived labels an executed definition shows: what CPython really built there."""
    import functools
    out = set()
    for _ in range(8):           # peel the wrappers one by one
        if getattr(v, "__isabstractmethod__", False):
            out.add("abstractmethod")
        if isinstance(v, (staticmethod, classmethod)):
            out.add(type(v).__name__)
            v = v.__func__
        elif isinstance(v, property):
            out.add("property")
            v = v.fget
        elif isinstance(v, functools.cached_property):
            out |= {"cached", "property"}
            v = v.func
        elif hasattr(v, "cache_info") and hasattr(v, "__wrapped__"):
            out.add("cached")
            v = v.__wrapped__
        else:
            break
    return out


def runtime_checks(case, tree, mod):
    """Names really bound by executing the module (CPython as authority) are members; exports equal the real __all__."""
    import functools
    import types
    fails = []
    global _AMB
    _AMB = ambiguous_heads(tree)
    straight = rebindings_straight(tree, _AMB)
    if "_ns" not in case:
        case["_ns"] = exec_module(case["source"])
    ns = case["_ns"]
    if ns is None:
        return None
    star = any(isinstance(s, ast.ImportFrom) and any(a.name == "*" for a in s.names) for s in ast.walk(tree))

    def level(where, obj, body, runtime_names, get, is_cls):
        sup = supported_bindings(body, class_level=is_cls, path=obj.path, mname=case["mname"], is_init=case["is_init"])
        stored = stored_names(body)
        for name in runtime_names:
            if name in obj.members:
                m = obj.members[name]
                bs = sup.get(name, [])
                if bs and all(b["direct"] and not b["overload"] and not b["accessor"] and b.get("has_value", True) for b in bs) and name in stored and \
                        not any(isinstance(s, (ast.For, ast.With, ast.Try, ast.Match, ast.Delete, ast.AugAssign)) and name in stored_names([s]) for s in body):
                    v = get(name)
                    kind = "alias" if m.is_alias else m.kind.value
                    if kind == "alias":
                        continue
                    # (a class decorator whose spelling is rebound in this module may return anything)
                    if isinstance(v, type) != (kind == "class") and not isinstance(v, types.GenericAlias) and \
                            all(b["kind"] in ("class", "function") for b in bs) and not any(b.get("amb") for b in bs if b["kind"] == "class"):
                        fails.append(("runtime-kind", f"{where}: {name!r} is {kind} but the executed module binds {type(v).__name__}", None))
                    # an assignment may hold any value; and where a decorator spelling is rebound inside a block that may not
                    # run (Griffe visits every branch, by design), the executed module is no authority for that definition
                    from_def = all(b["kind"] == "function" and not (b.get("amb") and not straight) for b in bs)
                    if from_def and isinstance(v, types.FunctionType) and kind not in ("function",):
                        fails.append(("runtime-kind", f"{where}: {name!r} is {kind} but the executed module binds a plain function", None))
                    if from_def and isinstance(v, (property, functools.cached_property)) and kind != "attribute":
                        fails.append(("runtime-kind", f"{where}: {name!r} is {kind} but the executed module binds a {type(v).__name__}", None))
                    # decorator-derived labels vs what CPython really built (a name defined exactly once: no forwarding)
                    if len(bs) == 1 and bs[0]["kind"] == "function" and from_def:
                        got, exp = set(m.labels) & RUNTIME_LABELS, runtime_labels(v)
                        if got != exp:
                            fails.append(("runtime-labels", f"{where}: {name!r} has labels {sorted(got)} but the executed definition is "
                                                            f"{type(v).__name__} showing {sorted(exp)}", None))
                        case["_rt_labels"] = case.get("_rt_labels", 0) + 1
                continue
            if name not in sup:
                continue          # bound by a form Griffe does not support (loop target, with-as, tuple target, star import...)
            if any(b.get("amb") for b in sup[name]):
                continue          # overload / property status not readable off the text here (rebound decorator spelling)
            if all(b["overload"] and not b.get("prop") for b in sup[name]):
                fails.append(("runtime-names", f"{where}: {name!r} (overload-only) bound at runtime, no member", "C01-F6"))
            else:
                fails.append(("runtime-names", f"{where}: {name!r} bound at runtime by a supported statement, no member", None))
    names = [n for n in ns if n not in AUTO_MODULE]
    level("<module>", mod, tree.body, names, lambda n: ns[n], False)
    # classes that are plain top-level statements and still bound to that very class
    for s in tree.body:
        if isinstance(s, ast.ClassDef) and isinstance(ns.get(s.name), type) and s.name in mod.members:
            m = mod.members[s.name]
            dataclass = any("dataclass" in deco_text(d) for d in s.decorator_list)
            if m.is_alias or m.kind.value != "class" or dataclass or m.lineno != (s.decorator_list[0].lineno if s.decorator_list else s.lineno):
                continue
            cls = ns[s.name]
            if getattr(cls, "__qualname__", None) != s.name:
                continue
            level(s.name, m, s.body, [n for n in vars(cls) if n not in AUTO_CLASS], lambda n, c=cls: vars(c)[n], True)
    # what `from m import *` binds in CPython vs is_wildcard_exposed / is_public of the module-level members
    if not star:
        declared = ns.get("__all__") if isinstance(ns.get("__all__"), (list, tuple)) else None
        all_stmts_direct = all(b["direct"] for b in supported_bindings(tree.body).get("__all__", []))
        if (declared is None) == (mod.exports is None) and all_stmts_direct and (declared is None or all(isinstance(e, str) for e in (mod.exports or []))):
            star_names = set(declared) if declared is not None else {n for n in ns if not n.startswith("_")}
            for name, m in mod.members.items():
                if name not in ns or name.endswith("/*") or not m.runtime:
                    continue
                if declared is not None and list(declared) != [e for e in mod.exports]:
                    break
                try:
                    exposed = bool(m.is_wildcard_exposed)
                except Exception as e:  # noqa: BLE001
                    fails.append(("star-import", f"is_wildcard_exposed of {name!r} raises {type(e).__name__}", None))
                    continue
                if exposed != (name in star_names):
                    fails.append(("star-import", f"{name!r}: is_wildcard_exposed={exposed} but `from m import *` {'binds' if name in star_names else 'does not bind'} it", None))
                # without __all__ and for non-imported members, public-by-convention = bound by the star import or special
                if declared is None and not m.is_alias and name not in mod.imports and m.public is None:
                    conv = (not name.startswith("_")) or (name.startswith("__") and name.endswith("__"))
                    if bool(m.is_public) != conv:
                        fails.append(("star-import", f"{name!r}: is_public={m.is_public} but the underscore convention says {conv}", None))
    # exports
    if "__all__" in ns and mod.exports is not None and not star:
        ex = export_items(mod.exports)
        direct_only = all(b["direct"] for b in supported_bindings(tree.body).get("__all__", [])) and not any(
            isinstance(s, ast.AugAssign) and not (isinstance(s.target, ast.Name) and s.target.id == "__all__" and s in tree.body)
            for s in ast.walk(tree) if isinstance(s, ast.AugAssign) and isinstance(s.target, ast.Name) and s.target.id == "__all__")
        # method calls on __all__ as statements: compared only when each is a plain statement of the module body and is
        # `__all__.extend(<one argument>)` / `__all__.append(<one argument>)` (anything else CPython may execute
        # conditionally, in another scope, or with an effect Griffe documents not to follow)
        for s in ast.walk(tree):
            if isinstance(s, ast.Expr):
                c = all_method_call(s)
                if c is not None and c[0] == "__all__" and not (any(s is t for t in tree.body) and c[1] in ("extend", "append")
                                                                and len(s.value.args) == 1 and not s.value.keywords
                                                                and not isinstance(s.value.args[0], ast.Starred)):
                    direct_only = False
        if direct_only and all(e.startswith("s:") for e in ex) and isinstance(ns["__all__"], (list, tuple)):
            case["_exports_compared"] = True
            if [e[2:] for e in ex] != list(ns["__all__"]):
                fails.append(("exports", f"exports {ex} but the executed module has __all__ = {ns['__all__']!r}", None))
    return fails


# ---- visibility: real predicates vs the documented table
PREDICATES = ["is_special", "is_private", "is_class_private", "is_imported", "is_exported", "is_wildcard_exposed", "is_public"]


def vin_of(obj):
    name = obj.name
    parent = obj.parent
    ex = None
    if parent is not None and parent.exports is not None:
        items = [e if isinstance(e, str) else getattr(e, "name", None) for e in parent.exports]
        ex = [[len(parent.exports) > 0, name in parent.exports]]
    is_module = False if obj.is_alias else obj.kind.value == "module"
    return [[] if obj.public is None else [bool(obj.public)], obj.is_alias, is_module, name.startswith("_"), name.startswith("__"),
            name.endswith("__"), parent is not None, bool(parent is not None and parent.kind.value == "module"),
            bool(parent is not None and parent.kind.value == "class"), ex if ex is not None else [],
            bool(parent is not None and name in parent.imports), bool(obj.runtime)]


def real_predicates(obj):
    out = []
    for p in PREDICATES:
        try:
            out.append(bool(getattr(obj, p)))
        except Exception:  # noqa: BLE001
            out.append("raises")
    return out


# =====================================================================================================================
# totality stream: syntactically valid modules over all statement kinds
# =====================================================================================================================
class TGen:
    NAMES = ["a", "b", "c", "x", "_h", "__all__", "__init__", "self", "T", "property", "overload"]
    EXPRS = ["1", "a", "a.b", "a[0]", "f(x)", "(yield)", "lambda x=1, *a, k=2, **kw: x", "[i for i in a]", "{**a}", "a if b else c",
             "(y := 2)", "f'{a!r:>{b}}'", "...", "None", "'s'", "b'x'", "a @ b", "not a", "-a", "a < b < c", "{a: 1}", "{1, 2}", "(1,)",
             "await g()", "[*a, 1]", "a[1:2, ::3]", "TYPE_CHECKING", "typing.TYPE_CHECKING", "os.__all__", "x.__all__ + ['a']",
             # lists of nodes with None placeholders (Dict.keys of a ** entry, kw_defaults of a keyword-only parameter without default)
             "{'a': 1, **a}", "{**a, 'b': 2, **c}", "f(**{'k': 1, **a})", "lambda *, k=1, j: j", "lambda a, *b, c=1, d, e=2: 0", "[{1: 2, **a} for a in b]"]
    DECOS = ["property", "staticmethod", "classmethod", "overload", "typing.overload", "a.b.c", "a[0]", "(lambda f: f)", "x.setter", "x.deleter",
             "functools.cache", "functools.lru_cache(1)", "dataclasses.dataclass", "dataclass(frozen=True)", "f(x)(y)", "abc.abstractmethod",
             "property.setter", "a.setter.deleter", "__init__.setter", "cached_property", "functools.cached_property"]

    def __init__(self, rng):
        self.rng = rng
        self.out = []
        self.kinds = set()

    def e(self, in_async=False):
        x = self.rng.choice(self.EXPRS)
        if ("await" in x and not in_async) or "yield" in x:
            return "1"
        return x

    def n(self):
        return self.rng.choice(self.NAMES)

    def emit(self, ind, s):
        self.out.append("    " * ind + s)

    def block(self, ind, depth, ctx):
        for _ in range(self.rng.randint(1, 3)):
            self.stmt(ind, depth, ctx)

    def stmt(self, ind, depth, ctx):
        """ctx: dict(func=bool, async_=bool, loop=bool, cls=bool)"""
        r = self.rng
        simple = ["assign", "chain", "tuple", "star", "ann", "annval", "annattr", "annsub", "aug", "augall", "allcall", "all", "import", "importfrom", "expr", "doc",
                  "del", "pass", "assert", "global", "raise", "typealias", "walrus", "selfattr"]
        compound = ["def", "asyncdef", "class", "if", "iftc", "for", "while", "with", "try", "trystar", "tryfinally", "match", "init"]
        if ctx["func"]:
            simple += ["return", "nonlocal_safe", "yield"]
        if ctx["loop"]:
            simple += ["break", "continue"]
        if ctx["async_"]:
            compound += ["asyncfor", "asyncwith"]
        kind = r.choice(simple if depth >= 4 or r.random() < 0.55 else compound)
        self.kinds.add(kind)
        e = lambda: self.e(ctx["async_"])  # noqa: E731
        n = self.n
        if kind == "assign":
            self.emit(ind, f"{n()} = {e()}")
        elif kind == "chain":
            self.emit(ind, f"{n()} = {n()}.attr = {n()}[0] = {e()}")
        elif kind == "tuple":
            self.emit(ind, f"{n()}, ({n()}, {n()}.q) = 1, (2, 3)")
        elif kind == "star":
            self.emit(ind, f"{n()}, *{n()} = [1, 2, 3]")
        elif kind == "ann":
            self.emit(ind, f"{n()}: {r.choice(['int', 'ClassVar[int]', 'typing.ClassVar', '\"str\"', 'list[int]', 'a.b'])}")
        elif kind == "annval":
            self.emit(ind, f"{n()}: {r.choice(['int', 'ClassVar[int]', 'Final', '\"ClassVar[int]\"'])} = {e()}")
        elif kind == "annattr":
            self.emit(ind, f"{n()}.{n()}: int = {e()}")
        elif kind == "annsub":
            self.emit(ind, f"({n()}): int = 1" if r.random() < 0.5 else f"{n()}[0]: int")
        elif kind == "aug":
            self.emit(ind, f"{n()} {r.choice(['+=', '-=', '|=', '//='])} {e()}")
        elif kind == "augall":
            self.emit(ind, f"__all__ {r.choice(['+=', '-=', '*='])} {r.choice(['[\"a\"]', 'os.__all__', 'x', '(\"a\",)', 'f()', '[1]'])}")
        elif kind == "allcall":
            self.emit(ind, f"{r.choice(['__all__', '__all__', 'a.__all__', 'f().__all__', 'x'])}.{r.choice(['extend', 'append', 'remove', 'sort'])}"
                           f"({r.choice(['', '[\"a\"]', '\"a\"', 'os.__all__', 'x', '*a', '1', '[1]', 'k=1', '[\"a\"], 2', 'f()', '[a.b.c]'])})")
        elif kind == "all":
            self.emit(ind, f"__all__{r.choice(['', ': list[str]'])} = {r.choice(['[\"a\", \"b\"]', '[]', 'None', 'f()', '[a, *b]', 'x.__all__ + y.__all__', '[1, 2]', '{\"a\"}', '\"ab\"', '[a.b.c]', '[f\"x\"]'])}")
        elif kind == "import":
            self.emit(ind, r.choice(["import a", "import a.b.c", "import a.b.c as d", "import a as __all__, b as self"]))
        elif kind == "importfrom":
            forms = ["from a import b", "from a.b import c as d", "from . import x", "from .. import y as z", "from .m import (p, q as r)",
                     "from __future__ import annotations" if False else "from t import TYPE_CHECKING", "from m import a", "from . import m as m"]
            if ind == 0:
                forms += ["from a import *", "from . import *", "from .sub import *"]
            self.emit(ind, r.choice(forms))
        elif kind == "expr":
            self.emit(ind, e())
        elif kind == "doc":
            self.emit(ind, r.choice(['"""doc"""', "'d'", '""', 'r"""raw"""', '"a" "b"', 'u"u"']))
        elif kind == "del":
            self.emit(ind, f"del {n()}")
        elif kind == "pass":
            self.emit(ind, "pass")
        elif kind == "assert":
            self.emit(ind, f"assert {e()}, 'm'")
        elif kind == "global":
            self.emit(ind, f"global g{r.randint(0, 9)}" if ctx["func"] else "pass")
        elif kind == "raise":
            self.emit(ind, r.choice(["raise", "raise E", "raise E from None"]))
        elif kind == "typealias":
            self.emit(ind, f"type {r.choice(['A', 'B', 'x'])}{r.choice(['', '[T]', '[T: int, *Ts, **P]'])} = {r.choice(['int', 'list[T]'])}")
        elif kind == "walrus":
            self.emit(ind, f"({n()} := {e()})")
        elif kind == "selfattr":
            self.emit(ind, r.choice([f"self.{n()} = {e()}", f"self.{n()}: int = 1", f"self.{n()}.{n()} = 2", f"self.{n()} = {n()} = 3", "self[0] = 1",
                                     f"self.{n()}, self.{n()} = 1, 2", f"cls.{n()} = 1", f"self.{n()} += 1"]))
        elif kind == "return":
            self.emit(ind, f"return {e()}")
        elif kind == "yield":
            self.emit(ind, "yield 1" if not ctx["async_"] or r.random() < 0.5 else "await g()")
        elif kind == "nonlocal_safe":
            self.emit(ind, "pass")
        elif kind in ("break", "continue"):
            self.emit(ind, kind)
        elif kind in ("def", "asyncdef", "init"):
            for _ in range(r.choice([0, 0, 1, 1, 2])):
                self.emit(ind, "@" + r.choice(self.DECOS))
            name = "__init__" if kind == "init" else n()
            tp = r.choice(["", "", "[T]", "[T: (int, str), *Ts]"])
            args = r.choice(["", "self", "self, x, /, y=1, *a, k, **kw", "cls, *, z: int = 2", "this", "x: 'int' = (lambda: 1)()",
                             "self, *, timeout=10, port", "self, *a, k=1, j, m=2, **kw", "self, *, a, b=1"])
            ret = r.choice(["", " -> int", " -> 'str'", " -> None"])
            is_async = kind == "asyncdef" or (kind == "init" and r.random() < 0.1)
            self.emit(ind, f"{'async ' if is_async else ''}def {name}{tp}({args}){ret}:")
            self.block(ind + 1, depth + 1, dict(func=True, async_=is_async, loop=False, cls=False))
        elif kind == "class":
            for _ in range(r.choice([0, 0, 1, 2])):
                self.emit(ind, "@" + r.choice(self.DECOS))
            bases = r.choice(["", "", "(Base)", "(a.B, metaclass=M)", "(*bases, **kw)", "[T](Generic[T])", "(Base[int], x=1)"])
            self.emit(ind, f"class {n()}{bases}:")
            self.block(ind + 1, depth + 1, dict(func=False, async_=False, loop=False, cls=True))
        elif kind in ("if", "iftc"):
            test = r.choice(["TYPE_CHECKING", "typing.TYPE_CHECKING", "not TYPE_CHECKING"]) if kind == "iftc" else e()
            self.emit(ind, f"if {test}:")
            self.block(ind + 1, depth + 1, ctx)
            if r.random() < 0.4:
                self.emit(ind, f"elif {r.choice(['TYPE_CHECKING', e()])}:")
                self.block(ind + 1, depth + 1, ctx)
            if r.random() < 0.5:
                self.emit(ind, "else:")
                self.block(ind + 1, depth + 1, ctx)
        elif kind in ("for", "asyncfor"):
            self.emit(ind, f"{'async ' if kind == 'asyncfor' else ''}for {r.choice(['i', 'a, b', 'self.x', 'x[0]'])} in {e()}:")
            self.block(ind + 1, depth + 1, dict(ctx, loop=True))
            if r.random() < 0.4:
                self.emit(ind, "else:")
                self.block(ind + 1, depth + 1, ctx)
        elif kind == "while":
            self.emit(ind, f"while {e()}:")
            self.block(ind + 1, depth + 1, dict(ctx, loop=True))
            if r.random() < 0.4:
                self.emit(ind, "else:")
                self.block(ind + 1, depth + 1, ctx)
        elif kind in ("with", "asyncwith"):
            self.emit(ind, f"{'async ' if kind == 'asyncwith' else ''}with {r.choice(['a', 'a as b', 'a as (b, c), d as self.e', '(a as b, c)'])}:")
            self.block(ind + 1, depth + 1, ctx)
        elif kind in ("try", "trystar", "tryfinally"):
            self.emit(ind, "try:")
            self.block(ind + 1, depth + 1, ctx)
            inner = dict(ctx, loop=False) if kind == "trystar" else ctx
            if kind != "tryfinally":
                for _ in range(r.randint(1, 2)):
                    star = "*" if kind == "trystar" else ""
                    self.emit(ind, f"except{star} {r.choice(['E', '(E, F) as e', 'E as self_e'])}:")
                    self.block(ind + 1, depth + 1, inner)
                if r.random() < 0.4:
                    self.emit(ind, "else:")
                    self.block(ind + 1, depth + 1, ctx)
            if kind == "tryfinally" or r.random() < 0.4:
                self.emit(ind, "finally:")
                self.block(ind + 1, depth + 1, dict(ctx, loop=False))
        elif kind == "match":
            self.emit(ind, f"match {r.choice(['a', 'a, b', 'f(x)'])}:")
            pats = r.sample(["1", "[x, *rest]", "{'k': v, **kw}", "P(a=1, b=y)", "str() | int() as z", "(a, b) if a"], r.randint(1, 3)) + (["_"] if r.random() < 0.5 else [])
            for pat in pats:
                self.emit(ind + 1, f"case {pat}:")
                self.block(ind + 2, depth + 2, ctx)

    def module(self):
        if self.rng.random() < 0.3:
            self.emit(0, '"""Module."""')
        if self.rng.random() < 0.5:
            self.emit(0, "from typing import overload, TYPE_CHECKING, ClassVar")
        for _ in range(self.rng.randint(1, 6)):
            self.stmt(0, 0, dict(func=False, async_=False, loop=False, cls=False))
        return "\n".join(self.out) + "\n"


def gen_total_case(rng):
    for _ in range(20):
        g = TGen(rng)
        src = g.module()
        try:
            compile(src, "<c01-total>", "exec", dont_inherit=True)
        except SyntaxError:
            continue
        return src, g.kinds
    return "pass\n", {"pass"}


# =====================================================================================================================
# known findings: witnesses (replayed on the implementation on every run) and classifiers
# =====================================================================================================================
WITNESS = {
    "C01-F6": "from typing import overload\n@overload\ndef f(a: int) -> int: ...\n@overload\ndef f(a: str) -> str: ...\n",
}


def replay_witnesses(ctx):
    import griffe
    p = Path(ctx.scratch) / "m.py"

    def visit(src):
        return griffe.visit("m", filepath=p, code=src)
    m = visit(WITNESS["C01-F6"])
    ctx.witness("C01-F6", "f" not in m.members)


# =====================================================================================================================
# source text as a layout tree (Model/C01_layout.v): which physical lines belong to which statement
# =====================================================================================================================
class NotBlockForm(Exception):
    """The source is outside the block-form fragment (a compound statement with its body on the header line, `a; b`)."""


class LayoutBuilder:
    """Cuts a source text into the layout tree of Model/C01_layout.v using CPython's positions.  The check then asks the
    extracted model to render the tree back (must give the text) and to number it (must give CPython's line numbers)."""

    def __init__(self, src, mname, is_init):
        self.lines = src.splitlines()
        self.ab = Abstraction(mname, is_init)
        self.expected_occ = []          # [tag, first, last] in the order of Model.C01_layout.occ_list

    @staticmethod
    def first_line(s):
        return s.decorator_list[0].lineno if getattr(s, "decorator_list", None) else s.lineno

    def cut(self, a, b):
        """lines a..b-1 (1-based)"""
        return self.lines[a - 1:b - 1]

    def items(self, stmts, pos, top=False):
        out = []
        for s in stmts:
            first = self.first_line(s)
            if first < pos:
                raise NotBlockForm(f"line {first}: statement starts on a line already taken")
            lay, pos = self.item(s, self.cut(pos, first), first, top)
            out.append(lay)
        return out, pos

    def block(self, hline, stmts):
        """header lines from hline up to the first statement of the block, then the block"""
        f = self.first_line(stmts[0])
        if f <= hline:
            raise NotBlockForm(f"line {hline}: body on the header line")
        body, pos = self.items(stmts, f)
        return self.cut(hline, f), body, pos

    def keyword_line(self, pos, limit, word):
        for ln in range(pos, limit):
            if self.lines[ln - 1].strip().startswith(word):
                return ln
        raise NotBlockForm(f"no `{word}` line between {pos} and {limit}")

    def sub(self, gap, hline, stmts, handler):
        header, body, pos = self.block(hline, stmts)
        return ["sub", gap, header, handler, body], pos

    def kw_sub(self, pos, stmts, word):
        k = self.keyword_line(pos, self.first_line(stmts[0]), word)
        return self.sub(self.cut(pos, k), k, stmts, False)

    def item(self, s, gap, first, top=False):
        if isinstance(s, (ast.FunctionDef, ast.AsyncFunctionDef, ast.ClassDef)):
            decos = []
            dl = s.decorator_list
            for i, d in enumerate(dl):
                nxt = dl[i + 1].lineno if i + 1 < len(dl) else s.lineno
                if nxt <= d.lineno:
                    raise NotBlockForm("two decorators on one line")
                decos.append([self.ab.deco(d), self.cut(d.lineno, nxt)])
            is_cls = isinstance(s, ast.ClassDef)
            self.expected_occ.append(["class" if is_cls else "function", first, s.end_lineno])
            if not is_cls:
                self.expected_occ.append(["property", s.lineno, s.end_lineno])
            header, body, pos = self.block(s.lineno, s.body)
            if pos != s.end_lineno + 1:
                raise NotBlockForm("end_lineno is not the last line of the body")
            if is_cls:
                return ["class", gap, decos, header, s.name, body], pos
            return ["def", gap, decos, header, s.name, isinstance(s, ast.AsyncFunctionDef), body], pos
        if isinstance(s, ast.If):
            header, body, pos = self.block(s.lineno, s.body)
            tc = tc_code(s.test)
            if not s.orelse:
                return ["if", gap, header, tc, body, [], [], []], pos
            o = s.orelse[0]
            if len(s.orelse) == 1 and isinstance(o, ast.If) and self.lines[o.lineno - 1][o.col_offset:o.col_offset + 4] == "elif":
                orelse, pos = self.items(s.orelse, pos)
                return ["if", gap, header, tc, body, [], [], orelse], pos
            f = self.first_line(o)
            k = self.keyword_line(pos, f, "else")
            egap, eheader = self.cut(pos, k), self.cut(k, f)
            orelse, pos = self.items(s.orelse, f)
            return ["if", gap, header, tc, body, egap, eheader, orelse], pos
        if isinstance(s, (ast.For, ast.AsyncFor, ast.While)):
            c1, pos = self.sub(gap, s.lineno, s.body, False)
            ch = [c1]
            if s.orelse:
                c2, pos = self.kw_sub(pos, s.orelse, "else")
                ch.append(c2)
            return ["block", ch], pos
        if isinstance(s, (ast.With, ast.AsyncWith)):
            c1, pos = self.sub(gap, s.lineno, s.body, False)
            return ["block", [c1]], pos
        if isinstance(s, (ast.Try, getattr(ast, "TryStar", ast.Try))):
            c1, pos = self.sub(gap, s.lineno, s.body, False)
            ch = [c1]
            for h in s.handlers:
                c, pos = self.sub(self.cut(pos, h.lineno), h.lineno, h.body, True)
                ch.append(c)
            if s.orelse:
                c, pos = self.kw_sub(pos, s.orelse, "else")
                ch.append(c)
            if s.finalbody:
                c, pos = self.kw_sub(pos, s.finalbody, "finally")
                ch.append(c)
            return ["block", ch], pos
        if isinstance(s, ast.Match):
            ch = []
            pos = None
            for i, c in enumerate(s.cases):
                if i == 0:
                    cl, pos = self.sub(gap, s.lineno, c.body, False)       # `match` line and first `case` line
                else:
                    k = c.pattern.lineno
                    cl, pos = self.sub(self.cut(pos, k), k, c.body, False)
                ch.append(cl)
            return ["block", ch], pos
        if isinstance(s, ast.Expr) and isinstance(s.value, ast.Constant) and isinstance(s.value.value, str):
            v = s.value
            self.expected_occ.append(["doc", v.lineno, v.end_lineno])
            return ["doc", gap, self.cut(first, v.lineno), self.cut(v.lineno, v.end_lineno + 1), self.cut(v.end_lineno + 1, s.end_lineno + 1)], s.end_lineno + 1
        self.expected_occ.append(["leaf", first, s.end_lineno])
        old = self.ab.stmt(s, top) if isinstance(s, (ast.Assign, ast.AnnAssign, ast.AugAssign, ast.Import, ast.ImportFrom, ast.Expr)) else ["other"]
        return ["leaf", gap, self.cut(first, s.end_lineno + 1), old], s.end_lineno + 1

    def module(self, tree):
        items, pos = self.items(tree.body, 1, top=True)
        return items, self.lines[pos - 1:]


def layout_check(ctx, cases, views):
    """(O) for the layout model: the extracted [render_list] gives back the source text, [number_list] gives CPython's line
    numbers (all four views equal those computed from the ast), [occ_list] lists the spans CPython's positions give, and
    slicing by each of them returns the item's text (what theorem C01_slice_reported_span proves)."""
    todo = []
    for c, view in zip(cases, views):
        if len(view) != 4:
            continue
        try:
            lb = LayoutBuilder(c["source"], c["mname"], c["is_init"])
            items, trailing = lb.module(ast.parse(c["source"]))
        except NotBlockForm as e:
            ctx.observe("layout", "not-block-form")
            ctx.count("layout_skipped")
            continue
        todo.append((c, view, lb, items, trailing))
    outs = ctx.model([["layout", c["mname"], items] for c, _v, _lb, items, _t in todo])
    for (c, view, lb, items, trailing), out in zip(todo, outs):
        small = {"source": c["source"], "is_init": c["is_init"], "mname": c["mname"]}
        if not isinstance(out, list) or len(out) != 4:
            ctx.tie_failure("harness", "layout tree rejected by the model decoder", out, small)
            continue
        text, wf, lviews, occs = out
        ctx.count("layouts_checked")
        ctx.observe("layout", "gaps" if any(True for _ in _gaps(items)) else "no-gaps")
        if text + trailing != c["source"].splitlines():
            ctx.tie_failure("oracle", "render_list (layout tree) vs the source text", first_diff(text + trailing, c["source"].splitlines()), small)
        if wf != 1:
            ctx.tie_failure("oracle", "a layout cut from a real source is not well_formed", None, small)
        if lviews != view:
            ctx.tie_failure("oracle", "number_list (layout tree) vs CPython's line numbers (views from the ast)", first_diff(lviews, view), small)
        got = [[o[0][0], o[1], o[2]] for o in occs]
        if got != lb.expected_occ:
            ctx.tie_failure("oracle", "occ_list (layout tree) vs the spans CPython's positions give", first_diff(got, lb.expected_occ), small)
        bad = [o for o in occs if o[3] != 1]
        if bad:
            ctx.tie_failure("extraction", "slice by a reported span differs from the item text (contradicts C01_slice_reported_span)", bad[:2], small)
        ctx.count("occurrences_sliced", len(occs))


def _gaps(items):
    for it in items:
        if it[0] in ("leaf", "doc", "def", "class", "if", "sub") and it[1]:
            yield it
        if it[0] in ("def", "class"):
            yield from _gaps(it[-1])
        elif it[0] == "if":
            if it[5]:
                yield it
            yield from _gaps(it[4])
            yield from _gaps(it[7])
        elif it[0] == "block":
            yield from _gaps(it[1])
        elif it[0] == "sub":
            yield from _gaps(it[4])


# =====================================================================================================================
# process history: the result of griffe.visit must be a function of the source, whatever was visited before
# =====================================================================================================================
# Static extraction keeps no state between modules, so a module's tree may not depend on the modules visited earlier in
# the same process.  Three pieces keep such history effects covered by construction rather than by luck:
#  * history_stream: sequences of small modules rich in state-carrying features (decorated coroutines, overloads,
#    property/setter idioms, __all__) are visited one after the other in ONE FRESH interpreter, each sequence also in
#    a second order, and every result is compared with the model (order-independent by construction) and the direct checks;
#  * history_triage: whenever any stream sees a failure, the failing module is re-evaluated alone in a fresh interpreter;
#    if it passes there, the failure depends on the history, and the list of modules visited before it is minimised
#    (delta debugging, one fresh interpreter per test) into a self-contained failing HISTORY, which is what gets reported;
#  * replay understands such a history input.
_ISO_COUNTER = itertools.count()


def _entry(case):
    return {"source": case["source"], "mname": case.get("mname", "m"), "is_init": bool(case.get("is_init", False))}


def evaluate_step(step, scratch):
    """Visit one module in this process; when asked, evaluate it against the expected (model) view and the direct checks."""
    c = {"source": step["source"], "mname": step.get("mname", "m"), "is_init": bool(step.get("is_init", False)),
         "executable": bool(step.get("executable", False)), "features": []}
    res = {"raised": None, "view_diff": None, "fails": []}
    try:
        tree = abstract_module(c["source"], c["mname"], c["is_init"])[1]
        mod, rec = run_griffe(c["source"], c["mname"], filepath_for(scratch, c))
    except Exception as e:  # noqa: BLE001
        res["raised"] = f"{type(e).__name__}: {e}"
        return res
    if not step.get("check"):
        return res
    iv, perr = impl_view(mod, rec)
    if step.get("expected") is not None:
        res["view_diff"] = first_diff(step["expected"], json.loads(json.dumps(iv)))
    fails = direct_checks(c, tree, mod, rec) + event_checks(mod, rec)
    if c["executable"]:
        fails += runtime_checks(c, tree, mod) or []
    res["fails"] = [[n, d, f] for n, d, f in fails]
    return res


def _iso_main():
    """Entry point of the fresh interpreter: python -c 'from harness.props import c01; c01._iso_main()' <steps.json>"""
    import warnings
    warnings.simplefilter("ignore")
    data = json.loads(Path(sys.argv[1]).read_text())
    scratch = Path(data["scratch"])
    out = [evaluate_step(st, scratch) for st in data["steps"]]
    sys.stdout.write("\n" + json.dumps(out) + "\n")


def iso_run(scratch, steps, timeout=600):
    """Run the steps in a fresh interpreter (same tree under test); None when the interpreter itself failed."""
    from harness.common.framework import REPO, VERIF
    scratch = Path(scratch)
    scratch.mkdir(parents=True, exist_ok=True)
    p = scratch / f"iso-{os.getpid()}-{next(_ISO_COUNTER)}.json"
    p.write_text(json.dumps({"scratch": str(scratch), "steps": steps}))
    env = dict(os.environ, PYTHONPATH=f"{REPO}/src:{VERIF}", PYTHONHASHSEED="0")
    try:
        r = subprocess.run([sys.executable, "-c", "from harness.props import c01; c01._iso_main()", str(p)],
                           capture_output=True, text=True, env=env, timeout=timeout, cwd=str(VERIF))
    except subprocess.TimeoutExpired:
        return None
    finally:
        p.unlink(missing_ok=True)
    if r.returncode != 0 or not r.stdout.strip():
        return None
    try:
        return json.loads(r.stdout.strip().splitlines()[-1])
    except ValueError:
        return None


def step_failed(res):
    """A step fails when griffe raised, the tree differs from the model's, or a direct check fails outside the known findings."""
    return bool(res["raised"] or res["view_diff"] or any(f[2] is None for f in res["fails"]))


def step_detail(res):
    if res["raised"]:
        return "griffe.visit raised " + res["raised"]
    for n, d, f in res["fails"]:
        if f is None:
            return f"{n}: {d}"
    return "tree differs from the model: " + str(res["view_diff"])


def ddmin(items, test, budget=80, deadline=None):
    """Delta debugging: a small sublist (order kept) on which test() still holds."""
    n = 2
    calls = 0
    while len(items) >= 2:
        if calls >= budget or (deadline is not None and time.time() > deadline):
            break
        chunk = max(1, len(items) // n)
        subsets = [items[i:i + chunk] for i in range(0, len(items), chunk)]
        reduced = False
        for sub in subsets:                       # reduce to a subset
            calls += 1
            if test(sub):
                items, n, reduced = sub, 2, True
                break
        if not reduced and n > 2:
            for i in range(len(subsets)):         # reduce to a complement
                comp = [x for j, sub in enumerate(subsets) if j != i for x in sub]
                calls += 1
                if test(comp):
                    items, n, reduced = comp, max(n - 1, 2), True
                    break
        if not reduced:
            if n >= len(items):
                break
            n = min(len(items), n * 2)
    return items


def history_triage(ctx, target_step, history):
    """Classify a failure seen in-process: ("isolated", None) reproduces alone in a fresh interpreter;
    ("history", [entries]) passes alone but fails after the minimised history; ("unreproducible", None) otherwise."""
    t0 = time.time()
    target = dict(target_step, check=True)
    r = iso_run(ctx.scratch, [target])
    if r is not None and step_failed(r[-1]):
        return "isolated", None, r[-1]
    last = {}

    def test(sub):
        rr = iso_run(ctx.scratch, [dict(_entry(h), check=False) for h in sub] + [target])
        ok = rr is not None and step_failed(rr[-1])
        if ok:
            last["res"] = rr[-1]
        return ok
    hist = []
    seen = set()
    for h in history:                             # a module visited twice counts at its first position
        if h["source"] not in seen:
            seen.add(h["source"])
            hist.append(h)
    if not test(hist):
        return "unreproducible", None, None
    minimal = ddmin(hist, test, deadline=t0 + 240)
    test(minimal)
    ctx.count("history_triage_seconds", int(time.time() - t0))
    return "history", minimal, last.get("res")


def report_history_failure(ctx, case, minimal, res, where):
    ctx.observe("direct_fail", "history-dependent")
    ctx.property_failure({"history": [h["source"] for h in minimal], "history_is_init": [h["is_init"] for h in minimal],
                          "source": case["source"], "is_init": case["is_init"], "mname": case["mname"]},
                         f"history-dependent ({where}): visited alone in a fresh interpreter the module passes; after visiting the "
                         f"{len(minimal)} listed module(s) in the same process: " + (step_detail(res) if res else "it fails"))
    ctx.c01_tainted = True


def history_stream(ctx):
    """Sequences of modules visited in one fresh interpreter, each sequence in two orders; every visit checked."""
    nseq = ctx.budget(24, 240)
    seqs = []
    for i in range(nseq):
        k = ctx.rng.randint(2, 4)
        mods = [gen_case(ctx.rng, i, profile="history") for _ in range(k)]
        second = list(reversed(mods)) if ctx.rng.random() < 0.6 else ctx.rng.sample(mods, k)
        seqs.append(mods + second)
        ctx.case({"history": [m["source"] for m in mods + second]}, True)
        ctx.observe("stream", "history")
        ctx.observe("history_len", 2 * k)
        ctx.observe("history_async_decorated", sum("async-decorated" in m["features"] for m in mods))
        for m in mods:
            for f in m["features"]:
                if f.startswith(("async", "deco:", "property-idiom", "accessor", "__all__")):
                    ctx.observe("history_feature", f)
    flat = [m for sq in seqs for m in sq]
    uniq = {}
    for m in flat:
        uniq.setdefault(m["source"], m)
    keys = list(uniq)
    views, _trees = model_views(ctx, [(k, uniq[k]["mname"], uniq[k]["is_init"]) for k in keys])
    expected = {k: (norm_model_result(v[0]) if len(v) == 4 else None) for k, v in zip(keys, views)}
    steps = [dict(_entry(m), executable=m["executable"], check=True, expected=expected[m["source"]]) for m in flat]
    results = iso_run(ctx.scratch, steps, timeout=900)
    if results is None or len(results) != len(steps):
        ctx.tie_failure("harness", "history stream: the fresh interpreter failed", None, None)
        return
    ctx.count("history_visits", len(steps))
    for j, (m, st, r) in enumerate(zip(flat, steps, results)):
        if not step_failed(r):
            for n, d, f in r["fails"]:
                ctx.property_failure(_entry(m), f"{n}: {d}", f)       # known findings only
            continue
        verdict, minimal, res = history_triage(ctx, st, flat[:j])
        ctx.observe("history_verdict", verdict)
        if verdict == "history":
            report_history_failure(ctx, m, minimal, res, "history stream")
        else:
            small = _entry(m)
            if r["view_diff"] and not r["raised"]:
                ctx.tie_failure("correspondence", "visitor machine (model) vs griffe.visit (history stream)", r["view_diff"], small)
            if r["raised"]:
                ctx.property_failure(small, "griffe.visit raised " + r["raised"])
            for n, d, f in r["fails"]:
                ctx.property_failure(small, f"{n}: {d}" + ("" if verdict == "isolated" else " (seen in a sequence, not reproduced in a fresh interpreter)"), f)
            if verdict == "isolated" and (r["raised"] or any(f is None for _n, _d, f in r["fails"])):
                ctx.c01_tainted = True
        return          # the state of that interpreter is suspect from here on


# =====================================================================================================================
# extension containers with a history (Model/C01_ext.v): registrations and visits interleaved on ONE Extensions object
# =====================================================================================================================
class _Seg:
    def __init__(self, calls):
        self.calls = calls


def run_ext_history(scratch, initial, ops):
    """ops: ["add", id] | ["visit", case].  Returns per visit (module, {id: calls of that recorder during the visit},
    registered ids at that moment, shared (id, hook) log of the visit)."""
    import griffe
    shared = []
    recs = {}

    def rec(i):
        r = Recorder.make()
        r.ext_id, r.shared = i, shared
        recs[i] = r
        return r
    container = griffe.Extensions(*[rec(i) for i in initial])
    registered = list(initial)
    out = []
    for op in ops:
        if op[0] == "add":
            container.add(rec(op[1]))
            registered.append(op[1])
            continue
        c = op[1]
        marks = {i: len(r.calls) for i, r in recs.items()}
        smark = len(shared)
        fp = filepath_for(scratch, c)
        lc = griffe.LinesCollection()
        lc[fp] = c["source"].splitlines()
        HISTORY.append(_entry(c))
        mod = griffe.visit(c["mname"], filepath=fp, code=c["source"], extensions=container, lines_collection=lc)
        out.append((mod, {i: r.calls[marks.get(i, 0):] for i, r in recs.items()}, list(registered), shared[smark:]))
    return out


def ext_history_stream(ctx):
    """Histories on one container: every visit must be announced completely, in order and once to every extension
    registered so far -- also to those added after the container has already served visits -- and in registration order."""
    nh = ctx.budget(30, 300)
    hists = []
    for i in range(nh):
        ids = itertools.count()
        initial = [next(ids) for _ in range(ctx.rng.choice([0, 1, 1, 2]))]
        ops = []
        for j in range(ctx.rng.randint(2, 4)):
            if j > 0 or ctx.rng.random() < 0.3:
                for _ in range(ctx.rng.choice([0, 1, 1, 2])):
                    ops.append(["add", next(ids)])
            ops.append(["visit", gen_case(ctx.rng, i, profile="history")])
        hists.append((initial, ops))
    wire = [["ext-history", initial, [op if op[0] == "add" else ["visit", op[1]["mname"], raw_module(op[1]["source"], op[1]["mname"], op[1]["is_init"])[0]]
                                     for op in ops]] for initial, ops in hists]
    models = ctx.model(wire)
    for (initial, ops), mres in zip(hists, models):
        case = {"ext_history": {"initial": initial, "ops": [op if op[0] == "add" else ["visit", op[1]["source"], op[1]["is_init"]] for op in ops]}}
        ctx.case(case, True)
        ctx.observe("stream", "ext-history")
        ctx.observe("ext_history_shape", "".join("a" if op[0] == "add" else "V" for op in ops) + f"/{len(initial)}")
        try:
            res = run_ext_history(ctx.scratch, initial, ops)
        except Exception as e:  # noqa: BLE001
            ctx.property_failure(case, f"visit with a shared extension container raised {type(e).__name__}: {e}")
            continue
        if not isinstance(mres, list) or len(mres) != len(res):
            ctx.tie_failure("harness", "ext-history: model result malformed", mres, case)
            continue
        for k, ((mod, segs, registered, shared), mvisit) in enumerate(zip(res, mres)):
            mexp = {e: evs for e, evs in mvisit}
            for i, calls in segs.items():
                evs, perr = impl_events(calls)
                if i in registered:
                    ctx.count("ext_visits_received")
                    if len(registered) > len(initial) and i not in initial and k > 0:
                        ctx.observe("branch", "extension-added-after-first-visit")
                    for name, detail, _f in event_checks(mod, _Seg(calls)):
                        ctx.property_failure(case, f"visit {k + 1}, extension {i} (registered {'initially' if i in initial else 'by add()'}): {name}: {detail}")
                    d = first_diff(mexp.get(i), json.loads(json.dumps(evs)))
                    if d or perr:
                        ctx.tie_failure("correspondence", "events received by a registered extension: model (Model/C01_ext.v) vs implementation", d or perr[:2], case)
                elif calls:
                    ctx.property_failure(case, f"visit {k + 1}: extension {i}, not registered yet, received {len(calls)} hook calls")
            if registered:
                first = [h for (i, h) in shared if i == registered[0]]
                if shared != [(i, h) for h in first for i in registered]:
                    ctx.property_failure(case, f"visit {k + 1}: hooks are not delivered to the registered extensions {registered} in registration order, one event at a time")


# =====================================================================================================================
# the lines collection has a history too (Model/C01_lines.v): loads of a file that changes on disk, one shared collection
# =====================================================================================================================
def text_checks(src, mod, label):
    """Spans, Object.lines, Object.source and Docstring.source of every object against the text that was loaded NOW
    (CPython's ast as authority)."""
    fails = []
    lines = src.splitlines()
    tree = ast.parse(src)
    idx = node_index(tree)
    deco_owner = {n.decorator_list[0].lineno: n for n in ast.walk(tree)
                  if isinstance(n, (ast.FunctionDef, ast.AsyncFunctionDef, ast.ClassDef)) and n.decorator_list}
    if list(mod.lines) != lines:
        fails.append(("object-lines", f"{label}: module lines are not the text that was loaded", None))
    for path, obj, _parent in walk_objects(mod):
        if obj.is_alias or not obj.lineno:
            continue        # (a member without span is synthesised by the loader's built-in dataclasses extension: C18)
        where = ".".join(path)
        node = deco_owner.get(obj.lineno) if obj.kind.value in ("function", "class") and obj.lineno in deco_owner else idx.get(obj.lineno)
        if node is None or getattr(node, "end_lineno", None) != obj.endlineno:
            fails.append(("span-origin", f"{label}: {where}: span {obj.lineno}-{obj.endlineno} is the span of no statement of the loaded text", None))
            continue
        sliced = lines[obj.lineno - 1:obj.endlineno]
        if list(obj.lines) != sliced:
            fails.append(("object-lines", f"{label}: {where}: lines are not lines {obj.lineno}-{obj.endlineno} of the loaded text", None))
        if obj.source != textwrap.dedent("\n".join(sliced)):
            fails.append(("object-source", f"{label}: {where}: source is not the dedented text of lines {obj.lineno}-{obj.endlineno} of the loaded text", None))
        ds = obj.docstring
        if ds is not None and ds.lineno is not None:
            try:
                dsrc = ds.source
            except Exception as e:  # noqa: BLE001
                dsrc = f"<raises {type(e).__name__}>"
            if dsrc != "\n".join(lines[ds.lineno - 1:ds.endlineno]):
                fails.append(("docstring-source", f"{label}: {where}: Docstring.source is not lines {ds.lineno}-{ds.endlineno} of the loaded text", None))
    return fails


def run_reload_history(scratch, versions, ops):
    """ops: "load" (a loader of its own), "reload" (same loader as the previous load), "shared" (new loader given the lines
    collection of the previous one); before each op the file holds the next version.  Returns per op the failures."""
    import griffe
    d = Path(scratch) / f"reload-{next(_ISO_COUNTER)}"
    d.mkdir(parents=True, exist_ok=True)
    f = d / "m.py"
    loader = None
    out = []
    for k, (src, op) in enumerate(zip(versions, ops)):
        f.write_text(src, encoding="utf8")
        if op == "load" or loader is None:
            loader = griffe.GriffeLoader(search_paths=[d], allow_inspection=False)
        elif op == "shared":
            loader = griffe.GriffeLoader(search_paths=[d], allow_inspection=False, lines_collection=loader.lines_collection)
        HISTORY.append({"source": src, "mname": "m", "is_init": False})
        try:
            mod = loader.load("m", try_relative_path=False)
        except Exception as e:  # noqa: BLE001
            out.append([("load-raises", f"step {k + 1} ({op}): {type(e).__name__}: {e}", None)])
            continue
        out.append(text_checks(src, mod, f"step {k + 1} ({op})"))
    return out


def reload_stream(ctx):
    """Histories of loads of one file whose text changes in between, with one loader or with loaders sharing a lines
    collection: after every load every span / lines / source / docstring source must be about the text loaded by THAT
    load.  The model side: the collection after any history holds the last text stored for the path (C01_lines_*)."""
    import warnings
    nh = ctx.budget(25, 250)
    wire, hists = [], []
    for i in range(nh):
        n = ctx.rng.randint(2, 3)
        base = gen_case(ctx.rng, i, profile="history")
        versions = [base["source"]]
        for _ in range(n - 1):
            r = ctx.rng.random()
            prev = versions[-1]
            if r < 0.4:        # lines inserted above: everything shifts
                versions.append("\n".join(["# edit"] * ctx.rng.randint(1, 4)) + "\nimport sys as _edit\n" + prev)
            elif r < 0.7:      # another module altogether
                versions.append(gen_case(ctx.rng, i, profile="history")["source"])
            elif r < 0.85:     # lines removed from the top (the preamble's first statement or the docstring goes)
                versions.append("\n".join(prev.splitlines()[1:]) + "\n" if "\n" in prev and _compiles("\n".join(prev.splitlines()[1:]) + "\n") else prev + "x_edit = 1\n")
            else:              # unchanged
                versions.append(prev)
        ops = ["load"] + [ctx.rng.choice(["reload", "reload", "shared", "load"]) for _ in range(n - 1)]
        hists.append((versions, ops))
        wire.append(["lines-history", [["m.py" if op != "load" or k == 0 else "m.py", v.splitlines(), op] for k, (v, op) in enumerate(zip(versions, ops))]])
    models = ctx.model(wire)
    with warnings.catch_warnings():
        warnings.simplefilter("ignore")
        for (versions, ops), mres in zip(hists, models):
            case = {"reload_history": {"versions": versions, "ops": ops}}
            ctx.case(case, True)
            ctx.observe("stream", "reload-history")
            ctx.observe("reload_ops", "/".join(ops))
            # model: after each step the collection holds exactly the text of that step (theorem C01_lines_last_store_wins)
            if mres != [v.splitlines() for v in versions]:
                ctx.tie_failure("oracle", "lines collection model: the text held for the path after each load", first_diff(mres, [v.splitlines() for v in versions]), case)
            for fails in run_reload_history(ctx.scratch, versions, ops):
                ctx.count("reload_loads_checked")
                for name, detail, finding in fails:
                    ctx.property_failure(case, f"{name}: {detail}", finding)


def _compiles(src):
    try:
        compile(src, "<c01-edit>", "exec", dont_inherit=True)
        return True
    except SyntaxError:
        return False


# =====================================================================================================================
# explore
# =====================================================================================================================
def nontrivial_case(case):
    f = set(case["features"])
    return bool(f & {"class", "if", "if-tc", "try", "for", "while", "with", "match", "chained", "init-attr", "accessor"})


def flush_pending(ctx, c, small, expected, hidx, pending, label):
    """Report the failures of one case.  The first few failing cases of a run are first re-evaluated alone in a fresh
    interpreter: a failure that does not reproduce there depends on the modules visited before, and is reported as a
    minimised, self-contained history instead (returns True: the caller stops, this process is tainted)."""
    if not pending:
        return False
    note = " (seen in-process; not re-evaluated in a fresh interpreter)"
    confirmed = False
    # separate budgets: a failure of the property itself is always worth a fresh interpreter; model mismatches only twice
    counter = "c01_triaged" if any(kind == "prop" for kind, _a, _b in pending) else "c01_triaged_ties"
    if getattr(ctx, counter, 0) < (3 if counter == "c01_triaged" else 2):
        setattr(ctx, counter, getattr(ctx, counter, 0) + 1)
        step = dict(_entry(c), executable=c.get("executable", False), expected=expected)
        verdict, minimal, res = history_triage(ctx, step, HISTORY[:hidx])
        ctx.observe("history_verdict", verdict)
        if verdict == "history":
            report_history_failure(ctx, c, minimal, res, label + " stream")
            return True
        if verdict == "unreproducible":
            note = " (seen in-process; not reproduced in a fresh interpreter, alone or after the same history)"
        else:
            # reproduces alone in a fresh interpreter: a self-contained failing input, if the property itself fails on it
            note, confirmed = "", any(kind == "prop" for kind, _a, _b in pending)
    for kind, a, b in pending:
        if kind == "tie":
            ctx.tie_failure("correspondence", a, b, small)
        else:
            ctx.property_failure(small, a + note, b)
    if confirmed:
        ctx.c01_tainted = True                  # one confirmed failing input is enough; later in-process results are suspect
    return confirmed


def check_structural(ctx, cases, label):
    """Model vs implementation, spec vs machine, and the direct checks, on a batch of generated modules."""
    views, trees = model_views(ctx, [(c["source"], c["mname"], c["is_init"]) for c in cases])
    # cross-check of the Coq lowering (raw nodes + regenerated tables) against the harness's own lowering ast -> stmt
    nx = len(cases) if label == "corpus" else min(len(cases), ctx.budget(40, 150))
    old = ctx.model([["views", c["mname"], abstract_module(c["source"], c["mname"], c["is_init"])[0]] for c in cases[:nx]])
    for c, v, o in zip(cases[:nx], views, old):
        ctx.count("lowering_crosschecked")
        if v != o:
            ctx.tie_failure("correspondence", "Coq lowering of raw nodes (Gen/C01_dispatch tables) vs harness lowering ast -> stmt",
                            first_diff(v, o), {"source": c["source"], "is_init": c["is_init"], "mname": c["mname"]})
    layout_check(ctx, cases, views)
    vins = {}
    traces = []
    sources = []            # (Object.lines, Object.source) of every object: the model's dedent must give the source
    for c, tree, view in zip(cases, trees, views):
        if len(view) != 4:
            ctx.tie_failure("correspondence", "raw module not lowered: the regenerated dispatch tables and the node payloads do not fit",
                            view, {"source": c["source"], "is_init": c["is_init"], "mname": c["mname"]})
            continue
        mv, ms, mb, mc = view
        ctx.case({"source": c["source"], "is_init": c["is_init"]}, nontrivial_case(c))
        ctx.observe("stream", label)
        ctx.observe("lines", min(len(c["source"].splitlines()) // 20 * 20, 200))
        for f in c["features"]:
            ctx.observe("feature", f)
        small = {"source": c["source"], "is_init": c["is_init"], "mname": c["mname"]}
        if mv != ms:
            ctx.tie_failure("correspondence", "extracted machine vs extracted level semantics (theorem C01_type_guard_flag)", first_diff(mv, ms), small)
        hidx = len(HISTORY)
        pending = []            # failures of this case, reported once it is known whether they depend on the process history
        try:
            mod, rec = run_griffe(c["source"], c["mname"], filepath_for(ctx.scratch, c))
            iv, perr = impl_view(mod, rec)
        except Timeout:
            ctx.property_failure(small, "griffe.visit did not terminate within 20 s")
            continue
        except Exception as e:  # noqa: BLE001
            mod, rec, perr = None, None, []
            iv = ["err", type(e).__name__]
            ctx.observe("impl_outcome", "raises:" + type(e).__name__)
            pending.append(("prop", f"griffe.visit raised {type(e).__name__}: {e}", None))
        mo = norm_model_result(mv)
        d = first_diff(mo, iv)
        if d:
            pending.append(("tie", "visitor machine (model) vs griffe.visit: members tree / events", d))
            ctx.count("model_impl_mismatch")
        ctx.observe("model_outcome", mo[0] if mo else "?")
        if mod is None:
            if flush_pending(ctx, c, small, mo, hidx, pending, label):
                return
            continue
        ctx.observe("impl_outcome", "ok")
        ctx.observe("events", min(len(rec.calls) // 25 * 25, 300))
        traces.append((iv[5], small))
        content_check(ctx, mc, mod, small)
        for _p, o, _q in walk_objects(mod):
            if not o.is_alias:
                sources.append((list(o.lines), o.source, o.path, small))
        # (O) declarative bindings vs the module level of the implementation: order of first binding, survivor
        if not mb[3]:
            names = mb[1]
            surv = {s[0][0]: s[0] for s in mb[2] if s}
            impl_names = list(mod.members)
            if names != impl_names:
                ctx.tie_failure("oracle", "first_names(level_bindings) vs module member order", {"model": names, "impl": impl_names}, small)
            for n, b in surv.items():
                m = mod.members.get(n)
                if m is None:
                    continue
                kind = "alias" if m.is_alias else m.kind.value
                ln = m.alias_lineno if m.is_alias else m.lineno
                bk = {"property": "attribute"}.get(b[2], b[2])
                if (kind, ln, bool(m.runtime)) != (bk, b[1], not b[4]):
                    ctx.tie_failure("oracle", "survivor(level_bindings) vs module member", {"name": n, "model": b, "impl": [kind, ln, m.runtime]}, small)
        # which rules of the model this input exercises (from the declarative bindings and the result)
        seen_names = {}
        for b in mb[0]:
            if b[0] in seen_names:
                ctx.observe("branch", "rebinding")
                if b[3]:
                    ctx.observe("branch", "conditional-reassign-kept" if b[2] == "attribute" else "conditional-non-attribute-wins")
                elif seen_names[b[0]] != b[2]:
                    ctx.observe("branch", "kind-change:" + seen_names[b[0]] + "->" + b[2])
            if b[4]:
                ctx.observe("branch", "type-guarded-binding")
            seen_names[b[0]] = b[2]
        for _p, o, _q in walk_objects(mod):
            if o.is_alias:
                if o.name.endswith("/*"):
                    ctx.observe("branch", "star-import")
                continue
            if "writable" in o.labels or "deletable" in o.labels:
                ctx.observe("branch", "accessor-attached")
            if o.kind.value == "class" and o.exports is not None:
                ctx.observe("branch", "class-level-__all__")
            if o.kind.value == "attribute" and "instance-attribute" in o.labels and "class-attribute" not in o.labels and o.parent.kind.value == "class":
                ctx.observe("branch", "instance-attribute")
        if mod.exports is not None and ("__all__.extend(" in c["source"] or "__all__.append(" in c["source"]):
            ctx.observe("branch", "exports-with-extend/append-call")
        if mod.exports is not None:
            ctx.observe("branch", "exports:" + ("empty" if not mod.exports else "names" if any(not isinstance(e, str) for e in mod.exports) else "strings"))
        if c["is_init"]:
            ctx.observe("branch", "init-module")
        # direct checks
        fails = direct_checks(c, tree, mod, rec) + event_checks(mod, rec)
        if c["executable"]:
            rt = runtime_checks(c, tree, mod)
            ctx.observe("exec", "failed" if rt is None else "ok")
            if c.get("_exports_vs_binding"):
                ctx.observe("branch", "exports-vs-surviving-binding")
            if c.get("_exports_compared"):
                ctx.observe("branch", "runtime-__all__-compared" + ("-with-extend/append" if "__all__.extend(" in c["source"] or "__all__.append(" in c["source"] else ""))
            fails += rt or []
            # (O) the declarative bindings (spec side of the theorems) vs CPython: every name the executed module binds
            # through a supported statement is a bound name of the level (overload-only names are omitted by definition: F6)
            ns = c.get("_ns")
            if ns is not None and not mb[3]:
                sup = supported_bindings(tree.body, path=c["mname"], mname=c["mname"], is_init=c["is_init"])
                for name in ns:
                    if name in AUTO_MODULE or name not in sup or all(b["overload"] and not b.get("prop") for b in sup[name]):
                        continue
                    if name not in mb[1]:
                        ctx.tie_failure("oracle", "first_names(level_bindings) vs names bound by executing the module", {"name": name, "model": mb[1]}, small)
                ctx.count("oracle_exec_modules")
        for name, detail, finding in fails:
            ctx.observe("direct_fail", name + ("" if finding is None else ":" + finding))
            if finding is None:
                pending.append(("prop", f"{name}: {detail}", None))
            else:
                ctx.property_failure(small, f"{name}: {detail}", finding)
        if flush_pending(ctx, c, small, mo, hidx, pending, label):
            return
        ctx.count("direct_checked")
        for _p, o, _q in list(walk_objects(mod)) + [((), mod, None)]:
            v = vin_of(o)
            key = repr(v)
            if key not in vins:
                vins[key] = (v, real_predicates(o), small, o.path)
    outs = ctx.model([["dedent", ls] for ls, _s, _p, _c in sources])
    for (ls, src_, path_, small_), out in zip(sources, outs):
        ctx.count("object_sources_compared")
        if out and out[0][:1] == " ":
            ctx.observe("branch", "source-keeps-indentation (a less indented line in the span)")
        if any("\t" in l[:len(l) - len(l.lstrip())] for l in ls):
            ctx.observe("branch", "source-with-tab-indented-line")
        if "\n".join(out) != src_:
            ctx.tie_failure("correspondence", "dedent (Model/C01_layout.v) of Object.lines vs Object.source", {"path": path_, "model": out[:6], "impl": src_.split("\n")[:6]}, small_)
    # the recorded traces through the extracted bracket checker (the definition theorem C01_events_well_bracketed is about)
    verdicts = ctx.model([["bracket", t] for t, _c in traces])
    for (t, small), v in zip(traces, verdicts):
        if v != 1:
            ctx.property_failure(small, "event trace recorded from griffe.visit is not well bracketed (extracted checker)")
    ctx.count("traces_bracket_checked", len(traces))
    check_visibility(ctx, list(vins.values()))


def check_visibility(ctx, items):
    """items: (vin, real predicate values, case, path)."""
    outs = ctx.model([["vis", v] for v, _r, _c, _p in items])
    for (v, real, case, path), out in zip(items, outs):
        gen, doc, consistent = out
        ctx.count("visibility_inputs")
        ctx.observe("vis_parent", "none" if not v[6] else "module" if v[7] else "class" if v[8] else "other")
        if not consistent:
            ctx.tie_failure("harness", "vin_consistent rejects an input taken from a live object", v, case)
            continue
        gen_n = [g if g == "raises" else bool(g) for g in gen]
        if gen_n != real:
            ctx.tie_failure("correspondence", "generated visibility ladders vs real predicates", {"vin": v, "model": gen_n, "impl": real, "path": path}, case)
        for name, r, d in zip(PREDICATES, real, doc):
            if r == "raises" or bool(r) != bool(d):
                finding = None
                ctx.observe("direct_fail", "visibility:" + name + ("" if finding is None else ":" + finding))
                ctx.property_failure(dict(case, path=path, predicate=name), f"{name} of {path} is {r}, documented table says {bool(d)}", finding)


def synthetic_visibility(ctx):
    """Exhaustive small space of hand-built objects for the visibility predicates."""
    import griffe
    items = {}
    names = ["x", "_x", "__x", "__x__", "_", "__", "x__", "_x__", "_x___", "___", "x_", "__x_"]
    for name in names:
        for pkind in ("none", "module", "class"):
            for exports in (None, [], [name], ["other"], ["other", name]):
                if pkind != "module" and exports is not None:
                    continue
                for imported in (False, True):
                    if pkind == "none" and imported:
                        continue
                    for okind in ("function", "attribute", "module", "class", "alias"):
                        for public in (None, True, False):
                            for runtime in (True, False):
                                parent = None
                                if pkind == "module":
                                    parent = griffe.Module("pkg")
                                    parent.exports = None if exports is None else list(exports)
                                elif pkind == "class":
                                    parent = griffe.Class("K")
                                    griffe.Module("pkg").set_member("K", parent)
                                if okind == "function":
                                    o = griffe.Function(name, runtime=runtime)
                                elif okind == "attribute":
                                    o = griffe.Attribute(name, runtime=runtime)
                                elif okind == "class":
                                    o = griffe.Class(name, runtime=runtime)
                                elif okind == "module":
                                    if not runtime:
                                        continue
                                    o = griffe.Module(name)
                                else:
                                    o = griffe.Alias(name, "elsewhere." + name, runtime=runtime)
                                if parent is not None:
                                    parent.set_member(name, o)
                                    if imported:
                                        parent.imports[name] = "elsewhere." + name
                                o.public = public
                                v = vin_of(o)
                                items.setdefault(repr(v), (v, real_predicates(o), {"synthetic": [name, pkind, exports, imported, okind, public, runtime]},
                                                                 o.path if (parent is not None or not o.is_alias) else o.name))
    check_visibility(ctx, list(items.values()))
    ctx.count("synthetic_visibility_objects", len(items))


def check_totality(ctx, n):
    import warnings
    cases = []
    with warnings.catch_warnings():
        warnings.simplefilter("ignore")
        for _ in range(n):
            src, kinds = gen_total_case(ctx.rng)
            cases.append((src, kinds))
        views, _trees = model_views(ctx, [(src, "m", False) for src, _k in cases])
        mvis = [v[0] if len(v) == 4 else ["err", "unlowered"] for v in views]
        for (src, kinds), mv in zip(cases, mvis):
            ctx.case({"source": src}, len(kinds) > 3)
            ctx.observe("stream", "totality")
            for k in kinds:
                ctx.observe("total_kind", k)
            try:
                run_griffe(src, "m", Path(ctx.scratch) / "m.py", record=False)
                outcome = "ok"
            except Timeout:
                outcome = "timeout"
            except RecursionError:
                outcome = "RecursionError"
            except Exception as e:  # noqa: BLE001
                outcome = type(e).__name__
            ctx.observe("total_outcome", outcome)
            model_outcome = "ok" if mv and mv[0] == "ok" else (mv[1] if mv and mv[0] == "err" else "?")
            if model_outcome != outcome:
                ctx.tie_failure("correspondence", "outcome class (model vs griffe.visit) on the totality stream", {"model": model_outcome, "impl": outcome}, {"source": src})
            if outcome != "ok":
                ctx.property_failure({"source": src}, f"griffe.visit raised {outcome} on a syntactically valid module")


def corpus_cases():
    d = Path(__file__).resolve().parents[2] / "corpus" / "C01"
    out = []
    if d.is_dir():
        for p in sorted(d.glob("*.py")):
            src = p.read_text()
            out.append({"source": src, "mname": "m", "is_init": p.stem.endswith("_init"), "executable": "# executable" in src.split("\n", 1)[0],
                        "features": ["corpus", "class", "if"]})
    return out


def explore(ctx):
    replay_witnesses(ctx)
    check_doc_table(ctx)
    corpus = corpus_cases()
    if corpus:
        check_structural(ctx, corpus, "corpus")
    synthetic_visibility(ctx)
    ext_history_stream(ctx)
    reload_stream(ctx)
    if not getattr(ctx, "c01_tainted", False) and not ctx.prop_failures:
        history_stream(ctx)
    n = ctx.budget(700, 9000)
    batch = 350
    done = 0
    while done < n and not getattr(ctx, "c01_tainted", False):
        cases = [gen_case(ctx.rng, done + i) for i in range(min(batch, n - done))]
        ctx.rng.shuffle(cases)
        check_structural(ctx, cases, "structural")
        done += len(cases)
    if getattr(ctx, "c01_tainted", False):
        ctx.notes.append("a failing input was confirmed in a fresh interpreter (alone or as a minimised history): the remaining streams were skipped")
        return
    check_totality(ctx, ctx.budget(400, 5000))
    if not ctx.quick:
        sample = []
        for _ in range(30):
            c = gen_case(ctx.rng, 0)
            if len(c["source"].splitlines()) < 40:
                sample.append(["raw", "m", raw_module(c["source"], "m", c["is_init"])[0]])
        ctx.cross_check_extraction(sample[:12])


def search(ctx):
    """A tie broke and no failing input is known: evaluate the property on the implementation alone over a wider space."""
    import warnings
    for i in range(4000):
        c = gen_case(ctx.rng, i)
        small = {"source": c["source"], "is_init": c["is_init"], "mname": c["mname"]}
        ctx.evaluations += 1
        try:
            tree = abstract_module(c["source"], c["mname"], c["is_init"])[1]
            mod, rec = run_griffe(c["source"], c["mname"], filepath_for(ctx.scratch, c))
        except Exception as e:  # noqa: BLE001
            ctx.property_failure(small, f"griffe.visit raised {type(e).__name__}: {e}")
            if ctx.prop_failures:
                return
            continue
        fails = direct_checks(c, tree, mod, rec) + event_checks(mod, rec)
        if c["executable"]:
            fails += runtime_checks(c, tree, mod) or []
        if any(f is None for _n, _d, f in fails) and getattr(ctx, "c01_triaged", 0) < 5:
            ctx.c01_triaged = getattr(ctx, "c01_triaged", 0) + 1
            verdict, minimal, res = history_triage(ctx, dict(_entry(c), executable=c["executable"], expected=None), HISTORY[:-1])
            if verdict == "history":
                report_history_failure(ctx, c, minimal, res, "search")
                return
        for name, detail, finding in fails:
            ctx.property_failure(small, f"{name}: {detail}", finding)
        if ctx.prop_failures:
            return
    with warnings.catch_warnings():
        warnings.simplefilter("ignore")
        for _ in range(3000):
            src, _k = gen_total_case(ctx.rng)
            ctx.evaluations += 1
            try:
                run_griffe(src, "m", Path(ctx.scratch) / "m.py", record=False)
            except Exception as e:  # noqa: BLE001
                ctx.property_failure({"source": src}, f"griffe.visit raised {type(e).__name__}")
                if ctx.prop_failures:
                    return


def replay(ctx, data):
    case = data.get("failing_input") or {}
    if case.get("reload_history"):
        h = case["reload_history"]
        ctx.scratch.mkdir(parents=True, exist_ok=True)
        print("detail:", data.get("detail"))
        for k, (fails, op) in enumerate(zip(run_reload_history(ctx.scratch, h["versions"], h["ops"]), h["ops"])):
            print(f"step {k + 1} ({op}, {len(h['versions'][k].splitlines())} lines):", "ok" if not fails else fails[:3])
        return 0
    if case.get("ext_history"):
        h = case["ext_history"]
        ops = [op if op[0] == "add" else ["visit", {"source": op[1], "mname": "m", "is_init": bool(op[2])}] for op in h["ops"]]
        ctx.scratch.mkdir(parents=True, exist_ok=True)
        print("detail:", data.get("detail"))
        print("initial extensions:", h["initial"])
        k = 0
        res = iter(run_ext_history(ctx.scratch, h["initial"], ops))
        for op in ops:
            if op[0] == "add":
                print("add extension", op[1])
            else:
                k += 1
                mod, segs, registered, _sh = next(res)
                print(f"visit {k} ({len(op[1]['source'].splitlines())} lines): registered {registered}; hook calls received:", {i: len(c) for i, c in segs.items()})
        return 0
    src = case.get("source")
    if not src:
        print("replay names no input:", data.get("no_longer_checks"))
        return 0
    print(src)
    print("detail:", data.get("detail"))
    c = {"source": src, "mname": case.get("mname", "m"), "is_init": case.get("is_init", False), "executable": True, "features": []}
    ctx.scratch.mkdir(parents=True, exist_ok=True)
    if case.get("history"):
        # a history-dependent failure: the module alone, then after the recorded history, each in a fresh interpreter
        expected = None
        if ctx.driver is not None:
            expected = norm_model_result(model_views(ctx, [(src, c["mname"], c["is_init"])])[0][0][0])
        target = dict(_entry(c), executable=False, check=True, expected=expected)
        inits = case.get("history_is_init") or [False] * len(case["history"])
        hist = [{"source": h, "mname": "m", "is_init": bool(i), "check": False} for h, i in zip(case["history"], inits)]
        for k, h in enumerate(hist):
            print(f"--- history module {k + 1}:")
            print(h["source"])
        alone = iso_run(ctx.scratch, [target])
        after = iso_run(ctx.scratch, hist + [target])
        print("alone, fresh interpreter:", "FAILS: " + step_detail(alone[-1]) if alone and step_failed(alone[-1]) else "passes")
        print("after the history, fresh interpreter:", "FAILS: " + step_detail(after[-1]) if after and step_failed(after[-1]) else "passes")
        return 0
    try:
        tree = abstract_module(src, c["mname"], c["is_init"])[1]
        mod, rec = run_griffe(src, c["mname"], filepath_for(ctx.scratch, c))
    except Exception as e:  # noqa: BLE001
        print("griffe.visit raises", type(e).__name__, e)
        return 0
    for f in direct_checks(c, tree, mod, rec) + event_checks(mod, rec) + (runtime_checks(c, tree, mod) or []):
        print("direct check:", f)
    if ctx.driver is not None:
        mo = norm_model_result(model_views(ctx, [(src, c["mname"], c["is_init"])])[0][0][0])
        iv, _ = impl_view(mod, rec)
        print("model vs impl:", first_diff(mo, iv))
    return 0
