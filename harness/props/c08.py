"""C08 — JSON serialisation round-trips without loss.

(T) Gen/C08_tables.v regenerated from expressions.py (dataclass fields), enumerations.py, models.py, encoders.py;
    Gen/C08_text_tables.v from CPython's json / str (string escapes, white space, str.isspace on Latin-1) and from
    mixins.py / models.py / cli.py (json.dumps keywords of as_json and of cli.dump, the full-only keys of as_dict)
(C) model enc_min / decode / reload (links, docstring cleaning, enum fields)  vs  as_json / from_json on live trees
    (generated packages incl. alias chains and wildcard placeholders, both agents, namespace / builtin modules, hand-built
    trees, sub-objects as roots, single expressions), as JSON values and as exact text (dumps);
    model enc_fullD (derived values computed from the base fields and the working directory) vs as_json(full=True) from
    several working directories; the full form of the tree reloaded from the minimal form; model decode vs json_decoder
    on documents damaged at the dict level, loads+decode vs json.loads(object_hook) on documents damaged at the character
    level; dumps / loads vs json.dumps / json.loads on random values and texts; dumps_cli vs the text `griffe dump` prints
(O) model clean  vs  inspect.cleandoc(s.rstrip()); model pure paths vs pathlib.PurePosixPath
direct: as_json succeeds and is JSON; from_json succeeds; the re-encoding is the identical text; field-by-field
    equivalence; names resolve to the same canonical paths; `griffe dump` (subprocess, griffe.main, griffe.dump) prints
    {package: as_dict} for every designation of the package, and what is loaded back from its output has the same outline.
"""
from __future__ import annotations

import dataclasses
import inspect
import json
import os
import subprocess
import sys
from pathlib import Path

from harness.common.framework import REPO
from harness.translate import c08_tables

ID = "C08"
LEVEL_TEXT = ("Theorems over all trees (modules, classes, functions, attributes, aliases, decorators, docstrings, parameters, expression dataclasses "
              "of the regenerated table at any depth; strings are sequences of code points below 256). Minimal mode: every tree satisfying the "
              "representation invariant `rep` - with or without line numbers, regular / namespace / builtin file paths, any member names - decodes to "
              "exactly `reload t`, an explicit function (C08_decode_enc_min); `reload t` re-encodes to the identical JSON unless a docstring is not a "
              "fixpoint of cleandoc (C08_reencode_identical, C08_roundtrip_min), agrees with t on every serialised field up to parent links "
              "(C08_equiv_fields), and is t itself when no name has a foreign parent (C08_names_resolve_modulo_known; after the repairs of the loader "
              "the gap needs a parent that is neither the scope, the preceding name of a dotted chain, nor \"str\" - another object (F11) or none "
              "at all, as for names bound by a comprehension or lambda (F14): C08_fixed_links, C08_refuted_links_other, C08_refuted_links_local). Full mode with the derived values COMPUTED by the model from the serialised base fields and the working "
              "directory (path, filepath, relative_filepath, relative_package_filepath via a model of PurePosixPath.relative_to/parent, parsed = one "
              "text section): the full document decodes to the same `reload t` (C08_full_decode_derived), the reloaded tree gives the identical full "
              "document from the same place (C08_full_derived_stable, C08_roundtrip_full_derived), and the tree reloaded from the MINIMAL document has "
              "the full document of the original (C08_full_from_minimal); for trees with a docstring parser the older theorems with the derived "
              "values as parameters remain (C08_full_decode, C08_roundtrip_full). Text level: dumps = json.dumps (default separators, ensure_ascii), "
              "loads = json.loads as a recursive-descent reader; loads (dumps j) = j for every JSON term (C08_loads_dumps), hence Module.from_json "
              "(as_json t) at the level of texts in both modes (C08_text_decode_min/_full, C08_text_roundtrip_min/_full); the command line's format "
              "(indent=2, sort_keys, newline) reads back as the key-sorted document (C08_loads_dumps_cli); json.loads with the object hook called "
              "while reading equals the decoding of the printed document, errors included (C08_loads_hook_dumps, C08_hook_decode); the two documented entry points, Cls.from_json and json.loads(object_hook=json_decoder), "
              "build the same tree on every dump, parent links included, and the dictionary of packages written by `griffe dump` loads through the "
              "bare hook to the reloaded packages (C08_entry_points_agree, C08_entry_points_on_dump, C08_packages_doc_loads; the body of from_json "
              "is shape-checked by the translator, the two real entry points are compared on every generated tree and CLI output); the expression "
              "gap is characterised without the loader: an expression comes back unchanged iff its links are canonical (C08_links_exact, "
              "C08_gap_expr_exact, C08_names_resolve_canonical). The model's string escapes, JSON white "
              "space, str.isspace on Latin-1 and the full-only keys are proved equal to tables regenerated from CPython / models.py on every run "
              "(C08_text_tables_agree). Computed `_refuted` witnesses for the remaining findings (F4, F6, F11, F14), each replayed on the "
              "implementation; the witnesses of the repaired defects round-trip (C08_fixed_witnesses, C08_fixed_links). Ties: differential runs on "
              "generated packages (visit with/without resolved aliases incl. alias chains, paths through aliases, cycles, unexpandable wildcard "
              "placeholders; forced inspection), namespace packages (one and two portions, every working directory), builtin modules, hand-built "
              "trees, objects other than a package as the root of a dump, trees with a docstring parser, 1500+ expressions, documents damaged at the "
              "dict level and at the character level, JSON texts, pure paths, and `griffe dump` as a subprocess and through griffe.main / griffe.dump "
              "in process, compared as JSON values AND as exact text with the model's printers, in both modes.")
LEVEL_NOTE = ("Trusted: Coq kernel, extraction, translator harness/translate/c08_tables.py, the abstraction live object -> model tree in this module "
              "(incl. Path.cwd().parts and str(Path) as the model's path strings: pathlib's normalisation is assumed idempotent; `//` roots and "
              "Windows paths are outside), first-binding-wins dict lookup (documents never repeat a key). json.loads calls the object hook while it "
              "reads: modelled (loads_hook, C08_loads_hook_dumps) and compared on character-damaged documents incl. which error comes first; "
              "texts in which a damaged brace repeats a key inside one object are skipped (Python keeps the last value). Floats, "
              "NaN/Infinity and \\u escapes above U+00FF are outside the text model (reported as unmodelled, never as a value); strings with code "
              "points above U+00FF are outside the tree model (such trees get the direct checks only). A docstring parser and its options are not "
              "serialised, so a full dump made with a parser re-derives plain text sections: for such trees the full form is checked up to decoding. "
              "Alias.as_json is a proxy for the target's as_json: aliases are not used as roots of a dump. A class that is the ROOT of a document has "
              "its own decorators and bases attached to itself by _load_class (not modelled; links blanked in the comparison). sort_keys on the "
              "command line reorders members alphabetically: the tree reloaded from `griffe dump` output is compared as an outline (paths, kinds, "
              "alias targets), not in member order. Name *resolution* is C04's subject: the theorems carry every name's parent link, equality of "
              "canonical paths before/after is checked on the implementation per name occurrence. Fields that are never serialised (imports, "
              "exports, runtime, public, deprecated, extra, overloads, property setters/deleters) are outside the statement. set_member name clashes "
              "and ill-typed expression fields are outside the model (EUnmodelled).")
MODEL = ("Model.C08_run", "run_C08")
MODEL_TARGETS = ["Model/C08_run.vo"]
COQ_TARGETS = ["Proofs/C08_json.vo", "Proofs/C08_full.vo", "Proofs/C08_text.vo", "Proofs/C08_text_tables.vo", "Proofs/C08_links.vo", "Proofs/C08_hook.vo", "Proofs/C08_entry.vo"]
RULE = ("seeded random packages (imports incl. wildcard and TYPE_CHECKING, re-export chains, imports through a module alias, a cyclic re-export, "
        "an unresolvable import and a wildcard import from a distribution that is not on the search paths, __all__, attributes with "
        "annotations/values/docstrings, functions with every parameter kind, annotations, defaults, decorators, overloads, properties, classes "
        "with bases/decorators/nested classes/__init__ attributes, docstring shapes incl. non-idempotent ones and Latin-1 text with NEL / "
        "no-break space, members named kind/cls) loaded by visit with and without resolve_aliases (implicit or exported only) and by forced "
        "inspection (incl. annotation objects without a Python repr); the full form taken from five working directories; namespace packages; "
        "builtin modules; hand-built trees with every expression dataclass incl. those the builders never emit; sub-objects as roots; trees with a "
        "docstring parser; expressions from a grammar over all ast expression nodes wrapped in a one-function module; documents damaged by key "
        "deletion/renaming/value replacement/chain-element replacement, and by character deletion/insertion; random JSON values and texts; random "
        "pure paths. non-trivial = the tree has at least one expression or docstring; distinct by canonical abstraction")
TRUSTED = ["translator harness/translate/c08_tables.py (whitelisted AST shapes; fails closed)"]
ASSUMPTIONS = ["strings are sequences of code points below 256 (the model's str.rstrip/lstrip know str.isspace on Latin-1; the table is regenerated)",
               "file paths are POSIX paths already normalised by pathlib"]
TRANSLATOR_NAME = "harness/translate/c08_tables.py"


def translate(ctx):
    c08_tables.translate(ctx)


# =====================================================================================================
# abstraction: live object -> model term (python value for the sexp protocol)

class Unabstractable(Exception):
    pass


def _ascii(s: str) -> str:
    """a string the model can hold: code points below 256 (the model's strings are sequences of such code points)."""
    if not isinstance(s, str):
        raise Unabstractable(f"not a string: {type(s).__name__}")
    if any(ord(c) > 255 for c in s):
        raise Unabstractable("string with code points above U+00FF")
    return s


def _opt(v):
    return [] if v is None else [v]


def abs_ev(v, scope, prev=None):
    import griffe
    if v is None:
        return ["none"]
    if isinstance(v, bool):
        return ["bool", v]
    if isinstance(v, griffe.ParameterKind):
        return ["enum", v.value]
    if isinstance(v, int):
        return ["int", v]
    if isinstance(v, str):
        return ["str", _ascii(v)]
    if isinstance(v, (list, tuple)):
        return ["list", [abs_ev(x, scope) for x in v]]
    if isinstance(v, griffe.ExprName):
        p = v.parent
        if p is None:
            link = 0
        elif scope is not None and p is scope:
            link = 1
        elif isinstance(p, griffe.ExprName) and prev is not None and p is prev:
            link = 2
        elif isinstance(p, str):
            link = 3
        else:
            link = 4
        return ["name", _ascii(v.name), link]
    if isinstance(v, griffe.Expr):
        fields = []
        for f in sorted(dataclasses.fields(v), key=lambda f: f.name):
            if f.name == "parent":
                continue
            x = getattr(v, f.name)
            if isinstance(v, griffe.ExprAttribute) and f.name == "values" and isinstance(x, list):
                out, last = [], None
                for el in x:
                    out.append(abs_ev(el, scope, last))
                    if isinstance(el, griffe.ExprName):
                        last = el
                fields.append([f.name, ["list", out]])
            else:
                fields.append([f.name, abs_ev(x, scope)])
        return ["node", type(v).__name__, fields]
    raise Unabstractable(f"value of type {type(v).__name__} in an expression")


def abs_doc(d):
    return [_ascii(d.value), _opt(d.lineno), _opt(d.endlineno)]


def abs_deco(d, scope):
    return [abs_ev(d.value, scope), _opt(d.lineno), _opt(d.endlineno)]


def abs_param(p, scope):
    return [_ascii(p.name), abs_ev(p.annotation, scope), _opt(None if p.kind is None else p.kind.value), abs_ev(p.default, scope),
            [] if p.docstring is None else [abs_doc(p.docstring)]]


def abs_fpath(fp):
    return ["none"] if fp is None else ["list", [_ascii(str(p)) for p in fp]] if isinstance(fp, list) else ["str", _ascii(str(fp))]


def root_context(obj, cwd):
    """where the object to be serialised sits (Model/C08_full.v fctx): parts of the working directory, file path of the
    top-level package and of the enclosing module (absent for a parentless root), dotted path of the parent."""
    parent = obj.parent
    pkg, mod, prefix = [], [], ""
    if parent is not None:
        prefix = _ascii(parent.path)
        try:
            mod = [abs_fpath(parent.module._filepath)]
            pkg = [abs_fpath(parent.package._filepath)]
        except ValueError:
            pkg, mod = [], []
    return [[_ascii(x) for x in Path(cwd).parts], pkg, mod, prefix]


def abs_tree(obj):
    import griffe
    if isinstance(obj, griffe.Alias):
        return ["alias", _ascii(obj.name), _ascii(obj.target_path), _opt(obj.alias_lineno), _opt(obj.alias_endlineno)]
    scope = obj.parent
    if isinstance(obj, griffe.Module):
        x = ["module", abs_fpath(obj._filepath)]
    elif isinstance(obj, griffe.Class):
        x = ["class", [abs_ev(b, scope) for b in obj.bases], [abs_deco(d, scope) for d in obj.decorators]]
    elif isinstance(obj, griffe.Function):
        x = ["function", [abs_deco(d, scope) for d in obj.decorators], [abs_param(p, scope) for p in obj.parameters], abs_ev(obj.returns, scope)]
    elif isinstance(obj, griffe.Attribute):
        x = ["attribute", abs_ev(obj.value, scope), abs_ev(obj.annotation, scope)]
    else:
        raise Unabstractable(type(obj).__name__)
    for lab in obj.labels:
        _ascii(lab)
    return ["obj", _ascii(obj.name), _opt(obj.lineno), _opt(obj.endlineno), [] if obj.docstring is None else [abs_doc(obj.docstring)],
            sorted(obj.labels), [[_ascii(k), abs_tree(m)] for k, m in obj.members.items()], x]


# ---- JSON text <-> the model's json term (ordered)
def py_json(text: str):
    def conv(v):
        if v is None:
            return ["n"]
        if isinstance(v, bool):
            return ["b", v]
        if isinstance(v, int):
            return ["i", v]
        if isinstance(v, str):
            return ["s", v]
        if isinstance(v, list):
            return ["a", [conv(x) for x in v]]
        if isinstance(v, _Pairs):
            return ["o", [[k, conv(x)] for k, x in v.pairs]]
        raise Unabstractable(f"json value {type(v).__name__}")
    return conv(json.loads(text, object_pairs_hook=_Pairs))


class _Pairs:
    def __init__(self, pairs):
        self.pairs = pairs


def norm_model(v):
    """model output -> comparable python value (sexp bools come back as ints)"""
    if isinstance(v, list):
        if len(v) == 2 and v[0] == "b":
            return ["b", bool(v[1])]
        return [norm_model(x) for x in v]
    return v


def norm_abs(v):
    if isinstance(v, bool):
        return int(v)
    if isinstance(v, list):
        return [norm_abs(x) for x in v]
    return v


def json_term_to_py(t):
    tag = t[0]
    if tag == "n":
        return None
    if tag == "b":
        return bool(t[1])
    if tag in ("i", "s"):
        return t[1]
    if tag == "a":
        return [json_term_to_py(x) for x in t[1]]
    return {k: json_term_to_py(v) for k, v in t[1]}


# =====================================================================================================
# direct evaluation of the property on the implementation, and classification of failures

EXC = {"KeyError": "KeyError", "TypeError": "TypeError", "ValueError": "ValueError", "AttributeError": "AttributeError",
       "BuiltinModuleError": "BuiltinModuleError"}


def exc_tag(e: BaseException) -> str:
    n = type(e).__name__
    if n == "KeyError":
        return "KeyError:" + str(e.args[0]) if e.args else "KeyError:"
    return EXC.get(n, "other:" + n)


def walk_exprs(obj):
    """(slot label, expression, attached-by-loader?) for every expression slot of a non-alias object."""
    import griffe
    if isinstance(obj, griffe.Class):
        for i, b in enumerate(obj.bases):
            yield f"bases[{i}]", b, True
        for i, d in enumerate(obj.decorators):
            yield f"decorators[{i}]", d.value, True
    elif isinstance(obj, griffe.Function):
        for i, d in enumerate(obj.decorators):
            yield f"decorators[{i}]", d.value, True
        for p in obj.parameters:
            yield f"parameters[{p.name}].annotation", p.annotation, True
            yield f"parameters[{p.name}].default", p.default, True
        yield "returns", obj.returns, True
    elif isinstance(obj, griffe.Attribute):
        yield "value", obj.value, True
        yield "annotation", obj.annotation, True


def names_of(e, out, depth=0, top_attr=False):
    """pre-order ExprName occurrences with (name object, depth, position info); mirrors abs_ev's traversal order."""
    import griffe
    if isinstance(e, griffe.ExprName):
        out.append((e, depth))
    elif isinstance(e, griffe.Expr):
        for f in sorted(dataclasses.fields(e), key=lambda f: f.name):
            if f.name == "parent":
                continue
            names_of(getattr(e, f.name), out, depth + 1)
    elif isinstance(e, (list, tuple)):
        for x in e:
            names_of(x, out, depth)
    return out


def abs_names(t, out):
    """pre-order ["name", n, link] occurrences of an abstracted expression."""
    if isinstance(t, list) and t:
        if t[0] == "name":
            out.append(t)
        elif t[0] == "list":
            for x in t[1]:
                abs_names(x, out)
        elif t[0] == "node":
            for _, v in t[2]:
                abs_names(v, out)
    return out


def canon(name):
    try:
        return name.canonical_path
    except Exception as e:  # noqa: BLE001
        return "!" + type(e).__name__


def has_nonpk_lambda(e) -> bool:
    import griffe
    if isinstance(e, griffe.ExprParameter):
        return e.kind is not griffe.ParameterKind.positional_or_keyword or has_nonpk_lambda(e.default)
    if isinstance(e, griffe.Expr):
        return any(has_nonpk_lambda(getattr(e, f.name)) for f in dataclasses.fields(e) if f.name != "parent")
    if isinstance(e, (list, tuple)):
        return any(has_nonpk_lambda(x) for x in e)
    return False


def abs_slots(t):
    """abstracted expression slots of an abstracted object, in walk_exprs order."""
    x = t[7]
    if x[0] == "class":
        return list(x[1]) + [d[0] for d in x[2]]
    if x[0] == "function":
        out = [d[0] for d in x[1]]
        for p in x[2]:
            out += [p[1], p[3]]
        return out + [x[3]]
    if x[0] == "attribute":
        return [x[1], x[2]]
    return []


def link_finding(slot: str, attached: bool, depth: int, old: int, new: int, top_is_attr: bool):
    """which known defect explains a parent link that the model says changes (old -> new): since the loader re-attaches
    every name of every slot and re-links dotted chains and attributes of string literals, only a parent that was
    some other object (a Function, for the values of attributes assigned in methods) cannot come back."""
    if old == 4:
        return "C08-F11"
    if old == 0 and new == 1:
        return "C08-F14"     # a name bound by the expression itself (comprehension target, lambda parameter) had no parent: it gets the scope
    return None


def compare_objects(ctx, case, a, b, ta, tb, tm, path, mode_note, names=True):
    """Field-by-field equivalence of the original object a and the reloaded b.
    ta/tb: their abstractions, tm: the model's predicted reload of ta (None if the model was not run)."""
    import griffe
    where = ".".join(path)

    def fail(what, detail, finding=None):
        ctx.property_failure(dict(case, where=where, what=what), detail, finding=finding)
        ctx.observe("field_difference", f"{what}:{finding or 'UNEXPLAINED'}")

    if isinstance(a, griffe.Alias) != isinstance(b, griffe.Alias) or type(a) is not type(b):
        fail("kind", {"old": type(a).__name__, "new": type(b).__name__})
        return
    if a.name != b.name:
        fail("name", {"old": a.name, "new": b.name})
    if isinstance(a, griffe.Alias):
        if a.target_path != b.target_path:
            fail("alias target", {"old": a.target_path, "new": b.target_path})
        if (a.alias_lineno, a.alias_endlineno) != (b.alias_lineno, b.alias_endlineno):
            fail("alias span", {"old": [a.alias_lineno, a.alias_endlineno], "new": [b.alias_lineno, b.alias_endlineno]})
        return
    if a.kind is not b.kind:
        fail("kind", {"old": a.kind.value, "new": b.kind.value})
    if (a.lineno, a.endlineno) != (b.lineno, b.endlineno):
        fail("span", {"old": [a.lineno, a.endlineno], "new": [b.lineno, b.endlineno]})
    if a.labels != b.labels:
        fail("labels", {"old": sorted(a.labels), "new": sorted(b.labels)})

    def cmp_doc(da, db, ma, what):
        if (da is None) != (db is None):
            fail(what, {"old": da is not None, "new": db is not None})
        elif da is not None:
            if (da.lineno, da.endlineno) != (db.lineno, db.endlineno):
                fail(what + " span", {"old": [da.lineno, da.endlineno], "new": [db.lineno, db.endlineno]})
            if da.value != db.value:
                predicted = ma is not None and ma and ma[0][0] == db.value
                fail(what + " value", {"old": da.value, "new": db.value}, finding="C08-F6" if predicted else None)
    cmp_doc(a.docstring, b.docstring, None if tm is None else tm[4], "docstring")
    if isinstance(a, griffe.Function):
        if [p.name for p in a.parameters] != [p.name for p in b.parameters] or [p.kind for p in a.parameters] != [p.kind for p in b.parameters]:
            fail("parameters", {"old": [str(p) for p in a.parameters], "new": [str(p) for p in b.parameters]})
        else:
            for i, (pa, pb) in enumerate(zip(a.parameters, b.parameters)):
                cmp_doc(pa.docstring, pb.docstring, None if tm is None else tm[7][2][i][4], f"parameter {pa.name} docstring")
                if pa.required != pb.required:
                    fail("parameter required", {"name": pa.name})
    if isinstance(a, griffe.Module) and a._filepath != b._filepath:
        fail("filepath", {"old": str(a._filepath), "new": str(b._filepath)})
    # expressions
    sa, sb = list(walk_exprs(a)), list(walk_exprs(b))
    if [s[0] for s in sa] != [s[0] for s in sb]:
        fail("expression slots", {"old": [s[0] for s in sa], "new": [s[0] for s in sb]})
    else:
        xa = abs_slots(ta) if ta is not None else [None] * len(sa)
        xm = abs_slots(tm) if tm is not None else [None] * len(sa)
        for (slot, ea, attached), (_, eb, _), ma_, mm_ in zip(sa, sb, xa, xm):
            if isinstance(ea, griffe.Expr) != isinstance(eb, griffe.Expr) or (not isinstance(ea, griffe.Expr) and ea != eb):
                fail("expression " + slot, {"old": repr(ea), "new": repr(eb)})
                continue
            if not isinstance(ea, griffe.Expr):
                continue
            ctx.count("expression_slots_compared")
            if str(ea) != str(eb):
                fail("expression text " + slot, {"old": str(ea), "new": str(eb)})
            elif type(ea) is not type(eb):
                fail("expression class " + slot, {"old": type(ea).__name__, "new": type(eb).__name__})
            na, nb = names_of(ea, []), names_of(eb, [])
            if [n.name for n, _ in na] != [n.name for n, _ in nb]:
                fail("expression names " + slot, {"old": [n.name for n, _ in na], "new": [n.name for n, _ in nb]})
                continue
            la = abs_names(ma_, []) if ma_ is not None else None
            lm = abs_names(mm_, []) if mm_ is not None else None
            prev_fid = None
            for i, ((n1, d1), (n2, _)) in enumerate(zip(na, nb) if names else ()):
                c1, c2 = canon(n1), canon(n2)
                ctx.count("names_compared")
                if c1 != c2:
                    fid = None
                    if la is not None and lm is not None and i < len(la) and i < len(lm):
                        if la[i][2] != lm[i][2]:
                            fid = link_finding(slot, attached, d1, la[i][2], lm[i][2], isinstance(ea, griffe.ExprAttribute))
                        elif la[i][2] == 2 and i > 0 and n1.parent is na[i - 1][0] and n2.parent is nb[i - 1][0]:
                            fid = prev_fid          # the link to the preceding name of the dotted chain is intact: the difference is inherited
                    prev_fid = fid
                    fail("name resolution " + slot, {"name": n1.name, "old": c1, "new": c2, "expression": str(ea)}, finding=fid)
                    ctx.observe("name_resolution", fid or "UNEXPLAINED")
                else:
                    prev_fid = None
                    ctx.observe("name_resolution", "same")
    # members
    if list(a.members) != list(b.members):
        fail("members", {"old": list(a.members), "new": list(b.members)})
        return
    for i, (k, ma) in enumerate(a.members.items()):
        compare_objects(ctx, case, ma, b.members[k], None if ta is None else ta[6][i][1], None if tb is None else tb[6][i][1],
                        None if tm is None else tm[6][i][1], path + [k], mode_note, names)


def tree_stats(t, acc):
    if t[0] == "alias":
        acc["alias"] = acc.get("alias", 0) + 1
        return acc
    acc[t[7][0]] = acc.get(t[7][0], 0) + 1
    if t[4]:
        acc["docstring"] = acc.get("docstring", 0) + 1
    for s in abs_slots(t):
        if s[0] in ("node", "name"):
            acc["expr"] = acc.get("expr", 0) + 1
    for _, m in t[6]:
        tree_stats(m, acc)
    return acc


def expr_classes_in(t, acc):
    if isinstance(t, list) and t:
        if t[0] == "node":
            acc.add(t[1])
            for _, v in t[2]:
                expr_classes_in(v, acc)
        elif t[0] == "name":
            acc.add("ExprName")
        elif t[0] == "list":
            for x in t[1]:
                expr_classes_in(x, acc)
        elif t[0] == "obj":
            for s in abs_slots(t):
                expr_classes_in(s, acc)
            for _, m in t[6]:
                expr_classes_in(m, acc)
    return acc


def has_builtin_module(t) -> bool:
    if t[0] != "obj":
        return False
    return (t[7][0] == "module" and t[7][1] == ["none"]) or any(has_builtin_module(m) for _, m in t[6])


def py_gaps(t) -> dict:
    """features of an abstracted tree that used to make decoding fail (fixed findings F1, F2, F3, F5): recorded in the
    input distribution so that one sees they are generated."""
    g = {"lineno": False, "filepath": False, "memberkey": False, "has_doc": False}

    def walk(t):
        if t[0] == "alias":
            if not t[3] or t[3][0] == 0:
                g["lineno"] = True
            return
        x = t[7]
        if x[0] == "module":
            if x[1][0] != "str":
                g["filepath"] = True
        elif not t[2]:
            g["lineno"] = True
        if t[4] or (x[0] == "function" and any(p[4] for p in x[2])):
            g["has_doc"] = True
        keys = [k for k, _ in t[6]]
        if "cls" in keys or "kind" in keys:
            g["memberkey"] = True
        for _, m in t[6]:
            walk(m)
    walk(t)
    return g


def full_info(obj, prefix=""):
    """the derived full-mode values of every object, keyed by dotted path (parameters of the model's enc_full)."""
    import griffe
    out = []
    if isinstance(obj, griffe.Alias):
        return out
    path = f"{prefix}.{obj.name}" if prefix else obj.name

    def prop(name):
        try:
            v = getattr(obj, name)
        except griffe.BuiltinModuleError:
            return []
        return [py_json(json.dumps(v, cls=griffe.JSONEncoder))]

    def sections(doc):
        res = []
        for s in doc.parsed:
            d = json.loads(json.dumps(s, cls=griffe.JSONEncoder, full=True))
            res.append([d["kind"], _opt(d.get("title")), py_json(json.dumps(d["value"]))])
        return res
    psecs = []
    if isinstance(obj, griffe.Function):
        psecs = [[p.name, sections(p.docstring)] for p in obj.parameters if p.docstring is not None]
    out.append([path, prop("filepath"), prop("relative_filepath"), prop("relative_package_filepath"),
                sections(obj.docstring) if obj.docstring is not None else [], psecs])
    for m in obj.members.values():
        out += full_info(m, path)
    return out


ENC_FINDING = {"BuiltinModuleError": "C08-F4"}


def blank_links(t):
    """an abstracted expression / slot list with every name's parent link erased (used for the decorators and bases of a
    root class, which _load_class attaches to the class itself until the class becomes a member of something)."""
    if isinstance(t, list) and t:
        if t[0] == "name":
            return ["name", t[1], 0]
        return [blank_links(x) for x in t]
    return t


def blank_root_class(t):
    if t is not None and t[0] == "obj" and t[7][0] == "class":
        t = list(t)
        x = list(t[7])
        x[1] = blank_links(x[1])
        x[2] = blank_links(x[2])
        t[7] = x
    return t


def pick_cwd(ctx, obj, every=False):
    """working directories from which the full form is taken: above the package (relative paths), inside it, unrelated."""
    import griffe
    cands = [(os.getcwd(), "harness cwd (above)"), (str(ctx.scratch), "scratch root (above)"), ("/usr", "unrelated")]
    fp = obj._filepath if isinstance(obj, griffe.Module) else None
    if isinstance(fp, Path):
        cands += [(str(fp.parent), "directory of the file"), (str(fp.parent.parent), "parent of that directory")]
    elif isinstance(fp, list) and fp:
        cands += [(str(fp[0]), "a namespace portion"), (str(fp[0].parent), "parent of a namespace portion")]
    cands = [c for c in cands if os.path.isdir(c[0])]
    return cands if every else [ctx.rng.choice(cands)]


def check_tree(ctx, obj, case, modes=(False, True), stream="?", parser=False, every_cwd=False):
    """All checks for one live tree (a loaded package, or any object of one: `parser` says that its docstrings carry a
    docstring parser, in which case the parsed sections of the full form are read from the live objects)."""
    import griffe
    ctx.observe("stream", stream)
    is_root_module = isinstance(obj, griffe.Module) and obj.parent is None      # names can only resolve as before in a whole package
    load = type(obj).from_json
    if not obj.is_alias:
        alias_features(ctx, obj)
    try:
        ta = abs_tree(obj)
    except Unabstractable as e:
        ta = None
        ctx.observe("unabstractable", str(e)[:40])
    mres = None
    if ta is not None:
        mres = ctx.model([["tree", norm_abs(ta)]])[0]
        if mres == ["bad-input"]:
            ctx.tie_failure("harness", "abstraction rejected by the model's decoder", {"tree": ta}, case)
            mres = None
    st = tree_stats(ta, {}) if ta is not None else {}
    for k, v in st.items():
        ctx.observe("node_kinds", k, v)
    if ta is not None:
        for c in expr_classes_in(ta, set()):
            ctx.observe("expr_classes", c)
        if any(ord(ch) > 126 for ch in json.dumps(ta, ensure_ascii=False)):
            ctx.observe("tree_features", "latin-1 strings beyond ASCII")
    ctx.case(dict(case, shape=st), bool(st.get("expr") or st.get("docstring")))
    flags = None
    g_doc = False
    if mres is not None:
        m_json, m_dec, flags, m_reload, m_text = norm_model(mres[0]), mres[1], mres[2], mres[3], mres[4]
        rep, g_doc, g_expr, has_doc, canonical = flags
        if rep and bool(g_expr) == bool(canonical):
            ctx.tie_failure("correspondence", "model: gap_expr t <> negb (canon_tree t) on a live tree (C08_gap_expr_exact)", {"flags": flags}, case)
        pg = py_gaps(ta) if ta[0] == "obj" else {"lineno": False, "filepath": False, "memberkey": False, "has_doc": False}
        ctx.observe("model_flags", f"rep={rep} doc={g_doc} expr={g_expr}")
        ctx.observe("tree_features", f"no-lineno={int(pg['lineno'])} filepath-not-str={int(pg['filepath'])} member-kind/cls={int(pg['memberkey'])} docstring={int(pg['has_doc'])}")
        if not rep:
            ctx.tie_failure("correspondence", "a live tree violates the model's representation invariant `rep`", {"flags": flags}, case)
        # C08_decode_enc_min: every rep tree decodes, in the model
        if rep and m_dec[0] == "err":
            ctx.tie_failure("correspondence", "model: a rep tree does not decode", {"flags": flags, "decode": m_dec[:2]}, case)
    home = os.getcwd()
    for full in modes:
        mode = "full" if full else "min"
        for cwd, label in (pick_cwd(ctx, obj, every_cwd) if full else [(home, "")]):
            if full:
                ctx.observe("full_cwd", label)
            os.chdir(cwd)
            try:
                _check_tree_mode(ctx, obj, case, full, mode, cwd, ta, mres, flags, g_doc, load, is_root_module, parser)
            finally:
                os.chdir(home)
    return ta, flags


def _check_tree_mode(ctx, obj, case, full, mode, cwd, ta, mres, flags, g_doc, load, is_root_module, parser):
    import griffe
    if mres is not None:
        m_json, m_dec, m_reload, m_text = norm_model(mres[0]), mres[1], mres[3], mres[4]
    else:
        m_json = m_dec = m_reload = m_text = None
    derived = full and ta is not None and not parser       # the model computes the derived values itself
    mf = mf_full = None
    if full and ta is not None:
        mf = ctx.model([["fullD", root_context(obj, cwd), norm_abs(ta)] if derived else ["full", full_info(obj), norm_abs(ta)]])[0]
        if mf == ["bad-input"]:
            ctx.tie_failure("harness", "full-mode input rejected by the model's decoder", {}, case)
            mf = None
        mf_full = mf if derived else None
    # (a) serialisation succeeds and is JSON
    try:
        j = obj.as_json(full=full)
        json.loads(j)
    except Exception as e:  # noqa: BLE001
        tag = exc_tag(e)
        known = mf is not None and mf[0] == "enc-err" and mf[1] == tag      # the faithful model fails in the same way
        ctx.property_failure(dict(case, mode=mode, cwd=cwd, step="as_json"), {"exception": tag, "message": str(e)[:200]},
                             finding=ENC_FINDING.get(tag) if known else None)
        ctx.observe("outcome", f"{mode}:encode-raises:{tag}")
        if mf is not None and not known:
            ctx.tie_failure("correspondence", "enc_full(model) vs as_json(full=True) failure", {"model": mf[:2], "impl": tag, "cwd": cwd}, case)
        return
    # (C) encoder, as a JSON value and as text
    if not full and mres is not None:
        if py_json(j) != m_json:
            ctx.tie_failure("correspondence", "enc_min(model) vs as_json()", _first_diff(m_json, py_json(j)), case)
        elif m_text != j:
            ctx.tie_failure("correspondence", "dumps(enc_min t) (model, text) vs as_json()", _first_text_diff(m_text, j), case)
    if full and mf is not None:
        if mf[0] != "ok" or norm_model(mf[1]) != py_json(j):
            ctx.tie_failure("correspondence", "enc_full(model) vs as_json(full=True)",
                            dict(_first_diff(norm_model(mf[1]), py_json(j)), cwd=cwd) if mf[0] == "ok" else {"model": mf[:2], "cwd": cwd}, case)
            mf = None
        elif derived and mf[4] != j:
            ctx.tie_failure("correspondence", "dumps(enc_full t) (model, text) vs as_json(full=True)", _first_text_diff(mf[4], j), case)
    m_decoded = m_dec if not full else (mf[2] if mf is not None else None)
    # (b) decoding succeeds
    try:
        obj2 = load(j)
    except Exception as e:  # noqa: BLE001
        tag = exc_tag(e)
        ctx.observe("outcome", f"{mode}:decode-raises:{tag}")
        if m_decoded is not None and (m_decoded[0] != "err" or m_decoded[1] != tag):
            ctx.tie_failure("correspondence", f"decode(model) vs from_json ({mode})", {"model": m_decoded[:2], "impl": tag}, case)
        ctx.property_failure(dict(case, mode=mode, step="from_json"), {"exception": tag, "message": str(e)[:200]}, finding=None)
        return
    if m_decoded is not None and m_decoded[0] != "tree":
        ctx.tie_failure("correspondence", f"decode(model) fails but from_json succeeds ({mode})", {"model": m_decoded[:2]}, case)
        m_decoded = None
    # (c) identical re-encoding
    tb = None
    try:
        tb = abs_tree(obj2)
    except Unabstractable:
        pass
    check_entry_points(ctx, case, mode, j, obj2, tb, load)
    if not full and mres is not None and ta is not None and ta[0] == "obj":
        # (C) the model's two entry points on the real text: Cls.from_json and the wrong class
        kind = ta[7][0]
        other = "class" if kind != "class" else "module"
        mo = ctx.model([["from-json", kind, j], ["from-json", other, j], ["from-json", "object", j]])
        if mo[0] != m_dec or mo[2] != m_dec:
            ctx.tie_failure("correspondence", "from_json_text (model, on the text of as_json) vs decode (enc_min t) (model)", {"model": mo[0][:1]}, case)
        wrong = {"module": griffe.Module, "class": griffe.Class}[other]
        try:
            wrong.from_json(j)
            impl_wrong = ["ok"]
        except Exception as e:  # noqa: BLE001
            impl_wrong = ["err", exc_tag(e)]
        if mo[1][:2] != impl_wrong:
            ctx.tie_failure("correspondence", "from_json_text of another class (model) vs Cls.from_json", {"model": mo[1][:2], "impl": impl_wrong}, case)
    if m_decoded is not None and tb is not None:
        got, want = norm_abs(tb), m_decoded[1]
        if obj.parent is not None:
            got, want = blank_root_class(got), blank_root_class(want)
        if got != want:
            ctx.tie_failure("correspondence", f"decoded tree (model) vs abstraction of from_json ({mode})", _first_diff(want, got), case)
    if full and (parser or obj.parent is not None):
        # a docstring parser is not serialised (the parsed sections are re-derived as plain text), and an object dumped
        # without its parents cannot re-derive its path and file paths: the full form is compared up to here only
        ctx.observe("outcome", "full:decoded (re-encoding not applicable)")
        compare_objects(ctx, dict(case, mode=mode), obj, obj2, ta, tb, m_reload, [obj.name], mode, names=is_root_module)
        return
    try:
        j2 = obj2.as_json(full=full)
    except Exception as e:  # noqa: BLE001
        ctx.property_failure(dict(case, mode=mode, step="re-encode"), {"exception": exc_tag(e), "message": str(e)[:200]})
        ctx.observe("outcome", f"{mode}:reencode-raises")
        return
    # what the model says the reloaded tree serialises to (exact prediction, as text)
    if not full:
        m_again = m_decoded[2] if m_decoded is not None else None
        predicted = m_again is not None and norm_model(m_again) == py_json(j2)
        m_before, m_after = m_json, (norm_model(m_again) if m_again is not None else None)
    else:
        m_again = mf[3] if mf is not None and mf[3][0] == "ok" else None
        predicted = m_again is not None and m_again[2] == j2
        m_before, m_after = (norm_model(mf_full[1]) if mf_full is not None and mf_full[0] == "ok" else None), (norm_model(mf_full[3][1]) if mf_full is not None and mf_full[0] == "ok" and mf_full[3][0] == "ok" else None)
    if j2 != j:
        # attributed to the docstring finding only when the model changes the document at the same positions, from and to
        # the same values (whatever else may be wrong with the tree under test)
        same = g_doc and m_before is not None and m_after is not None and same_change(m_before, m_after, py_json(j), py_json(j2))
        ctx.property_failure(dict(case, mode=mode, step="re-encoding differs"), _first_diff(py_json(j), py_json(j2)),
                             finding="C08-F6" if same else None)
        ctx.observe("outcome", f"{mode}:reencoding-differs")
    else:
        ctx.observe("outcome", f"{mode}:identical")
        if m_again is not None and not predicted:
            ctx.tie_failure("correspondence", f"re-encoding of the reloaded tree (model) vs implementation ({mode})", {}, case)
    # (c') across the modes: the tree reloaded from the minimal document gives the full document of the original
    if full and not parser:
        try:
            jx = load(obj.as_json()).as_json(full=True)
        except Exception as e:  # noqa: BLE001
            ctx.property_failure(dict(case, mode="min->full", step="full form of the tree reloaded from the minimal form"), {"exception": exc_tag(e)})
            jx = None
        if jx is not None and jx != j:
            pred = g_doc and mf_full is not None and mf_full[0] == "ok" and mf_full[3][0] == "ok" \
                and same_change(norm_model(mf_full[1]), norm_model(mf_full[3][1]), py_json(j), py_json(jx))
            ctx.property_failure(dict(case, mode="min->full", step="full form of the tree reloaded from the minimal form differs"),
                                 _first_diff(py_json(j), py_json(jx)), finding="C08-F6" if pred else None)
            ctx.observe("outcome", "min->full:differs")
        elif jx is not None:
            ctx.observe("outcome", "min->full:identical")
            if g_doc is False and derived and mf is not None and (mf[3][0] != "ok" or mf[3][2] != jx):
                ctx.tie_failure("correspondence", "enc_full (reload t) (model) vs full form of the tree reloaded from the minimal form", {}, case)
    # (d) field-by-field equivalence and name resolution
    tm = None
    if mres is not None and m_reload is not None:
        tm = m_reload
        if not full and m_decoded is not None and m_decoded[1] != m_reload:
            ctx.tie_failure("correspondence", "reload(model) differs from decode(enc_min) (model)", {}, case)
    compare_objects(ctx, dict(case, mode=mode), obj, obj2, ta, tb, tm, [obj.name], mode, names=is_root_module)


def term_diffs(a, b, path="$", out=None):
    """every position where two JSON terms differ, with both values: {path: (a-part, b-part)}."""
    out = {} if out is None else out
    if a == b:
        return out
    if isinstance(a, list) and isinstance(b, list) and a and b and a[0] == b[0] and a[0] in ("a", "o") and len(a[1]) == len(b[1]):
        if a[0] == "o" and [k for k, _ in a[1]] != [k for k, _ in b[1]]:
            out[path] = (_short(a), _short(b))
            return out
        for i, (x, y) in enumerate(zip(a[1], b[1])):
            if a[0] == "o":
                term_diffs(x[1], y[1], f"{path}.{x[0]}", out)
            else:
                term_diffs(x, y, f"{path}[{i}]", out)
        return out
    out[path] = (_short(a), _short(b))
    return out


def same_change(model_before, model_after, impl_before, impl_after) -> bool:
    """the model reproduces the failure: it changes the document at the same positions, from and to the same values."""
    d = term_diffs(impl_before, impl_after)
    return bool(d) and d == term_diffs(model_before, model_after)


def all_canon(obj, out=None):
    """the canonical path of every name occurrence of every expression of a tree, in traversal order."""
    out = [] if out is None else out
    if obj.is_alias:
        return out
    for slot, e, _ in walk_exprs(obj):
        for n, _ in names_of(e, []):
            out.append(canon(n))
    for m in obj.members.values():
        all_canon(m, out)
    return out


def check_entry_points(ctx, case, mode, j, obj2, tb, load_cls):
    """json.loads(text, object_hook=json_decoder) -- the usage documented in json_decoder's docstring and the only way to
    load the dictionary `griffe dump` writes -- must build the very tree Cls.from_json builds: same fields, same parent
    link of every name, same canonical paths (C08_entry_points_on_dump)."""
    import griffe
    try:
        obj3 = json.loads(j, object_hook=griffe.json_decoder)
    except Exception as e:  # noqa: BLE001
        ctx.property_failure(dict(case, mode=mode, step="json.loads(text, object_hook=json_decoder)"), {"exception": exc_tag(e), "message": str(e)[:200]})
        return
    ctx.count("entry_points_compared")
    if type(obj3) is not type(obj2):
        ctx.property_failure(dict(case, mode=mode, step="entry points: from_json vs json.loads(object_hook=json_decoder)"),
                             {"from_json": type(obj2).__name__, "object_hook": type(obj3).__name__})
        return
    try:
        t3 = norm_abs(abs_tree(obj3))
    except Unabstractable:
        t3 = None
    if t3 is not None and tb is not None and t3 != norm_abs(tb):
        ctx.property_failure(dict(case, mode=mode, step="entry points: from_json vs json.loads(object_hook=json_decoder)"),
                             dict(_first_diff(norm_abs(tb), t3), note="model = from_json, impl = object_hook; trees incl. the parent link of every name"))
        return
    c2, c3 = all_canon(obj2), all_canon(obj3)
    if c2 != c3:
        i = next((k for k, (x, y) in enumerate(zip(c2, c3)) if x != y), min(len(c2), len(c3)))
        ctx.property_failure(dict(case, mode=mode, step="entry points: names resolve differently in the tree built by json.loads(object_hook=json_decoder)"),
                             {"from_json": c2[i:i + 3], "object_hook": c3[i:i + 3]})


def _first_text_diff(a: str, b: str):
    i = next((k for k, (x, y) in enumerate(zip(a, b)) if x != y), min(len(a), len(b)))
    return {"at_char": i, "model": a[max(0, i - 30):i + 40], "impl": b[max(0, i - 30):i + 40]}


def _first_diff(a, b, path="$"):
    if type(a) is not type(b):
        return {"at": path, "model": _short(a), "impl": _short(b)}
    if isinstance(a, list):
        for i, (x, y) in enumerate(zip(a, b)):
            if x != y:
                return _first_diff(x, y, f"{path}[{i}]")
        if len(a) != len(b):
            return {"at": path, "model_len": len(a), "impl_len": len(b), "model": _short(a), "impl": _short(b)}
        return {}
    return {} if a == b else {"at": path, "model": _short(a), "impl": _short(b)}


def _short(v):
    s = json.dumps(v, default=str)
    return s if len(s) < 300 else s[:300] + "..."


# =====================================================================================================
# generators: expressions, annotations, docstrings, modules, packages

LOCAL_NAMES = ["Foo", "Bar", "helper", "CONST", "hh", "osp", "typing", "List", "Optional", "Dict", "sub", "T", "missing"]


_GEN_REJECTS = [0]


def _parses(src: str, mode: str = "eval") -> bool:
    import ast
    try:
        ast.parse(src, mode=mode)
    except SyntaxError:
        return False
    return True


def gen_expr(rng, depth=0, ctx_yield=False):
    """source text of a random expression covering every ast expression node Griffe maps."""
    r = rng.random()
    if depth > 2 or r < 0.25:
        k = rng.randrange(9)
        if k < 4:
            return rng.choice(LOCAL_NAMES)
        return rng.choice(["1", "'s'", "None", "...", "b'x'", "1.5", "True", "\"q'q\"", "-1", "'\xe9t\xe9'", "'a\\tb\\x7f'"])
    e = lambda: gen_expr(rng, depth + 1)
    k = rng.randrange(27)
    if k == 0:
        return ".".join([rng.choice(LOCAL_NAMES)] + [rng.choice(["a", "b", "join", "path", "Foo"]) for _ in range(rng.randint(1, 3))])
    if k == 1:
        args = [e() for _ in range(rng.randint(0, 2))]
        if rng.random() < 0.3:
            args.append("*" + e())
        args += [f"{rng.choice(['k', 'key', 'x'])}{i}={e()}" for i in range(rng.randint(0, 2))]
        if rng.random() < 0.2:
            args.append("**" + e())
        return f"{rng.choice([e(), rng.choice(LOCAL_NAMES), 'osp.join'])}({', '.join(args)})"
    if k == 2:
        return f"{e()}[{e()}]"
    if k == 3:
        return f"{rng.choice(LOCAL_NAMES)}[{e()}, {e()}]"
    if k == 4:
        return f"{e()}[{rng.choice(['', e()])}:{rng.choice(['', e()])}{rng.choice(['', ':' + e()])}]"
    if k == 5:
        n = rng.randint(0, 3)
        items = [e() for _ in range(n)]
        return "(" + ", ".join(items) + ("," if n == 1 else "") + ")"
    if k == 6:
        return "[" + ", ".join([e() for _ in range(rng.randint(0, 3))] + (["*" + e()] if rng.random() < 0.2 else [])) + "]"
    if k == 7:
        return "{" + ", ".join(e() for _ in range(rng.randint(1, 3))) + "}"
    if k == 8:
        items = [f"{e()}: {e()}" for _ in range(rng.randint(0, 2))] + ([f"**{e()}"] if rng.random() < 0.3 else [])
        return "{" + ", ".join(items) + "}"
    if k == 9:
        return f"({e()} {rng.choice(['+', '-', '*', '/', '//', '%', '**', '@', '|', '&', '^', '<<', '>>'])} {e()})"
    if k == 10:
        return "(" + f" {rng.choice(['and', 'or'])} ".join(e() for _ in range(rng.randint(2, 3))) + ")"
    if k == 11:
        return f"({rng.choice(['-', '+', '~', 'not '])}{e()})"
    if k == 12:
        ops = ["==", "!=", "<", "<=", ">", ">=", "is", "is not", "in", "not in"]
        return "(" + e() + "".join(f" {rng.choice(ops)} {e()}" for _ in range(rng.randint(1, 2))) + ")"
    if k == 13:
        return f"({e()} if {e()} else {e()})"
    if k == 14:
        ps = []
        if rng.random() < 0.4:
            ps += [f"p{i}" for i in range(rng.randint(1, 2))] + ["/"]
        ps += [f"a{i}" + (f"={e()}" if rng.random() < 0.5 and i else "") for i in range(rng.randint(0, 2))]
        if rng.random() < 0.4:
            ps.append("*r")
        elif rng.random() < 0.3:
            ps.append("*")
            ps.append("ko0")
        if ps and ps[-1] == "*r" and rng.random() < 0.5:
            ps.append("ko1=" + e())
        if rng.random() < 0.3:
            ps.append("**kw")
        return f"(lambda {', '.join(ps)}: {e()})"
    comp = lambda: f"for {rng.choice(['i', 'j', '(i, j)'])} in {e()}" + "".join(f" if {e()}" for _ in range(rng.randint(0, 2)))
    gens = lambda: " ".join(comp() for _ in range(rng.randint(1, 2)))
    if k == 15:
        return f"[{e()} {gens()}]"
    if k == 16:
        return f"{{{e()} {gens()}}}"
    if k == 17:
        return f"{{{e()}: {e()} {gens()}}}"
    if k == 18:
        return f"({e()} {gens()})"
    if k == 19:
        cands = ["f'a{" + rng.choice(LOCAL_NAMES) + "}b{" + rng.choice(LOCAL_NAMES) + ".x!r}'",
                 "f'{" + rng.choice(LOCAL_NAMES) + "!r:>{" + rng.choice(LOCAL_NAMES) + "}}'",
                 "f'{" + e() + ":>10}{" + rng.choice(LOCAL_NAMES) + "!s}{{literal}}'"]
        src = rng.choice(cands)
        if not _parses(src):
            # a nested constant may contain the f-string's own quote, a brace or a colon that ends the field: not Python
            _GEN_REJECTS[0] += 1
            src = cands[0]
        return src
    if k == 20:
        return f"(w := {e()})"
    if k == 21:
        return f"{rng.choice(LOCAL_NAMES)}(*{e()})"
    if k == 22 and ctx_yield:
        return rng.choice([f"(yield {e()})", "(yield)", f"(yield from {e()})"])
    if k == 23:
        # attributes of literals of every type (the builder links the name to "str" whatever the literal is; so does the loader)
        lit = rng.choice(["'lit'", "'lit'", "b'x'", "(8)", "1.5", "True", "None", "..."])
        attr = rng.choice(["join", "format", "bit_length", "hex", "real"])
        return f"{lit}.{attr}({e()})" if rng.random() < 0.6 else f"{lit}.{attr}"
    if k == 24:
        return f"{rng.choice(LOCAL_NAMES)}.{rng.choice(['a', 'b'])}({e()}).{rng.choice(['c', 'd'])}"
    return gen_annotation(rng, depth + 1)


def gen_annotation(rng, depth=0):
    r = rng.randrange(14)
    base = ["int", "str", "Foo", "Bar", "T", "typing.Any", "sub.Foo", "None", "missing.X"]
    if depth > 2 or r < 3:
        return rng.choice(base)
    a = lambda: gen_annotation(rng, depth + 1)
    if r == 3:
        return f"Optional[{a()}]"
    if r == 4:
        return f"List[{a()}]"
    if r == 5:
        return f"Dict[{a()}, {a()}]"
    if r == 6:
        return f"typing.Dict[str, {a()}]"
    if r == 7:
        return f"{a()} | None"
    if r == 8:
        return f"typing.Literal['x', {rng.choice(['1', chr(39) + 'y' + chr(39)])}]"
    if r == 9:
        return f"typing.Callable[[{a()}, {a()}], {a()}]"
    if r == 10:
        return f"tuple[{a()}, ...]"
    if r == 11:
        return f"'{rng.choice(['Foo', 'List[Foo]', 'typing.Optional[Bar]', 'not valid python ('])}'"
    if r == 12:
        return f"typing.Annotated[{a()}, {gen_expr(rng, 3)}]"
    return f"typing.Union[{a()}, {a()}]"


DOC_WORDS = ["Summary line.", "Returns:", "    value: text", "Args:", "  x: thing", "more text", "", "   ", "deep    indent", ":param x: y", "Note", "----",
             "caf\xe9 na\xefve", "\xa0 nbsp-indented", "tail \xa0", "  \xe9t\xe9 \x85"]       # Latin-1: letters, no-break space and NEL (both are str.isspace)


def gen_docstring(rng, indent: str, fixpoint_only=False):
    """returns the docstring literal lines (already indented) for a body at `indent`."""
    r = rng.random()
    if r < 0.25:
        return [f'{indent}"""One line."""']
    lines = [rng.choice(DOC_WORDS) for _ in range(rng.randint(1, 5))]
    if fixpoint_only:
        lines[0] = lines[0].strip() or "x"      # a deeper first text line is what makes cleandoc non-idempotent
    if not fixpoint_only and rng.random() < 0.3:
        # first text line deeper than the rest: cleandoc is not idempotent on such text
        body = [""] + ["    " + (lines[0] or "x")] + [l for l in lines[1:]] + [rng.choice(["tail", "  tail"])]
    elif rng.random() < 0.5:
        body = [lines[0] or "x"] + lines[1:]
    else:
        body = [""] + lines
    if rng.random() < 0.2:
        body.append("\ttabbed")
    if fixpoint_only:
        v = inspect.cleandoc("\n".join(body).rstrip())
        if inspect.cleandoc(v.rstrip()) != v:        # not idempotent on this text (first text line indented unlike the rest)
            return [f'{indent}"""One line."""']
    text = ("\n" + indent).join(body)
    text = text.replace("\\", "\\\\").replace('"""', "'''")
    return [f'{indent}"""{text}', f'{indent}"""'] if rng.random() < 0.6 else [f'{indent}"""{text}"""']


def gen_params(rng, method=False, allow_yield=False):
    ps = []
    ann = lambda: (": " + gen_annotation(rng)) if rng.random() < 0.5 else ""
    dflt = lambda: (" = " if True else "=") + gen_expr(rng, 2)
    names = iter(["a", "b", "c", "d", "e", "f", "g", "h", "i", "j", "k", "l"])
    if method:
        ps.append(rng.choice(["self", "cls"]))
    seen_default = False

    def pos():
        nonlocal seen_default
        s = next(names) + ann()
        if seen_default or rng.random() < 0.4:
            seen_default = True
            s += dflt()
        return s
    if rng.random() < 0.3:
        ps += [pos() for _ in range(rng.randint(1, 2))] + ["/"]
    ps += [pos() for _ in range(rng.randint(0, 3))]
    star = False
    if rng.random() < 0.35:
        ps.append("*" + next(names) + ann())
        star = True
    if rng.random() < 0.4:
        if not star:
            ps.append("*")
        ps += [next(names) + ann() + (dflt() if rng.random() < 0.5 else "") for _ in range(rng.randint(1, 2))]
    if rng.random() < 0.3:
        ps.append("**" + next(names) + ann())
    return ", ".join(ps)


def gen_function(rng, indent, name, method=False, decorators=None, with_findings=True):
    out = []
    decos = list(decorators or [])
    if rng.random() < 0.3:
        decos.append(rng.choice(["helper", "hh(1, key=CONST)", "typing.no_type_check", "osp.join.wrap(Foo)", "missing.deco"]))
    for d in decos:
        out.append(f"{indent}@{d}")
    ret = (" -> " + gen_annotation(rng)) if rng.random() < 0.6 else ""
    kw = "async def" if rng.random() < 0.15 else "def"
    out.append(f"{indent}{kw} {name}({gen_params(rng, method)}){ret}:")
    if rng.random() < 0.6:
        out += gen_docstring(rng, indent + "    ", fixpoint_only=not with_findings)
    if method and name == "__init__":
        for i in range(rng.randint(1, 3)):
            a = rng.choice(["x", "y", "kind", "val"]) if with_findings else rng.choice(["x", "y", "val"])
            tgt = f"self.{a}"
            out.append(f"{indent}    {tgt}{': ' + gen_annotation(rng) if rng.random() < 0.5 else ''} = {rng.choice(['a', 'b', gen_expr(rng, 2)])}")
            if rng.random() < 0.4:
                out += [f'{indent}    """attr doc."""']
    out.append(f"{indent}    return None" if kw == "def" and rng.random() < 0.5 else f"{indent}    pass")
    return out


def gen_class(rng, indent, name, depth=0, with_findings=True):
    out = []
    if rng.random() < 0.3:
        out.append(f"{indent}@{rng.choice(['dataclasses.dataclass', 'dataclasses.dataclass(frozen=True)', 'helper', 'typing.final'])}")
    bases = []
    for _ in range(rng.choice([0, 0, 1, 1, 2])):
        bases.append(rng.choice(["Foo", "sub.Foo", "Bar", "typing.Generic[T]", "Dict[str, List[Foo]]", "hh(Foo)", "missing.Base"]))
    if rng.random() < 0.15:
        bases.append("metaclass=helper")
    out.append(f"{indent}class {name}" + (f"({', '.join(bases)})" if bases else "") + ":")
    body = []
    if rng.random() < 0.6:
        body += gen_docstring(rng, indent + "    ", fixpoint_only=not with_findings)
    n = rng.randint(0, 4)
    for i in range(n):
        r = rng.random()
        if r < 0.35:
            an = rng.choice(["attr", "kind", "cls", "value", "name"]) if with_findings and rng.random() < 0.25 else f"attr{i}"
            body += gen_attribute(rng, indent + "    ", an)
        elif r < 0.7:
            body += gen_function(rng, indent + "    ", rng.choice(["__init__", f"meth{i}", f"meth{i}"]), method=True, with_findings=with_findings)
        elif r < 0.8:
            body += [f"{indent}    @property", f"{indent}    def prop{i}(self) -> {gen_annotation(rng)}:", f'{indent}        """Prop."""', f"{indent}        return 1"]
            if rng.random() < 0.5:
                body += [f"{indent}    @prop{i}.setter", f"{indent}    def prop{i}(self, v): pass"]
        elif r < 0.9 and depth < 2:
            body += gen_class(rng, indent + "    ", f"Inner{i}", depth + 1, with_findings)
        else:
            body += [f"{indent}    @{rng.choice(['staticmethod', 'classmethod'])}"] + gen_function(rng, indent + "    ", f"sm{i}", method=False, with_findings=with_findings)
    if not body:
        body = [f"{indent}    pass"]
    return out + body


def gen_attribute(rng, indent, name):
    r = rng.random()
    if r < 0.3:
        line = f"{indent}{name}: {gen_annotation(rng)} = {gen_expr(rng, 1)}"
    elif r < 0.5:
        line = f"{indent}{name}: {gen_annotation(rng)}"
    else:
        line = f"{indent}{name} = {gen_expr(rng, 1)}"
    out = [line]
    if rng.random() < 0.35:
        out += [f'{indent}"""Doc of {name}."""']
    return out


def gen_module_source(rng, pkg, is_init, with_findings=True):
    """a generated module that `ast.parse` accepts (a rejected draw is counted and drawn again)."""
    for _ in range(20):
        text = _gen_module_source(rng, pkg, is_init, with_findings)
        if _parses(text, "exec"):
            return text
        _GEN_REJECTS[0] += 1
    return "class Foo: pass\nclass Bar(Foo): pass\ndef helper(*a, **k): return a\nhh = helper\nsub = None\n"


def _gen_module_source(rng, pkg, is_init, with_findings=True):
    out = []
    if rng.random() < 0.6:
        out += gen_docstring(rng, "", fixpoint_only=not with_findings)
    out += ["import typing", "import dataclasses", "from typing import List, Optional, Dict", "import os.path as osp"]
    rel = "." if is_init else ""
    if is_init:
        out += [f"from {pkg}.sub import Foo, helper as hh", "from .sub import Bar, helper", "from . import sub"]
        if rng.random() < 0.5:
            out.append("from .sub import *")
        if rng.random() < 0.3:
            out.append("from ._impl import *")
        # a private module re-exported under a public name (as `os` does with `os.path`): other modules import *through* this alias
        out.append("from . import _impl as path")
    else:
        out += ["class Foo: pass", "class Bar(Foo): pass", "def helper(*a, **k): return a", "hh = helper", "sub = None"]
    if rng.random() < 0.3:
        # a wildcard import from a distribution that is not on the search paths: the loader keeps a `missing_dist/helpers/*` placeholder alias
        out.append(rng.choice(["from missing_dist.helpers import *", "from missing_dist import *"]))
    out += ["T = typing.TypeVar('T')", "CONST = 3"]
    if rng.random() < 0.3:
        out.append("i = j = 0")      # members named like the comprehension targets of the generated expressions (C08-F14)
    if rng.random() < 0.4:
        out += ["if typing.TYPE_CHECKING:", "    from missing import X as guarded"]
    names = []
    for i in range(rng.randint(1, 6)):
        r = rng.random()
        if r < 0.3:
            n = f"func{i}"
            if rng.random() < 0.25:
                for _ in range(rng.randint(1, 2)):
                    out += gen_function(rng, "", n, decorators=["typing.overload"], with_findings=with_findings)
            out += gen_function(rng, "", n, with_findings=with_findings)
        elif r < 0.6:
            n = f"Klass{i}"
            out += gen_class(rng, "", n, with_findings=with_findings)
        else:
            n = rng.choice(["kind", "cls"]) if with_findings and rng.random() < 0.1 else f"VAR{i}" if rng.random() < 0.85 else f"vari\xe9t\xe9{i}"
            out += gen_attribute(rng, "", n)
        names.append(n)
    if rng.random() < 0.5:
        out.append("__all__ = [" + ", ".join(repr(n) for n in names[:3]) + "]")
        if is_init and rng.random() < 0.4:
            out.append("__all__ += sub.__all__")
    return "\n".join(out) + "\n"


def gen_chain_source(rng, pkg, namespace):
    """a module whose imports are alias chains (re-export of a re-export), paths that go through an alias
    (`from pkg.path import x` where `pkg.path` is an alias of `pkg._impl`), a cycle, an unresolvable target and an
    unexpandable wildcard: after resolution `target_path` (what the source says) differs from the final target's path."""
    out = ['"""Re-exports."""', f"from {pkg}.sp import Foo as Foo3", "from .sp import Deep", "from .cyc import loop", "from .cyc import Foo4 as Foo5"]
    if not namespace:
        out += [f"from {pkg} import Foo as Foo2", f"from {pkg} import hh as hh2", f"from {pkg}.path import impl_func as through",
                f"from {pkg}.path import ImplClass", "from . import path as p2", f"import {pkg}.path as p3"]
    else:
        out += ["from . import _impl as path", f"from {pkg}.chain import path as p2", f"from {pkg}.chain.path import impl_func as through"]
    if rng.random() < 0.6:
        out.append("from missing_dist.helpers import *")
    if rng.random() < 0.5:
        out.append("from missing_dist.helpers import slugify as make_slug")
    out += ["def use(a=through, b: Foo3 = None) -> Deep:", '    """Use."""', "    return a"]
    if rng.random() < 0.7:
        # explicitly exported aliases are resolved by `resolve_aliases(implicit=False)` too
        out.append("__all__ = ['Foo3', 'Deep', 'loop', 'Foo5', 'through', 'p2', 'use'" + ("" if namespace else ", 'Foo2', 'hh2', 'ImplClass', 'p3'") + "]")
    return "\n".join(out) + "\n"


_counter = [0]


def strip_docstrings(text: str) -> str:
    """remove every string-expression statement (docstrings) from generated source, keeping it valid."""
    import ast
    tree = ast.parse(text)
    for node in ast.walk(tree):
        body = getattr(node, "body", None)
        if isinstance(body, list):
            kept = [s for s in body if not (isinstance(s, ast.Expr) and isinstance(s.value, ast.Constant) and isinstance(s.value.value, str))]
            node.body = kept or [ast.Pass()]
    return ast.unparse(tree) + "\n"


def write_package(ctx, rng, with_findings=True, namespace=False, no_docstrings=False):
    _counter[0] += 1
    root = ctx.scratch / f"pk{_counter[0]}"
    name = f"c08p{_counter[0]}"
    d = root / name
    (d / "sp").mkdir(parents=True)
    files = {}
    if not namespace:
        files["__init__.py"] = gen_module_source(rng, name, True, with_findings)
    files["sub.py"] = gen_module_source(rng, name, False, with_findings) + "__all__ = ['Foo', 'Bar']\n"
    files["_impl.py"] = "def impl_func(a, b=1): return a\nclass ImplClass: pass\n_hidden = 1\n"
    files["sp/__init__.py"] = '"""Sub package."""\nfrom ..sub import Foo\nclass Deep(Foo):\n    """Deep."""\n    def go(self, x: Foo = None) -> "Foo": ...\n'
    # a module with a stubs file next to it: the loader merges the two; classes and functions declared only in the stubs are
    # moved into the concrete module, annotations come from the stubs
    files["stubbed.py"] = ('"""Concrete."""\nclass Both:\n    """Both."""\n    def meth(self, a, b=1):\n        """Meth."""\n        return a\n'
                           'def plain(x, y=2):\n    """Plain."""\n    return x\nVALUE = 3\n')
    files["stubbed.pyi"] = ('from typing import List, Optional\nclass Both:\n    attr: List[int]\n    def meth(self, a: int, b: Optional[int] = ...) -> List[int]: ...\n'
                            'class OnlyInStubs:\n    """Stubs only."""\n    field: Optional[Both]\n    def go(self, q: List[Both] = ...) -> Both: ...\n'
                            'def plain(x: int, y: int = ...) -> int: ...\ndef stub_func(z: Both) -> None: ...\nVALUE: int\n')
    files["chain.py"] = gen_chain_source(rng, name, namespace)
    files["cyc.py"] = '"""Cyclic re-export."""\nfrom .chain import loop\nfrom .chain import Foo3 as Foo4\n'
    if rng.random() < 0.5:
        files["sp/leaf.py"] = gen_module_source(rng, name, False, with_findings)
    if no_docstrings:
        files = {f: strip_docstrings(t) for f, t in files.items()}
    for f, text in files.items():
        (d / f).write_text(text, encoding="utf-8")
    if _GEN_REJECTS[0]:
        ctx.count("generated_sources_rejected_by_ast_parse", _GEN_REJECTS[0])
        _GEN_REJECTS[0] = 0
    return root, name, files


# ---- importable content for forced inspection (must execute)
def gen_inspectable_source(rng, i, raw_annotations=False):
    out = ['"""Inspected module."""', "import typing", "import os", "from typing import List, Optional"]
    if raw_annotations:
        # annotation objects whose repr is not a Python expression (were stored raw and broke as_json: 4debb62)
        out += ["class Marker:", "    pass", f"def rawann{i}(a: Marker() = None, *b: Marker()) -> Marker():", "    return a"]
    if rng.random() < 0.5:
        out.append("from os.path import join as pjoin")
    out += ["class Base:", '    """Base."""', "    x: int = 1", f"    def m(self, a: List[int] = None, *b, c={rng.randint(0, 9)}, **d) -> int:", '        """m."""', "        return 1"]
    if rng.random() < 0.5:
        out += ["    @property", "    def p(self) -> int:", "        return 1"]
    if rng.random() < 0.5:
        out += ["    @staticmethod", "    def s(q, /, r=2): return q"]
    out += [f"class Child{i}(Base):", "    y = 'text'", "    class Inner: pass"]
    out += [f"def func{i}(a, /, b: int = 2, *, k: Optional[str] = None) -> List[int]:", '    """Doc.', "", "    More.", '    """', "    return []"]
    out += ["CONST = [1, 2]", f"lam = lambda q, *r: q", "async def co(): pass"]
    return "\n".join(out) + "\n"


# ---- hand-built trees: every expression dataclass, parameter docstrings, unusual field values
def build_hand_tree(rng, idx):
    import griffe
    m = griffe.Module(f"hand{idx}", filepath=Path(f"/x/hand{idx}.py"))
    N = lambda n: griffe.ExprName(n, parent=m)

    def attr(*names):
        vals = [N(names[0])]
        for n in names[1:]:
            vals.append(griffe.ExprName(n, parent=vals[-1]))
        return griffe.ExprAttribute(vals)
    pool = [
        lambda: N("Foo"),
        lambda: attr("a", "b", "c"),
        lambda: griffe.ExprConstant("1"),
        lambda: griffe.ExprExtSlice([N("x"), griffe.ExprSlice(None, "1", None)]),
        lambda: griffe.ExprSubscript(attr("typing", "Dict"), griffe.ExprTuple([N("str"), griffe.ExprSubscript(N("List"), N("Foo"))], implicit=True)),
        lambda: griffe.ExprCall(N("f"), [griffe.ExprKeyword("k", N("v"), function=N("f")), griffe.ExprVarPositional(N("a")), griffe.ExprVarKeyword(N("kw"))]),
        lambda: griffe.ExprLambda([griffe.ExprParameter("p", kind=griffe.ParameterKind.positional_only, default=N("Foo")),
                                   griffe.ExprParameter("q", default="1"),
                                   griffe.ExprParameter("r", kind=griffe.ParameterKind.var_positional, default="()"),
                                   griffe.ExprParameter("s", kind=griffe.ParameterKind.keyword_only, annotation=N("int"))], N("p")),
        lambda: griffe.ExprLambda([griffe.ExprParameter("only")], "0"),
        lambda: griffe.ExprBinOp(N("a"), "+", griffe.ExprUnaryOp("-", N("b"))),
        lambda: griffe.ExprBoolOp("or", [N("a"), "None", griffe.ExprCompare(N("x"), ["<", "is"], [N("y"), "None"])]),
        lambda: griffe.ExprIfExp(N("a"), N("b"), attr("c", "d")),
        lambda: griffe.ExprDict([N("k"), None], ["1", N("rest")]),
        lambda: griffe.ExprDictComp(N("k"), N("v"), [griffe.ExprComprehension(griffe.ExprTuple([N("k"), N("v")]), N("items"), [N("k")], is_async=True)]),
        lambda: griffe.ExprListComp(N("x"), [griffe.ExprComprehension(N("x"), N("xs"), [])]),
        lambda: griffe.ExprSetComp(N("x"), [griffe.ExprComprehension(N("x"), N("xs"), [N("x")])]),
        lambda: griffe.ExprGeneratorExp(N("x"), [griffe.ExprComprehension(N("x"), N("xs"), [])]),
        lambda: griffe.ExprJoinedStr(["a", griffe.ExprFormatted(N("b")), "c"]),
        lambda: griffe.ExprJoinedStr([griffe.ExprFormatted(N("b"), conversion=114, format_spec=griffe.ExprJoinedStr([">", griffe.ExprFormatted(N("w"))]))]),
        lambda: griffe.ExprList([N("a"), "1"]),
        lambda: griffe.ExprSet(["1", N("a")]),
        lambda: griffe.ExprNamedExpr(N("w"), "1"),
        lambda: griffe.ExprYield(None),
        lambda: griffe.ExprYield(N("v")),
        lambda: griffe.ExprYieldFrom(N("gen")),
        lambda: griffe.ExprAttribute(["'lit'", griffe.ExprName("join", parent="str")]),
        lambda: griffe.ExprAttribute([griffe.ExprCall(N("f"), []), griffe.ExprName("res")]),
        lambda: griffe.ExprSubscript(N("Optional"), griffe.ExprSubscript(N("List"), attr("sub", "Foo"))),
        lambda: "plain string",
        lambda: None,
    ]
    pick = lambda: rng.choice(pool)()
    params = griffe.Parameters(
        griffe.Parameter("a", annotation=pick(), kind=griffe.ParameterKind.positional_only, default=pick()),
        griffe.Parameter("b", annotation=pick(), kind=griffe.ParameterKind.positional_or_keyword, default=pick(),
                         docstring=griffe.Docstring("Param doc.", lineno=3, endlineno=3) if rng.random() < 0.5 else None),
        griffe.Parameter("c", kind=griffe.ParameterKind.var_positional, default="()"),
        griffe.Parameter("d", annotation=pick(), kind=griffe.ParameterKind.keyword_only),
        griffe.Parameter("e", kind=griffe.ParameterKind.var_keyword, default="{}"),
    )
    f = griffe.Function("f", parameters=params, returns=pick(), lineno=2, endlineno=4,
                        decorators=[griffe.Decorator(pick() or "deco", lineno=1, endlineno=1)],
                        docstring=griffe.Docstring(rng.choice(["Doc.", "A\n\nB", "  x\ny", ""]), lineno=3, endlineno=3))
    f.labels |= {"async"} if rng.random() < 0.5 else set()
    m.set_member("f", f)
    c = griffe.Class("C", lineno=6, endlineno=20, bases=[b for b in (pick(), pick()) if b is not None],
                     decorators=[griffe.Decorator(pick() or "d", lineno=5, endlineno=5)], docstring=griffe.Docstring("Class.", lineno=7, endlineno=7))
    c.labels |= {"dataclass", "zeta", "alpha"}
    m.set_member("C", c)
    a = griffe.Attribute("attr", lineno=8, endlineno=8, value=pick(), annotation=pick())
    a.labels |= {"class-attribute"}
    c.set_member("attr", a)
    g = griffe.Function("g", lineno=9, endlineno=10, returns=pick())
    c.set_member("g", g)
    inner = griffe.Class("Inner", lineno=11, endlineno=12)
    c.set_member("Inner", inner)
    inner.set_member("deep", griffe.Attribute("deep", lineno=12, endlineno=12, value=pick()))
    m.set_member("al", griffe.Alias("al", "other.thing", lineno=13, endlineno=13))
    m.set_member("al2", griffe.Alias("al2", c, lineno=14, endlineno=None))
    sub = griffe.Module("child", filepath=Path(f"/x/hand{idx}/child.py"), docstring=griffe.Docstring("Sub.", lineno=1, endlineno=1))
    m.set_member("child", sub)
    sub.set_member("v", griffe.Attribute("v", lineno=1, endlineno=1, value=griffe.ExprName("z", parent=sub)))
    return m


def wrap_expression(expr, module):
    import griffe
    f = griffe.Function("f", returns=expr, lineno=1, endlineno=1)
    module.members.pop("f", None)
    module.set_member("f", f)
    return f


# =====================================================================================================
# streams

def stream_expressions(ctx, n):
    """single expressions built by Griffe's own builder from generated source, in the returns slot of a function."""
    import ast
    import griffe
    m = griffe.Module("exprmod", filepath=Path("/x/exprmod.py"))
    for nm in ("Foo", "Bar", "CONST"):
        m.set_member(nm, griffe.Attribute(nm, lineno=1, endlineno=1))
    m.set_member("osp", griffe.Alias("osp", "os.path", lineno=1, endlineno=1))
    m.set_member("typing", griffe.Alias("typing", "typing", lineno=1, endlineno=1))
    m.set_member("List", griffe.Alias("List", "typing.List", lineno=1, endlineno=1))
    m.set_member("Optional", griffe.Alias("Optional", "typing.Optional", lineno=1, endlineno=1))
    m.set_member("Dict", griffe.Alias("Dict", "typing.Dict", lineno=1, endlineno=1))
    cases = []
    for i in range(n):
        src = gen_annotation(ctx.rng) if i % 4 == 0 else gen_expr(ctx.rng, ctx_yield=True)
        try:
            node = ast.parse(src, mode="eval").body
        except SyntaxError:
            ctx.count("generated_syntax_errors")
            continue
        e = griffe.get_annotation(node, parent=m) if i % 4 == 0 else griffe.get_expression(node, parent=m)
        if e is None:
            ctx.count("builder_returned_none")
            continue
        cases.append((src, e))
    # model side, batched
    abss = []
    for src, e in cases:
        try:
            abss.append(norm_abs(abs_ev(e, m)))
        except Unabstractable:
            abss.append(None)
    outs = ctx.model([["expr", a] for a in abss if a is not None])
    it = iter(outs)
    for (src, e), a in zip(cases, abss):
        ctx.observe("stream", "expression")
        ctx.case({"expression": src}, True)
        if a is None:
            continue
        mo = next(it)
        for c in expr_classes_in(a, set()):
            ctx.observe("expr_classes", c)
        m_json, m_dec, wf, has_enum, m_reload, m_attached = norm_model(mo[0]), mo[1], mo[2], mo[3], mo[4], mo[5]
        if isinstance(e, griffe.Expr) and not wf:
            ctx.tie_failure("correspondence", "an expression built by Griffe violates wf_slot", {"expression": src, "abs": a})
        text = json.dumps(e, cls=griffe.JSONEncoder)
        if py_json(text) != m_json:
            ctx.tie_failure("correspondence", "enc_ev(model) vs JSONEncoder on an expression", _first_diff(m_json, py_json(text)), {"expression": src})
        try:
            e2 = json.loads(text, object_hook=griffe.json_decoder)
        except Exception as ex:  # noqa: BLE001
            ctx.property_failure({"expression": src, "step": "decode"}, {"exception": exc_tag(ex)})
            if m_dec[0] != "err" or m_dec[1] != exc_tag(ex):
                ctx.tie_failure("correspondence", "decode(model) vs json_decoder on an expression", {"model": m_dec[:2], "impl": exc_tag(ex)}, {"expression": src})
            continue
        if isinstance(e, griffe.Expr):
            if m_dec[0] != "expr" or norm_abs(abs_ev(e2, None)) != m_dec[1] or m_dec[1] != m_reload:
                ctx.tie_failure("correspondence", "decoded expression (model) vs json_decoder", {"model": m_dec[:2], "impl": abs_ev(e2, None)}, {"expression": src})
            if json.dumps(e2, cls=griffe.JSONEncoder) != text:
                ctx.property_failure({"expression": src, "step": "re-encoding differs"}, {"old": text, "new": json.dumps(e2, cls=griffe.JSONEncoder)})
        # in a tree: attach + resolution, through the public from_json
        f = wrap_expression(e, m)
        ta = abs_tree(m)
        j = m.as_json()
        m2 = griffe.Module.from_json(j)
        if m2.as_json() != j:
            ctx.property_failure({"expression": src, "step": "re-encoding differs (wrapped)"}, {})
        e3 = m2.members["f"].returns
        got = norm_abs(abs_ev(e3, m2))
        if got != m_attached:
            ctx.tie_failure("correspondence", "attach_top(reload_ev e) (model) vs the returns slot after Module.from_json",
                            _first_diff(m_attached, got), {"expression": src})
        tm = list(ta)
        compare_objects(ctx, {"expression": src}, m.members["f"], m2.members["f"], ta[6][-1][1], None,
                        _with_returns(ta[6][-1][1], m_attached), ["exprmod", "f"], "min")


def _with_returns(tf, new_ret):
    t = list(tf)
    x = list(t[7])
    x[3] = new_ret
    t[7] = x
    return t


def stream_packages(ctx, n_visit, n_inspect):
    import griffe
    for i in range(n_visit):
        with_findings = i % 3 != 0
        nodoc = i % 6 == 3
        root, name, files = write_package(ctx, ctx.rng, with_findings=with_findings and not nodoc, no_docstrings=nodoc)
        for resolve in ((False, True) if i % 2 == 0 else (False,)):
            case = {"agent": "visit", "package": name, "resolve_aliases": resolve, "resolve_implicit": i % 4 == 0, "files": files}
            try:
                obj = griffe.load(name, search_paths=[str(root)], resolve_aliases=resolve, resolve_implicit=(i % 4 == 0), allow_inspection=False)
            except Exception as e:  # noqa: BLE001
                ctx.count("load_failures")
                ctx.observe("load_failure", type(e).__name__)
                continue
            check_tree(ctx, obj, case, stream=f"visit/resolve={resolve}/" + ("nodoc" if nodoc else "clean" if not with_findings else "any"))
    for i in range(n_inspect):
        _counter[0] += 1
        name = f"c08insp{_counter[0]}_{os.getpid()}"
        root = ctx.scratch / f"insp{_counter[0]}"
        (root / name).mkdir(parents=True)
        src = gen_inspectable_source(ctx.rng, i, raw_annotations=(i % 2 == 0))
        (root / name / "__init__.py").write_text(src)
        (root / name / "other.py").write_text("from . import Base\nclass Other(Base):\n    pass\nZ = 1\n")
        case = {"agent": "inspect", "package": name, "files": {"__init__.py": src}}
        sys.path.insert(0, str(root))
        try:
            obj = griffe.load(name, search_paths=[str(root)], force_inspection=True, resolve_aliases=bool(i % 2))
        except Exception as e:  # noqa: BLE001
            ctx.count("load_failures")
            ctx.observe("load_failure", "inspect:" + type(e).__name__)
            continue
        finally:
            sys.path.remove(str(root))
            for k in [k for k in sys.modules if k == name or k.startswith(name + ".")]:
                del sys.modules[k]
        check_tree(ctx, obj, case, stream="inspect")


def stream_special(ctx):
    """namespace packages and builtin modules."""
    import griffe
    root, name, files = write_package(ctx, ctx.rng, with_findings=False, namespace=True)
    obj = griffe.load(name, search_paths=[str(root)], allow_inspection=False)
    ta, flags = check_tree(ctx, obj, {"agent": "visit", "package": name, "namespace": True, "files": files}, stream="namespace", every_cwd=True)
    # a namespace package spread over two directories, and a namespace sub-package below a regular package
    root2, _, _ = write_package(ctx, ctx.rng, with_findings=False, namespace=True)
    extra = root2 / name
    if not extra.exists():
        (root2 / os.listdir(root2)[0]).rename(extra)
    (extra / "only_here.py").write_text("Y = 2\n")
    orders = []
    for paths in ([str(root), str(root2)], [str(root2), str(root)]):      # the order of the search paths is the order of the portions
        obj = griffe.load(name, search_paths=paths, allow_inspection=False)
        check_tree(ctx, obj, {"agent": "visit", "package": name, "namespace": True, "portions": 2, "search_paths": paths, "files": files},
                   stream="namespace/2-portions", every_cwd=True)
        if not (isinstance(obj.filepath, list) and len(obj.filepath) == 2):
            ctx.tie_failure("harness", "two namespace portions expected", {"filepath": str(obj.filepath)})
        orders.append([str(p) for p in obj.filepath])
    if len(orders) == 2 and orders[0] != orders[1][::-1]:
        ctx.tie_failure("harness", "namespace portions expected in search-path order", {"orders": orders})
    ctx.observe("namespace_portion_order", "both orders" if len(orders) == 2 and sorted(orders[0]) in (orders[0], orders[1]) and orders[0] != orders[1] else "one order")
    if not isinstance(obj.filepath, list):
        ctx.tie_failure("harness", "namespace package expected", {"filepath": str(obj.filepath)})
    for mod in ("math", "itertools") if ctx.quick else ("math", "itertools", "_json", "time", "zlib"):
        obj = griffe.load(mod)
        check_tree(ctx, obj, {"agent": "inspect", "package": mod, "builtin": True}, stream="builtin")


def stream_hand(ctx, n):
    for i in range(n):
        obj = build_hand_tree(ctx.rng, i)
        check_tree(ctx, obj, {"hand_built": i, "seed": ctx.seed}, stream="hand-built")


# ---- damaged documents: model decode vs json_decoder
def damage(rng, doc):
    """one random structural damage of a JSON document (python value); returns a description or None."""
    dicts = []

    def walk(v):
        if isinstance(v, dict):
            dicts.append(v)
            for x in v.values():
                walk(x)
        elif isinstance(v, list):
            for x in v:
                walk(x)
    walk(doc)
    chains = [x for x in dicts if x.get("cls") == "ExprAttribute" and isinstance(x.get("values"), list) and len(x["values"]) > 1]
    if chains and rng.random() < 0.08:
        # an element of a dotted chain replaced: the re-linking loop of _load_expression sets `.parent` on whatever follows a name
        d = rng.choice(chains)
        i = rng.randrange(1, len(d["values"]))
        d["values"][i] = rng.choice([{"cls": "ExprYield"}, {"cls": "ExprTuple", "elements": []}, "txt", None, {"cls": "ExprName", "name": "zz"}, True])
        return f"chain element {i} := {json.dumps(d['values'][i])}"
    d = rng.choice(dicts)
    if not d:
        return None
    k = rng.choice(list(d))
    r = rng.random()
    if "cls" in d and k != "cls" and 0.45 <= r < 0.6 or ("cls" in d and r >= 0.9):
        r = 0.1          # ill-typed expression fields (None or a str where a list is iterated) are outside the model: delete instead
    if r < 0.45:
        del d[k]
        return f"delete {k}"
    if r < 0.6:
        d[k] = None
        return f"null {k}"
    if r < 0.7 and k == "kind":
        d[k] = rng.choice(["bogus", "positional-only", "module", "alias"])
        return f"kind:={d[k]}"
    if r < 0.8 and k == "cls":
        d[k] = rng.choice(["ExprBogus", "ExprName", "ExprTuple", "ExprYield"])
        return f"cls:={d[k]}"
    if r < 0.9:
        d["extra_key"] = 1 if rng.random() < 0.5 else "x"
        return "add extra_key"
    d[k] = [] if rng.random() < 0.5 else "text"
    return f"retype {k}"


def corpus_documents():
    """corpus/C08/*.json: minimised past disagreements between the model's decoder and json_decoder (replayed first)."""
    d = Path(__file__).resolve().parents[2] / "corpus" / "C08"
    out = []
    for f in sorted(d.glob("*.json")) if d.is_dir() else []:
        c = json.loads(f.read_text())
        out.append(("corpus " + f.name, c["document"]))
    return out


def stream_damaged(ctx, docs, n):
    import griffe
    cases = corpus_documents()
    for _ in range(n):
        text = ctx.rng.choice(docs)
        doc = json.loads(text)
        what = damage(ctx.rng, doc)
        if what is None:
            continue
        if ctx.rng.random() < 0.3:
            w2 = damage(ctx.rng, doc)
            what += "; " + (w2 or "")
        cases.append((what, json.dumps(doc)))
    outs = ctx.model([["json", py_json(t)] for _, t in cases])
    for (what, text), mo in zip(cases, outs):
        ctx.observe("stream", "damaged")
        ctx.case({"damaged": what, "doc_len": len(text)}, False)
        try:
            v = json.loads(text, object_hook=griffe.json_decoder)
            if isinstance(v, (griffe.Object, griffe.Alias)):
                impl = ["tree", py_json(v.as_json())]
            elif isinstance(v, griffe.Expr):
                impl = ["expr", py_json(json.dumps(v, cls=griffe.JSONEncoder))]
            elif isinstance(v, griffe.Parameter):
                impl = ["param", py_json(json.dumps(v, cls=griffe.JSONEncoder))]
            else:
                impl = ["plain"]
        except Exception as e:  # noqa: BLE001
            impl = ["err", exc_tag(e)]
        if mo[0] == "err" and mo[1] == "unmodelled":
            ctx.observe("damaged_outcome", "unmodelled")
            continue
        model = [mo[0], mo[1]] if mo[0] == "err" else ([mo[0], norm_model(mo[2])] if mo[0] != "plain" else ["plain"])
        ctx.observe("damaged_outcome", impl[0] + (":" + impl[1] if impl[0] == "err" else ""))
        if model != impl:
            diff = _first_diff(model[1], impl[1]) if model[0] == impl[0] and len(model) > 1 and isinstance(model[1], list) else {"model": _short(model), "impl": _short(impl)}
            ctx.tie_failure("correspondence", "decode(model) vs json_decoder on a damaged document",
                            {"damage": what, "diff": diff}, {"document": text[:6000]})


# ---- (O) pathlib: the model's pure paths vs PurePosixPath
def stream_paths(ctx, n):
    from pathlib import PurePosixPath as PP
    segs = ["a", "b", "pkg", "src", "..", "x.py", "__init__.py", "a b", "caf\xe9", "ns"]

    def rnd():
        text = "/".join(ctx.rng.choice(segs) for _ in range(ctx.rng.randint(0, 5)))
        return str(PP(("/" if ctx.rng.random() < 0.6 else "") + text))
    cases = []
    for i in range(n):
        p = rnd()
        if i % 2:
            parts = PP(p).parts
            base = str(PP(*parts[:ctx.rng.randint(0, len(parts))])) if parts else "."
        else:
            base = rnd()
        cases.append((base, p))
    cases += [("/", "/"), ("/", "/a"), (".", "a/b"), (".", "."), ("/a", "/a"), ("a", "/a"), ("/a", "a"), ("/a/b", "/a/bc")]
    outs = ctx.model([["path", b, p] for b, p in cases])
    for (base, p), mo in zip(cases, outs):
        ctx.count("path_cases")
        try:
            rel = [str(PP(p).relative_to(PP(base)))]
        except ValueError:
            rel = []
        want = [str(PP(p)), rel, str(PP(p).parent), str(PP(p).parent.parent)]
        ctx.observe("path_relative", "relative" if rel else "not-relative")
        if mo != want:
            ctx.tie_failure("oracle", "pure path operations (model) vs pathlib.PurePosixPath", {"base": base, "path": p, "model": mo, "pathlib": want})


# ---- (C)/(O) the text level: dumps / loads (model) vs json.dumps / json.loads
def to_term(v):
    if v is None:
        return ["n"]
    if isinstance(v, bool):
        return ["b", v]
    if isinstance(v, int):
        return ["i", v]
    if isinstance(v, str):
        return ["s", _ascii(v)]
    if isinstance(v, list):
        return ["a", [to_term(x) for x in v]]
    if isinstance(v, dict):
        return ["o", [[_ascii(k), to_term(x)] for k, x in v.items()]]
    raise Unabstractable(f"json value {type(v).__name__}")


def gen_json_value(rng, depth=0):
    r = rng.random()
    if depth > 3 or r < 0.45:
        k = rng.randrange(6)
        if k == 0:
            return None
        if k == 1:
            return rng.random() < 0.5
        if k == 2:
            return rng.choice([0, 1, -1, 7, 10, 42, -305, 1000000007, 2**40, -(2**40), rng.randint(-10**6, 10**6)])
        n = rng.randint(0, 8)
        pool = "ab \"\\/\n\t\r\x08\x0c\x00\x1f\x7f\x80\xa0\xe9\xffz{}[]:,u0"
        return "".join(rng.choice(pool) for _ in range(n))
    if r < 0.72:
        return [gen_json_value(rng, depth + 1) for _ in range(rng.randint(0, 4))]
    return {("k%d" % i if rng.random() < 0.7 else rng.choice(['q"', "\\", "\xe9\n", "", "kind", "cls"]) + str(i)): gen_json_value(rng, depth + 1)
            for i in range(rng.randint(0, 4))}


def damage_text(rng, text):
    if not text:
        return text
    i = rng.randrange(len(text))
    r = rng.random()
    pool = '{}[],:"\\ 01-.eEntfu\n\x01'
    if r < 0.35:
        return text[:i] + text[i + 1:]
    if r < 0.7:
        return text[:i] + rng.choice(pool) + text[i:]
    if r < 0.9:
        return text[:i] + rng.choice(pool) + text[i + 1:]
    return text[:i]


def py_loads_outcome(text):
    try:
        term = py_json(text)
        if any(ord(c) > 255 for c in json.dumps(term, ensure_ascii=False)):
            return ["outside"]
        return ["ok", term]
    except Unabstractable:
        return ["outside"]            # floats, code points above U+00FF
    except (json.JSONDecodeError, RecursionError):
        return ["err"]


def stream_text(ctx, n):
    vals = [gen_json_value(ctx.rng) for _ in range(n)]
    outs = ctx.model([["dumps", to_term(v)] for v in vals])
    texts = []
    for v, mo in zip(vals, outs):
        ctx.count("dumps_cases")
        want = json.dumps(v)
        if mo != want:
            ctx.tie_failure("correspondence", "dumps(model) vs json.dumps", _first_text_diff(mo, want), {"value": repr(v)[:300]})
        texts.append(want)
        k = ctx.rng.randrange(4)
        texts.append(json.dumps(v, indent=2) if k == 0 else json.dumps(v, separators=(",", ":")) if k == 1
                     else " \n" + want.replace(", ", " ,\t") + "\r " if k == 2 else json.dumps(v, ensure_ascii=False))
    texts += ['1.5', '[1e3]', '-0', '[01]', '-', 'NaN', '[-Infinity]', '"\\u00e9\\u0041"', '"\\u20ac"', '"\\ud83d\\ude00"', '{"a":1,"a":2}', '[1,]', '{,}',
              '{"a" 1}', '{1: 2}', '"a\tb"', '"\\x"', 'nul', 'truefalse', '[] []', '', '  ', '"\\u12"', '[1 2]', '{"a":}', "'a'", '"\x7f"', '1.', '1e', '1e+', '[1.e3]']
    for _ in range(n):
        texts.append(damage_text(ctx.rng, ctx.rng.choice(texts[:2 * n])))
    outs = ctx.model([["loads", t] for t in texts if all(ord(c) < 256 for c in t)])
    it = iter(outs)
    for t in texts:
        if any(ord(c) > 255 for c in t):
            continue
        mo = next(it)
        impl = py_loads_outcome(t)
        ctx.count("loads_cases")
        ctx.observe("loads_outcome", impl[0] if impl[0] != "ok" else "ok")
        if mo == ["unmodelled"]:
            ctx.observe("loads_outcome", "model:unmodelled")
            if impl[0] == "err":
                continue                # the model may stop at a float / a non-Latin-1 escape before CPython finds the error
            if impl[0] == "ok":
                ctx.tie_failure("correspondence", "loads(model) says unmodelled, json.loads gives a modelled value", {"text": t[:300]})
            continue
        got = [mo[0], norm_model(mo[1])] if mo[0] == "ok" else mo
        if got != impl and not (impl == ["outside"] and got == ["err"]):
            ctx.tie_failure("correspondence", "loads(model) vs json.loads", {"text": t[:300], "model": _short(got), "impl": _short(impl)})


def stream_text_documents(ctx, docs, n):
    """documents damaged at the character level: loads_hook (the model reads and calls the decoder on every object as it is
    closed) vs json.loads(text, object_hook=json_decoder): same value, same JSON error, same exception from the decoder."""
    import griffe
    cases = []
    for _ in range(n):
        t = damage_text(ctx.rng, ctx.rng.choice(docs))
        if ctx.rng.random() < 0.3:
            t = damage_text(ctx.rng, t)
        cases.append(t)
    outs = ctx.model([["loads-decode", t] for t in cases])
    for t, mo in zip(cases, outs):
        ctx.observe("stream", "damaged-text")
        ctx.case({"damaged_text_len": len(t)}, False)
        # a deleted brace can merge two objects into one with a repeated key: Python keeps the last value, the model's
        # dicts take the first binding (documents never repeat a key): outside the model
        repeated = []

        def pairs(ps, repeated=repeated):
            if len({k for k, _ in ps}) != len(ps):
                repeated.append(True)
            return dict(ps)
        try:
            json.loads(t, object_pairs_hook=pairs)
        except Exception:  # noqa: BLE001
            pass
        if repeated:
            ctx.observe("damaged_text_outcome", "repeated key (outside the model)")
            continue
        try:
            v = json.loads(t, object_hook=griffe.json_decoder)
            if isinstance(v, (griffe.Object, griffe.Alias)):
                impl = ["tree", py_json(v.as_json())]
            elif isinstance(v, griffe.Expr):
                impl = ["expr", py_json(json.dumps(v, cls=griffe.JSONEncoder))]
            elif isinstance(v, griffe.Parameter):
                impl = ["param", py_json(json.dumps(v, cls=griffe.JSONEncoder))]
            else:
                impl = ["plain"]
        except json.JSONDecodeError:
            impl = ["json-error"]
        except Exception as e:  # noqa: BLE001
            impl = ["err", exc_tag(e)]
        if mo[0] == "err" and mo[1] == "unmodelled":
            ctx.observe("damaged_text_outcome", "unmodelled")
            continue
        model = [mo[0], mo[1]] if mo[0] == "err" else (["json-error"] if mo[0] == "json-error" else [mo[0], norm_model(mo[2])] if mo[0] != "plain" else ["plain"])
        ctx.observe("damaged_text_outcome", impl[0] + (":" + impl[1] if impl[0] == "err" else ""))
        if model != impl:
            ctx.tie_failure("correspondence", "loads+decode (model) vs json.loads(object_hook=json_decoder) on a damaged text",
                            {"model": _short(model), "impl": _short(impl)}, {"text": t[:6000]})


# ---- objects other than a loaded package as the root of a dump
def stream_subobjects(ctx, n_packages, per_package):
    import griffe
    for i in range(n_packages):
        root, name, files = write_package(ctx, ctx.rng, with_findings=bool(i % 2))
        try:
            pkg = griffe.load(name, search_paths=[str(root)], resolve_aliases=bool(i % 2), allow_inspection=False)
        except Exception:  # noqa: BLE001
            ctx.count("load_failures")
            continue
        found = []

        def walk(o, path):
            # aliases are left out: Alias.as_json is a proxy for the target's as_json, not the serialisation of the alias
            for k, m in o.members.items():
                if not m.is_alias:
                    found.append((path + [k], m))
                    walk(m, path + [k])
        walk(pkg, [])
        ctx.rng.shuffle(found)
        seen = {}
        for path, m in found:
            kind = "alias" if m.is_alias else m.kind.value
            if seen.get(kind, 0) >= max(1, per_package // 4):
                continue
            seen[kind] = seen.get(kind, 0) + 1
            check_tree(ctx, m, {"agent": "visit", "package": name, "resolve_aliases": bool(i % 2), "root": ".".join(path), "files": files},
                       stream="sub-object/" + kind)


# ---- trees loaded with a docstring parser (the parsed sections of the full form are parameters of the model)
def stream_parser(ctx, n):
    import logging
    import griffe
    logging.disable(logging.WARNING)        # the parsers warn about the generated docstrings
    try:
        _stream_parser(ctx, n)
    finally:
        logging.disable(logging.NOTSET)


def _stream_parser(ctx, n):
    import griffe
    for i in range(n):
        root, name, files = write_package(ctx, ctx.rng, with_findings=False)
        try:
            obj = griffe.load(name, search_paths=[str(root)], allow_inspection=False, docstring_parser=ctx.rng.choice(["google", "numpy", "sphinx"]))
        except Exception:  # noqa: BLE001
            ctx.count("load_failures")
            continue
        check_tree(ctx, obj, {"agent": "visit", "package": name, "docstring_parser": True, "files": files}, modes=(True,), stream="docstring-parser", parser=True)


# ---- (O) cleandoc
def stream_clean(ctx, n):
    alphabet = ["a", "b", " ", " ", "  ", "\n", "\n", "\t", "    ", "x y", "\n\n", " \n", "\r", "\x0c", ":", "\xa0", "\x85", "\xe9", "\x1c", "\x0b"]
    vals = ["", "\n", "  a\nb", "a\n  b\n   c", "\n    a\n  b", "\ta\n\tb", "a\n\n\n", "\n\n  x\n\n  y\n \n", " \t x", "a\n \tb\n\t c"]
    for _ in range(n):
        vals.append("".join(ctx.rng.choice(alphabet) for _ in range(ctx.rng.randint(0, 12))))
    outs = ctx.model([["clean", v] for v in vals])
    for v, mo in zip(vals, outs):
        ctx.count("clean_cases")
        want = inspect.cleandoc(v.rstrip())
        if mo != want:
            ctx.tie_failure("oracle", "clean(model) vs inspect.cleandoc(s.rstrip())", {"input": v, "model": mo, "cpython": want})
        import griffe
        if griffe.Docstring(v).value != want:
            ctx.tie_failure("oracle", "Docstring.__init__ no longer stores inspect.cleandoc(value.rstrip())", {"input": v})


# ---- command line
CLI_PLAN = [   # (designation, full, per-package output file?, packages, resolve)
    ("name", False, False, 1, False),
    ("relpath", True, True, 1, False),
    ("abspath", False, True, 1, False),
    ("submodule", True, False, 1, False),
    ("name", True, False, 2, True),
    ("submodule", False, True, 1, False),
    ("relpath", False, False, 1, False),
    ("abspath", True, False, 1, True),
]


def outline(obj, found=None):
    """path -> (kind, alias target) of every member of a tree, recursively (what a consumer of a dump sees of its structure)."""
    found = {} if found is None else found
    for name, member in obj.members.items():
        if member.is_alias:
            found[f"{obj.path}.{name}"] = ("alias", member.target_path)
        else:
            found[f"{obj.path}.{name}"] = (member.kind.value, None)
            outline(member, found)
    return found


def alias_features(ctx, obj):
    """input distribution: which alias situations a tree contains (resolved chains, paths through aliases, placeholders)."""
    import griffe
    for name, member in obj.members.items():
        if not member.is_alias:
            alias_features(ctx, member)
            continue
        if member.wildcard:
            ctx.observe("alias_kinds", "unexpanded-wildcard-placeholder")
            continue
        if not member.resolved:
            ctx.observe("alias_kinds", "unresolved")
            continue
        try:
            final = member.final_target.path
        except griffe.CyclicAliasError:
            ctx.observe("alias_kinds", "resolved/cyclic")
            continue
        except griffe.AliasResolutionError:
            ctx.observe("alias_kinds", "resolved/chain-dangling")
            continue
        through = False
        if "." in member.target_path:
            try:
                through = obj.package.modules_collection.get_member(member.target_path.rsplit(".", 1)[0]).is_alias
            except Exception:  # noqa: BLE001
                through = False
        if final == member.target_path:
            ctx.observe("alias_kinds", "resolved/direct")
        elif through:
            ctx.observe("alias_kinds", "resolved/path-through-alias (final target path differs)")
        else:
            ctx.observe("alias_kinds", "resolved/chain (final target path differs)")


def _cli_expected(ctx, root, names, resolve, full, case, emitted, texts, raw_all=None):
    """what `griffe dump` must have emitted: the serialisation of the tree that the same loader options give."""
    import griffe
    cwd = os.getcwd()
    os.chdir(ctx.scratch)       # relative_filepath depends on the working directory
    try:
        loader = griffe.GriffeLoader(search_paths=[str(root)], allow_inspection=False)
        for nm in names:
            loader.load(nm)
        if resolve:
            loader.resolve_aliases(implicit=False, external=None)
        # (C) the text itself: the model's dumps_cli (indent=2, sort_keys, trailing newline) of the documents
        try:
            docs = {nm: json.loads(loader.modules_collection.members[nm].as_json(full=full)) for nm in loader.modules_collection.members}
            if raw_all is not None and sorted(docs) == sorted(names):
                mt = ctx.model([["dumps-cli", to_term(docs)]])[0]
                ctx.count("cli_text_cases")
                if mt != raw_all:
                    ctx.tie_failure("correspondence", "dumps_cli(model, text) vs the text `griffe dump` printed", _first_text_diff(mt, raw_all), case)
            for nm in texts:
                mt = ctx.model([["dumps-cli", to_term(docs[nm])]])[0]
                ctx.count("cli_text_cases")
                if mt != texts[nm]:
                    ctx.tie_failure("correspondence", "dumps_cli(model, text) vs the per-package file `griffe dump` wrote", _first_text_diff(mt, texts[nm]), case)
        except Unabstractable:
            pass
        except Exception:  # noqa: BLE001   (as_json failing is reported below)
            pass
        # the dictionary of packages the command wrote, loaded the documented way: json.loads(object_hook=json_decoder)
        if raw_all is not None:
            try:
                loaded = json.loads(raw_all, object_hook=griffe.json_decoder)
                ctx.count("cli_dictionaries_loaded_through_the_hook")
                if not isinstance(loaded, dict) or sorted(loaded) != sorted(emitted) or not all(isinstance(v, griffe.Module) for v in loaded.values()):
                    ctx.property_failure(dict(case, step="json.loads(command output, object_hook=json_decoder)"), {"loaded": _short({k: type(v).__name__ for k, v in loaded.items()} if isinstance(loaded, dict) else type(loaded).__name__)})
                else:
                    for nm, mod in loaded.items():
                        ref = griffe.Module.from_json(json.dumps(emitted[nm]))
                        if outline(mod) != outline(ref) or all_canon(mod) != all_canon(ref):
                            ctx.property_failure(dict(case, package=nm, step="entry points: the package loaded from the command's dictionary through json.loads(object_hook=json_decoder) differs from Module.from_json of its document"),
                                                 {"names through object_hook": all_canon(mod)[:5], "names through from_json": all_canon(ref)[:5]})
            except Exception as e:  # noqa: BLE001
                ctx.property_failure(dict(case, step="json.loads(command output, object_hook=json_decoder)"), {"exception": exc_tag(e), "message": str(e)[:200]})
        for nm in names:
            pkg = loader.modules_collection.members[nm]
            alias_features(ctx, pkg)
            want = json.loads(pkg.as_json(full=full))
            if emitted[nm] != want:
                ctx.property_failure(dict(case, package=nm, step="content"), {"difference": _first_py_diff(want, emitted[nm])})
                ctx.observe("outcome", "cli:differs")
                continue
            ctx.observe("outcome", "cli:identical")
            if nm in texts and texts[nm] != pkg.as_json(indent=2, full=full, sort_keys=True) + "\n":
                ctx.property_failure(dict(case, package=nm, step="text of the per-package file"), {"expected": "as_json(indent=2, sort_keys=True) + newline"})
            # what is loaded back from the command's output is the loaded tree: same members, kinds and alias targets,
            # and it serialises to the very document the command emitted
            try:
                back = griffe.Module.from_json(json.dumps(emitted[nm]))
            except Exception as e:  # noqa: BLE001
                ctx.property_failure(dict(case, package=nm, step="from_json of the command's output"), {"exception": exc_tag(e)})
                continue
            if outline(back) != outline(pkg):
                diff = sorted(set(outline(pkg).items()) ^ set(outline(back).items()))[:6]
                ctx.property_failure(dict(case, package=nm, step="tree reloaded from the command's output"), {"outline difference": diff})
    finally:
        os.chdir(cwd)


def check_cli(ctx, n, n_inproc):
    """`griffe dump` emits exactly {package: as_dict} for each requested package, however the package is designated
    (bare name, relative path, absolute path, dotted submodule), in both modes, on stdout / -o file / -o '{package}' template,
    and exits with status 0.  n invocations of the command in a subprocess, n_inproc calls of its entry points
    (`griffe.main(["dump", ...])`, `griffe.dump(...)`) in this process."""
    import contextlib
    import io
    import itertools
    import griffe
    env = dict(os.environ, PYTHONPATH=str(REPO / "src"), PYTHONHASHSEED="0")
    plan = CLI_PLAN[:n] if n <= len(CLI_PLAN) else CLI_PLAN + [
        (d, f, o, 1, False) for d, f, o in itertools.product(("name", "relpath", "abspath", "submodule"), (False, True), (False, True))][:n - len(CLI_PLAN)]
    plan = [("subprocess",) + p for p in plan]
    for i in range(n_inproc):
        plan.append((ctx.rng.choice(["main", "dump"]), ctx.rng.choice(["name", "name", "abspath", "submodule"]), bool(i % 2),
                     ctx.rng.random() < 0.4, 2 if i % 5 == 4 else 1, i % 3 == 2))
    for i, (how, desig, full, per_package, npk, resolve) in enumerate(plan):
        root, name, files = write_package(ctx, ctx.rng, with_findings=bool(i % 2), namespace=(how != "subprocess" and i % 7 == 3))
        names = [name]
        all_files = {name: files}
        if npk == 2:
            root2, name2, files2 = write_package(ctx, ctx.rng, with_findings=True)
            subprocess.run(["cp", "-r", str(root2 / name2), str(root / name2)], check=True)
            names.append(name2)
            all_files[name2] = files2
        rel_root = os.path.relpath(root, ctx.scratch)
        arg = {"name": lambda nm: nm, "relpath": lambda nm: os.path.join(rel_root, nm), "abspath": lambda nm: str(root / nm),
               "submodule": lambda nm: nm + ".sub"}[desig]
        outdir = ctx.scratch / f"cliout{i}"
        outdir.mkdir()
        to_file = per_package or i % 3 == 1 or npk == 2
        out_arg = str(outdir / "{package}.json") if per_package else str(outdir / "all.json")
        cmd = [sys.executable, "-m", "griffe", "dump"] + [arg(nm) for nm in names] + ["-s", str(root), "-X", "-LCRITICAL"]
        cmd += (["-f"] if full else []) + (["-r"] if resolve else []) + (["-o", out_arg] if to_file else [])
        case = {"cli": " ".join(cmd[2:]), "entry": how, "designation": desig, "full": full, "per_package_output": per_package, "files": all_files[name]}
        stdout, stderr, rc = "", "", None
        if how == "subprocess":
            p = subprocess.run(cmd, capture_output=True, text=True, env=env, cwd=str(ctx.scratch), timeout=120)
            stdout, stderr, rc = p.stdout, p.stderr, p.returncode
        else:
            buf = io.StringIO()
            cwd = os.getcwd()
            os.chdir(ctx.scratch)
            try:
                if how == "main":
                    with contextlib.redirect_stdout(buf):
                        rc = griffe.main(cmd[3:])
                else:
                    rc = griffe.dump([arg(nm) for nm in names], output=(out_arg if to_file else buf), full=full, resolve_aliases=resolve,
                                     search_paths=[str(root)], allow_inspection=False)
            except (Exception, SystemExit) as e:  # noqa: BLE001
                rc, stderr = f"raised {type(e).__name__}", str(e)[:300]
            finally:
                os.chdir(cwd)
            stdout = buf.getvalue()
        ctx.case({"cli": cmd[3:], "full": full, "entry": how}, True)
        ctx.observe("stream", "cli" if how == "subprocess" else "cli-in-process")
        ctx.observe("cli_form", f"{how}/{desig}/{'full' if full else 'min'}/{'per-package' if per_package else 'file' if to_file else 'stdout'}")
        if rc != 0:
            ctx.property_failure(dict(case, step="exit status"), {"returncode": rc, "stdout": stdout[:200], "stderr": stderr[-400:]})
            ctx.observe("outcome", "cli:nonzero-exit")
        emitted, texts, raw_all = {}, {}, None
        try:
            if per_package:
                for nm in names:
                    f = outdir / f"{nm}.json"
                    if f.exists():
                        texts[nm] = f.read_text()
                        emitted[nm] = json.loads(texts[nm])
            elif to_file:
                raw_all = (outdir / "all.json").read_text()
                emitted = json.loads(raw_all)
            else:
                raw_all = stdout
                emitted = json.loads(stdout)
        except Exception as e:  # noqa: BLE001
            ctx.property_failure(dict(case, step="output is not JSON"), {"error": str(e)[:200], "stdout": stdout[:200]})
            continue
        if sorted(emitted) != sorted(names):
            ctx.property_failure(dict(case, step="emitted packages"), {"emitted": sorted(emitted), "requested": sorted(names), "returncode": rc})
            ctx.observe("outcome", "cli:wrong-packages")
            continue
        _cli_expected(ctx, root, names, resolve, full, case, emitted, texts, raw_all)


def _first_py_diff(a, b, path="$"):
    if type(a) is not type(b):
        return {"at": path, "as_json": _short(a), "dump": _short(b)}
    if isinstance(a, dict):
        for k in a:
            if k not in b:
                return {"at": path, "missing in dump": k}
            if a[k] != b[k]:
                return _first_py_diff(a[k], b[k], f"{path}.{k}")
        return {"at": path, "extra in dump": [k for k in b if k not in a]}
    if isinstance(a, list):
        for i, (x, y) in enumerate(zip(a, b)):
            if x != y:
                return _first_py_diff(x, y, f"{path}[{i}]")
        return {"at": path, "lengths": [len(a), len(b)]}
    return {"at": path, "as_json": _short(a), "dump": _short(b)}


# ---- witnesses of the recorded findings, replayed on the implementation every run
def _rt(obj, full=False):
    """('enc', tag) | ('dec', tag) | ('diff', None) | ('same', obj2)"""
    import griffe
    try:
        j = obj.as_json(full=full)
    except Exception as e:  # noqa: BLE001
        return "enc", exc_tag(e)
    try:
        o2 = griffe.Module.from_json(j)
    except Exception as e:  # noqa: BLE001
        return "dec", exc_tag(e)
    return ("same", o2) if o2.as_json(full=full) == j else ("diff", o2)


def fixed_cases(ctx):
    """Witnesses of repaired defects (F1, F2, F3, F5, F7): corpus cases that must now pass."""
    import griffe
    V = lambda code: griffe.visit("w", filepath=Path("/x/w.py"), code=code)
    m = griffe.Module("w", filepath=Path("/x/w.py"))
    m.set_member("a", griffe.Attribute("a"))
    m.set_member("al", griffe.Alias("al", "os.al"))
    cases = [("F1 full-mode document with a docstring", V('"""Doc."""\ndef f(a):\n    """F.\n\n    More."""\n'), True),
             ("F1 full-mode document without docstring", V("x = 1\n"), True),
             ("F2 attribute and alias without line number", m, False),
             ("F3 namespace package", griffe.Module("w", filepath=[Path("/x/w"), Path("/y/w")]), False),
             ("F3 builtin module", griffe.Module("w", filepath=None), False),
             ("F5 module member named kind", V("kind = 1\n"), False),
             ("F5 module member named cls", V("cls = 1\nname = 2\n"), False),
             ("F5 class member named kind, full mode", V("class C:\n    kind: int = 0\n    cls = 1\n"), True),
             ("F7 lambda parameter kinds", V("f = lambda p, /, q=1, *a, k, **kw: 0\n"), False)]
    for what, mod, full in cases:
        ctx.case({"fixed_case": what}, True)
        ctx.observe("stream", "fixed-cases")
        r = _rt(mod, full=full)
        if r[0] != "same":
            ctx.property_failure({"fixed_case": what, "mode": "full" if full else "min"}, {"outcome": r[0], "detail": r[1] if isinstance(r[1], str) else None})
            continue
        before = len(ctx.prop_failures)
        if what.startswith("F7") and str(r[1].members["f"].value) != str(mod.members["f"].value):
            ctx.property_failure({"fixed_case": what}, {"old": str(mod.members["f"].value), "new": str(r[1].members["f"].value)})
        if what.startswith("F3") and r[1]._filepath != mod._filepath:
            ctx.property_failure({"fixed_case": what}, {"old": str(mod._filepath), "new": str(r[1]._filepath)})




def load_inspected(ctx, name, src):
    """dynamic analysis of a one-file package written to the scratch directory."""
    import griffe
    root = ctx.scratch / f"w_{name}"
    (root / name).mkdir(parents=True, exist_ok=True)
    (root / name / "__init__.py").write_text(src, encoding="utf-8")
    sys.path.insert(0, str(root))
    try:
        return griffe.load(name, search_paths=[str(root)], force_inspection=True)
    finally:
        sys.path.remove(str(root))
        for k in [k for k in sys.modules if k == name or k.startswith(name + ".")]:
            del sys.modules[k]


def witnesses(ctx):
    import griffe
    V = lambda code: griffe.visit("w", filepath=Path("/x/w.py"), code=code)
    ctx.witness("C08-F4", _rt(griffe.Module("w", filepath=None), full=True) == ("enc", "BuiltinModuleError"))
    # repaired (4debb62, was C08-F12): an inspected annotation object whose repr is not Python is kept as that text;
    # it used to be stored as the object itself and as_json raised TypeError.  Must pass now.
    mod = load_inspected(ctx, f"c08raw_{os.getpid()}", "class Marker:\n    pass\ndef f(a: Marker() = None) -> Marker():\n    return a\n")
    ann = mod.members["f"].parameters["a"].annotation
    r12 = _rt(mod)
    ctx.case({"fixed_case": "F12 inspected annotation object without a Python repr"}, True)
    if not isinstance(ann, (str, griffe.Expr)) or r12[0] != "same":
        ctx.property_failure({"fixed_case": "F12 inspected annotation object without a Python repr", "mode": "min", "source": "def f(a: Marker() = None) -> Marker(): ..."},
                             {"annotation type": type(ann).__name__, "outcome": r12[0], "detail": r12[1] if isinstance(r12[1], str) else None})
    # repaired (bb0db70, was C08-F13 = C09-F6): the full form of a namespace package none of whose directories lies below
    # the working directory used to raise ValueError; it must serialise and round-trip now
    home = os.getcwd()
    os.chdir("/usr")
    try:
        r13 = _rt(griffe.Module("w", filepath=[Path("/x/ns/w")]), full=True)
    finally:
        os.chdir(home)
    ctx.case({"fixed_case": "F13 namespace package outside the working directory, full form"}, True)
    if r13[0] != "same":
        ctx.property_failure({"fixed_case": "F13 namespace package outside the working directory, full form", "mode": "full", "cwd": "/usr"},
                             {"outcome": r13[0], "detail": r13[1] if isinstance(r13[1], str) else None})
    r = _rt(V('"""\n    Deep first line.\nRest.\n"""\n'))
    r2 = _rt(V('"""\nFirst line.\n    Rest, deeper.\n  Tail.\n"""\n'))
    ctx.witness("C08-F6", r[0] == "diff" and r[1].docstring.value == "Deep first line.\nRest."
                and r2[0] == "diff" and r2[1].docstring.value == "First line.\n  Rest, deeper.\nTail.")

    def cps(code, get):
        mod = V("import typing\nfrom typing import List, Optional\nimport os.path as osp\nclass Foo: ...\n" + code)
        r = _rt(mod)
        if r[0] != "same":
            return None
        return ([canon(n) for n, _ in names_of(get(mod), [])], [canon(n) for n, _ in names_of(get(r[1]), [])])
    ctx.witness("C08-F11", cps("class C:\n    def __init__(self, p):\n        self.x = p\n", lambda m: m.members["C"].members["x"].value)
                == (["w.C(p)"], ["p"]))
    # F14: a name bound by the expression itself has no parent (and no path); the loader attaches it to the scope
    # (it then resolves to a same-named member of that scope, if there is one)
    r14 = cps("i = 0\nq = 1\nx = [i for i in Foo]\ny = lambda q: q\n", lambda m: [m.members["x"].value, m.members["y"].value])
    ctx.witness("C08-F14", r14 is not None and r14[0] == ["i", "w.Foo", "i", "q"] and r14[1] == ["w.i", "w.Foo", "w.i", "w.q"])


FIXED_LINKS = [   # (what, code, slot getter, canonical paths that must come back)
    ("F8 names below the first layer", "def f(a: Optional[List[Foo]]): ...\n", lambda m: m.members["f"].parameters["a"].annotation,
     ["typing.Optional", "typing.List", "w.Foo"]),
    ("F9 class bases and attribute annotations", "class C(Foo): ...\nx: Foo = 1\n", lambda m: [m.members["C"].bases[0], m.members["x"].annotation],
     ["w.Foo", "w.Foo"]),
    ("F10 dotted name as a whole slot", "def f(a=osp.join): ...\n", lambda m: m.members["f"].parameters["a"].default, ["os.path", "os.path.join"]),
    ("F11 attribute of a string literal", "x = 'sep'.join\n", lambda m: m.members["x"].value, ["str.join"]),
    ("F8 keyword function, lambda default, comprehension", "x = hh(k=[Foo for i in osp if (lambda q=Foo: q)])\nhh = 1\n", lambda m: m.members["x"].value, None),
]


def fixed_link_cases(ctx):
    """witnesses of the repaired link defects (8c597ee, 5995d8a, bc5643e, 47f36fc): every name resolves as before the dump."""
    import griffe
    for what, code, get, want in FIXED_LINKS:
        ctx.case({"fixed_case": what}, True)
        ctx.observe("stream", "fixed-cases")
        mod = griffe.visit("w", filepath=Path("/x/w.py"), code="import typing\nfrom typing import List, Optional\nimport os.path as osp\nclass Foo: ...\n" + code)
        r = _rt(mod)
        if r[0] != "same":
            ctx.property_failure({"fixed_case": what, "mode": "min"}, {"outcome": r[0]})
            continue
        before = [canon(n) for n, _ in names_of(get(mod), [])]
        after = [canon(n) for n, _ in names_of(get(r[1]), [])]
        if before != after or (want is not None and before != want):
            ctx.property_failure({"fixed_case": what, "code": code}, {"canonical paths before": before, "after reload": after, "expected": want})


def explore(ctx):
    os.makedirs(ctx.scratch, exist_ok=True)
    witnesses(ctx)
    fixed_cases(ctx)
    fixed_link_cases(ctx)
    stream_clean(ctx, ctx.budget(400, 4000))
    stream_paths(ctx, ctx.budget(400, 4000))
    stream_text(ctx, ctx.budget(400, 4000))
    stream_expressions(ctx, ctx.budget(1500, 12000))
    stream_hand(ctx, ctx.budget(40, 300))
    stream_special(ctx)
    stream_packages(ctx, ctx.budget(72, 500), ctx.budget(6, 30))
    stream_subobjects(ctx, ctx.budget(4, 30), 12)
    stream_parser(ctx, ctx.budget(2, 12))
    # documents for the damaged stream: clean trees only (they decode)
    import griffe
    docs = []
    for i in range(6):
        docs.append(build_clean_doc(ctx.rng, i))
    stream_damaged(ctx, docs, ctx.budget(800, 8000))
    stream_text_documents(ctx, docs, ctx.budget(300, 3000))
    check_cli(ctx, ctx.budget(6, 24), ctx.budget(18, 120))
    # every expression dataclass of the (regenerated) table must have been exercised: the model's rule for
    # `iterate(flat=False)` is generic, a class the generators never produce would go unvalidated
    table = {n for n in dir(griffe) if n.startswith("Expr") and n != "Expr" and isinstance(getattr(griffe, n), type)}
    missing = sorted(table - set(ctx.dist.get("expr_classes", {})))
    if missing:
        ctx.tie_failure("harness", "expression classes never generated", {"missing": missing})
    if not ctx.quick:
        # kept shallow: Coq's printer elides terms below its printing depth
        sample = [["clean", "\n    a\n  b"], ["clean", "\ta\n\t b \n\n"], ["clean", "x\n   y\n  z"],
                  ["expr", ["name", "a", 1]], ["expr", ["node", "ExprAttribute", [["values", ["list", [["name", "a", 1], ["name", "b", 2]]]]]]],
                  ["expr", ["node", "ExprYield", [["value", ["name", "v", 4]]]]],
                  ["json", ["o", [["kind", ["s", "alias"]], ["name", ["s", "a"]], ["target_path", ["s", "b.c"]], ["lineno", ["i", 3]]]]],
                  ["json", ["o", [["kind", ["s", "attribute"]], ["name", ["s", "a"]]]]],
                  ["json", ["o", [["cls", ["s", "ExprBogus"]]]]],
                  ["dumps", ["o", [["a", ["a", [["i", -3], ["n"], ["s", "q\"\n\x7f"]]]]]]], ["loads", ' {"a": [1, 20] , "b":null}'], ["loads", "[1.5]"],
                  ["loads-decode", '{"kind": "alias", "name": "a"} x'], ["dumps-cli", ["o", [["b", ["a", [["i", 1]]]], ["a", ["o", []]]]]],
                  ["path", "/a/b", "/a/b/c.py"], ["path", ".", "/x"],
                  ["fullD", [["/", "p"], [], [], ""], ["obj", "m", [], [], [["Doc.", [1], [1]]], [], [], ["module", ["str", "/p/s/m.py"]]]]]
        ctx.cross_check_extraction(sample)


def build_clean_doc(rng, i):
    import griffe
    code = ('"""Doc."""\nimport typing\nfrom typing import List\nclass Foo:\n    """F."""\n    a: int = 1\n    def m(self, x: List[int] = None, *r, k=1, **kw) -> typing.Any:\n'
            '        """M."""\n@typing.final\nclass B(Foo):\n    pass\ndef f(p, /, q=(lambda z: z)): ...\nV = {1: [2, 3]}\n')
    if i % 2:
        code += f"W{i}: typing.Dict[str, Foo] = {{}}\n"
    return griffe.visit(f"d{i}", filepath=Path(f"/x/d{i}.py"), code=code).as_json()


def py_gap_doc(obj) -> bool:
    """python mirror of gap_doc (Model/C08_json.v), used only when the model cannot be run."""
    import griffe
    if isinstance(obj, griffe.Alias):
        return False
    if obj.docstring is not None and inspect.cleandoc(obj.docstring.value.rstrip()) != obj.docstring.value:
        return True
    return any(py_gap_doc(m) for m in obj.members.values())


def search(ctx):
    """A tie broke and no failing input is known: implementation-only evaluation over more generated trees (no model)."""
    import griffe
    os.makedirs(ctx.scratch, exist_ok=True)
    saved = ctx.driver
    ctx.driver = None

    class NoModel:
        pass
    orig = ctx.model
    ctx.model = lambda values: [["bad-input"] for _ in values]
    try:
        for i in range(60):
            root, name, files = write_package(ctx, ctx.rng, with_findings=False)
            try:
                obj = griffe.load(name, search_paths=[str(root)], allow_inspection=False, resolve_aliases=bool(i % 2))
            except Exception:  # noqa: BLE001
                continue
            j = obj.as_json()
            case = {"agent": "visit", "package": name, "files": files, "search": True}
            try:
                o2 = griffe.Module.from_json(j)
            except Exception as e:  # noqa: BLE001
                ctx.property_failure(dict(case, step="from_json"), {"exception": exc_tag(e)})
                return
            if o2.as_json() != j:
                ctx.property_failure(dict(case, step="re-encoding differs"), _first_diff(py_json(j), py_json(o2.as_json())),
                                     finding="C08-F6" if py_gap_doc(obj) else None)
                if not py_gap_doc(obj):
                    return
                continue
            before = len(ctx.prop_failures)
            compare_objects(ctx, case, obj, o2, None, None, None, [obj.name], "min")
            # without the model the known name-resolution defects cannot be classified: keep only other differences
            ctx.prop_failures[before:] = [f for f in ctx.prop_failures[before:] if not str(f["case"].get("what", "")).startswith(("name resolution", "expression text"))]
            ctx.stats["property_failure"] = len(ctx.prop_failures)
            if len(ctx.prop_failures) > before:
                return
            ctx.evaluations += 1
    finally:
        ctx.model = orig
        ctx.driver = saved


def replay(ctx, data):
    import griffe
    case = data.get("failing_input") or {}
    print(json.dumps({k: v for k, v in case.items() if k != "files"}, indent=1, default=str)[:3000])
    print("detail:", json.dumps(data.get("detail"), indent=1, default=str)[:3000])
    files = case.get("files")
    if files and "package" in case:
        root = ctx.scratch / "replay"
        for f, text in files.items():
            p = root / case["package"] / f
            p.parent.mkdir(parents=True, exist_ok=True)
            p.write_text(text, encoding="utf-8")
        obj = griffe.load(case["package"], search_paths=[str(root)], resolve_aliases=bool(case.get("resolve_aliases")),
                          resolve_implicit=bool(case.get("resolve_implicit")), allow_inspection=False)
        for full in (False, True):
            r = _rt(obj, full)
            print("full" if full else "min", "->", r[0], r[1] if r[0] in ("enc", "dec") else "")
        subprocess.run(["rm", "-rf", str(root)])
    elif "expression" in case:
        print("expression:", case["expression"])
    else:
        print("replay names no input:", data.get("no_longer_checks"))
    return 0
