"""C16 — Object-tree invariants hold after any history of member mutations.

(C) model `step` (heap of nodes: parent, members, target, target_path, aliases, collection link)
        vs  griffe Module/Class/Function/Attribute/Alias + ModulesCollection driven through
            set_member / __setitem__ / del_member / __delitem__ / Alias.target= / Alias.resolve_target,
    whole abstract state compared after every operation.
(O) model `get_parts` vs `_griffe.mixins._get_parts`.
direct property evaluation: the seven clauses of the property evaluated on the live objects after every operation,
    and the tree compared with a reference dictionary path -> object maintained by the specification rules.
"""
from __future__ import annotations

import itertools
import json

from harness.translate import c16_shape

ID = "C16"
LEVEL_TEXT = ("32 theorems over ALL operation histories (induction over the op list, no length bound), closed under the global context, each proved "
              "for BOTH statement orders of set_member (store+attach the new member before / after re-targeting the aliases of the replaced one); "
              "which order the code has is read from the source by a translator on every run (Gen/C16_shape.v) and selects the instance the extracted "
              "model runs. For every history that inserts objects fresh and under their own name, OR inserts again an alias or member-less object that was deleted or "
              "replaced and of which nothing is left behind, and applies operations to objects that are in the tree (all_top_down), the invariant Inv "
              "holds in every reachable state (C16_inv_init/_step/_reachable): member.parent is the container and member.name its key, parents are "
              "well founded (so obj.path terminates: the fuel the model passes is proved sufficient), keys of every aliases dictionary are the current "
              "paths of their values and are distinct, every resolved alias reachable from the collection is listed in its target's aliases under its "
              "path. Consequences proved from Inv: retrievable by own path, parent-is-container, top-level members reach the collection; for every "
              "state: dotted lookup = chained lookup, dotted string = tuple of names, deleted members are gone / a rejected deletion changes nothing; "
              "refinement to the reference dictionary path->object for set and del through the collection AND through any object of the tree (an "
              "operation on the object at pj with relative path p is the operation on the collection with pj++p), and for alias operations; aliases "
              "follow a set_member replacement and record as target_path the path the new member had when the loop ran - equal to its real path in "
              "the order 'attach first' (C16_target_path_follows), refuted by witness in the other order (finding C16-F2, repaired by 2e2fded). "
              "Lookups THROUGH aliases are in the model (Alias.final_target, Alias.members as a function of the final target's current members, "
              "wrappers): in every state the names seen through an alias are those of its final target now, dotted lookup = chained lookup, and what "
              "is returned wraps exactly the object found by going to the final target at every step; under Inv its path is the path looked up. "
              "No alias ever targets itself after ANY history (no discipline at all). The back-reference clause is REFUTED by vm_compute witnesses for "
              "bottom-up histories (C16-F1) and for an alias re-inserted while its old back-reference is still around (C16-F3), and proved modulo the "
              "decidable gap predicate known_gap. The model is tied to the code by the translator, by exhaustive-small and state-guided random "
              "differential histories (streams top-down, re-attachment of deleted/replaced objects, bottom-up, malformed) comparing the full abstract "
              "state of every object ever constructed after every step, plus direct evaluation of every clause and of a reference dictionary on the "
              "live objects; known findings are recognised by exact predicates over observed registrations, never by the shape of the history.")
LEVEL_NOTE = ("Trusted: Coq kernel, extraction, the object->state abstraction World.dump in this module, the translator's reading of the statement "
              "order. Modelled, not verified: the through-alias model is read-only - MUTATING through an alias (finding C16-F4), "
              "creating alias->alias links, and lookups that would resolve a link on the way get the explicit answer `scope` and are skipped in the "
              "differential run (exercised by the implementation-only stream); lookups through resolved aliases are compared with the model at the "
              "end of every differential history. Re-assigning the object that already is the member, and (order 'attach first') "
              "replacing an aliased member by an alias, are cut the same way. Modules in the model carry no filepath (stub merge: implementation-only "
              "stream). Classes have no bases. Inside the theorems re-insertion is restricted to aliases and member-less objects of which nothing is left behind; other re-inserted "
              "plain objects and aliases with stale entries are covered by the generator and the exact classifiers of C16-F1/F3 only. Three conjuncts "
              "of the discipline (an alias has no members, is nobody's parent, nobody's target) are invariants that are checked on every step, not "
              "proved. Which exception reports a rejection is canonicalised away.")
MODEL = ("Model.C16_through", "run_C16t")
COQ_TARGETS = ["Proofs/C16_tree.vo", "Proofs/C16_through.vo"]
TRANSLATOR_NAME = "harness/translate/c16_shape.py -> coq/Gen/C16_shape.v"
ATTACH_FIRST = False     # what the translator read from set_member (set by translate)


def translate(ctx):
    global ATTACH_FIRST
    ATTACH_FIRST = c16_shape.translate(ctx)

RULE = ("corpus/C16 first; exhaustive: every sequence of <=2 operations over an alphabet of 127 operations {set_member/__setitem__ of a "
        "fresh M/C/F/A/alias(3 string targets) at 7 paths of depth<=3 over 2 names, del_member/__delitem__ at the same paths, "
        "resolve id<3, target:= id id (<3), 3 object-receiver insertions}, key alternately dotted string / tuple; quick: + 12000 seeded "
        "sequences of length 3-4 and a quarter of all triples over a reduced 22-operation alphabet (which re-inserts object ids); thorough: all "
        "triples and quadruples over the reduced alphabet + 80000 seeded sequences of length 3-5; random: state-guided histories of length 5..40 "
        "over 3 names x 5 kinds, receivers collection/object (absolute and relative), string or object alias targets, streams top-down / reattach "
        "(deleted or replaced objects - aliases and plain objects with what they still contain - inserted again under their own name anywhere in "
        "the tree; live aliases replaced by a new alias with the same name and target) / bottom-up (detached construction with alloc+set, dead "
        "references) / malformed (empty keys, empty components, missing and over-long paths, self targets); implementation-only histories with "
        "alias chains, .py/.pyi modules (stub merge), set/del THROUGH resolved aliases, alias objects moved to another container, and after EVERY "
        "operation, for every resolved alias: names and every lookup spelling THROUGH the alias (get_member / [] x dotted / tuple, chained, one "
        "name at a time, alias.members) compared with the final target's current members (identity of the wrapped object, wrapper listed). "
        "non-trivial = at least one operation succeeded and the final tree has depth >= 2 or an alias; distinct by canonical operation list")
TRUSTED = ["abstraction: harness/props/c16.py:World.dump reads name, kind, parent, members (ordered), resolved target, target_path, "
           "aliases (sorted), modules_collection reachability and path of every object ever constructed in the history",
           "harness-side mirrors is_top_down / reattach_ok / is_loose / alloc_verdict of the model predicates are cross-checked against the model on every step",
           "translator harness/translate/c16_shape.py: whitelist of AST shapes of _get_parts, get/set/del mixin methods, Alias.parent / target setters, "
           "_update_target_aliases; reads the statement order of set_member (fail closed on any other shape)"]
ASSUMPTIONS = ["hypotheses the proofs forced (predicate top_down, checked against the code by the reattach / bottom-up / dead-reference streams which "
               "reproduce the failures outside it): objects enter the tree fresh (no members, no parent) and under their own name, or they are "
               "aliases inserted again of which no container and no aliases dictionary keeps anything; the collection holds no alias directly (its "
               "path raises AttributeError); every receiver / alias an operation is applied to is in the tree at that moment",
               "direct evaluation: an object is not inserted while it still is a member somewhere (sharing), and a former sub-object is not put "
               "directly into the collection (the collection API cannot clear its parent)",
               "names are identifiers: non-empty and dot-free (else the dotted string cannot address the member)",
               "alias chains and navigation through aliases are C06's subject and outside this model",
               "the exception *type* of a rejected operation is not part of the property"]

NAMES = ["a", "b", "c"]
KINDS = ["M", "C", "F", "A", "L"]


class HarnessError(Exception):
    pass


def _griffe():
    import griffe
    from _griffe.exceptions import AliasResolutionError, CyclicAliasError
    return griffe, AliasResolutionError, CyclicAliasError


def err_name(e) -> str:
    _, ARE, CAE = _griffe()
    if isinstance(e, CAE):
        return "cyclic"
    if isinstance(e, ARE):
        return "unresolved"
    if isinstance(e, (KeyError, AttributeError)):
        return "missing"
    if isinstance(e, ValueError):
        return "value"
    if isinstance(e, RecursionError):
        return "fuel"
    return "exc:" + type(e).__name__


def split_path(s: str):
    return [] if s == "" else s.split(".")


def plain_get(w, parts):
    """Lookup from the collection through non-alias containers only (what the model's `get` does); None if it fails."""
    c = w.col
    for i, part in enumerate(parts):
        if c is not w.col and c.is_alias:
            return None
        m = c.members.get(part)
        if m is None:
            return None
        c = m
    return c if parts else None


def is_live(w, o) -> bool:
    try:
        p = o.path
    except (AttributeError, RecursionError):
        return False
    return plain_get(w, p.split(".")) is o


def is_member_somewhere(w, o) -> bool:
    """Is `o` currently listed in the members of its parent or of the collection (attached or inside a detached/dead container)?"""
    if any(o is m for m in w.col.members.values()):
        return True
    p = o.parent
    return p is not None and not p.is_alias and any(o is m for m in p.members.values())


def alias_entries(w):
    """Every back-reference entry of every object ever constructed: (id(target), key) -> alias object."""
    out = {}
    for o in w.objs:
        if not o.is_alias:
            for k, a in o.aliases.items():
                out[(id(o), k)] = a
    return out


def is_loose(w, v) -> bool:
    """Python mirror of the Coq predicate loose: nothing refers to v (no members dictionary, no aliases dictionary, nobody's
    parent, nobody's target)."""
    if any(v is m for m in w.col.members.values()):
        return False
    for o in w.objs:
        if o.parent is v:
            return False
        if o.is_alias:
            if o.resolved and o._target is v:
                return False
        elif any(v is m for m in o.members.values()) or any(v is a for a in o.aliases.values()):
            return False
    return True


def reattach_ok(w, op) -> bool:
    """Python mirror of the Coq predicate reattach_ok: an alias - or an object without members - that was deleted or replaced, of
    which nothing is left behind, is inserted again under its own name through a receiver that is in the tree (not directly into
    the collection)."""
    _, _, r, p, vi = op
    if vi >= len(w.objs) or (r == [] and len(p) == 1):
        return False
    v = w.objs[vi]
    if not v.is_alias and len(v.members) > 0:
        return False        # an alias, or an object without members (plain objects have no target)
    if not is_loose(w, v) or (p[-1] if p else "") != v.name:
        return False
    return r == [] or (r[0] < len(w.objs) and is_live(w, w.objs[r[0]]))


def is_top_down(w, op) -> bool:
    """Python mirror of the Coq predicate top_down (evaluated in the state before the operation)."""
    t = op[0]
    if t == "alloc":
        return False
    if t == "set":
        return reattach_ok(w, op)
    if t == "new" and op[2] == [] and len(op[3]) == 1 and op[4] == "L":
        return False
    if t in ("new", "del"):
        return op[2] == [] or (op[2][0] < len(w.objs) and is_live(w, w.objs[op[2][0]]))
    return op[1] < len(w.objs) and is_live(w, w.objs[op[1]])


def canon_outcome(op, out):
    """resolve_target: which exception reports an unresolvable target depends on error-message construction
    (AliasResolutionError needs an enclosing module, else ValueError): all are `rejected`."""
    if op[0] == "resolve" and out in ("value", "unresolved", "missing"):
        return "rejected"
    return out


class World:
    """The implementation side: one ModulesCollection and every object constructed so far (index = model id)."""

    def __init__(self):
        griffe, _, _ = _griffe()
        self.g = griffe
        self.col = griffe.ModulesCollection()
        self.objs = []
        self.ids = {}

    # -- construction
    def construct(self, kind, name, tgt):
        g = self.g
        if kind == "M":
            return g.Module(name)
        if kind == "C":
            return g.Class(name)
        if kind == "F":
            return g.Function(name)
        if kind == "A":
            return g.Attribute(name)
        if tgt[0] == "s":
            return g.Alias(name, ".".join(tgt[1]))
        return g.Alias(name, self.objs[tgt[1]])

    def register(self, o):
        self.ids[id(o)] = len(self.objs)
        self.objs.append(o)

    def key(self, parts, form):
        if form == "str":
            return ".".join(parts)
        return tuple(parts)

    def recv(self, r):
        return self.col if r == [] else self.objs[r[0]]

    def alloc_is_scope(self, kind, tgt) -> bool:
        return self.alloc_verdict(kind, tgt) != "ok"

    def alloc_verdict(self, kind, tgt) -> str:
        """Mirror of the model's constructor rule: is an object constructed at all?"""
        if kind != "L":
            return "ok" if tgt == [] else "bad"
        if not tgt:
            return "bad"
        if tgt[0] == "s":
            return "ok"
        if tgt[1] >= len(self.objs):
            return "bad"
        return "scope" if self.objs[tgt[1]].is_alias else "ok"

    def apply(self, op, form="tuple", only_alloc=False) -> str:
        """Run one operation on the implementation; returns the outcome enum."""
        try:
            t = op[0]
            if t == "alloc":
                self.register(self.construct(op[1], op[2], op[3]))
            elif t == "new":
                _, api, r, parts, kind, tgt = op
                o = self.construct(kind, parts[-1] if parts else "", tgt)
                self.register(o)
                if only_alloc:
                    return "ok"
                self._set(api, r, parts, o, form)
            elif t == "set":
                self._set(op[1], op[2], op[3], self.objs[op[4]], form)
            elif t == "del":
                _, api, r, parts = op
                rc = self.recv(r)
                if api:
                    del rc[self.key(parts, form)]
                else:
                    rc.del_member(self.key(parts, form))
            elif t == "resolve":
                self.objs[op[1]].resolve_target()
            elif t == "settarget":
                self.objs[op[1]].target = self.objs[op[2]]
            else:
                raise HarnessError("unknown op")
            return "ok"
        except HarnessError:
            raise
        except Exception as e:  # noqa: BLE001
            return err_name(e)

    def _set(self, api, r, parts, o, form):
        rc = self.recv(r)
        if api:
            rc[self.key(parts, form)] = o
        else:
            rc.set_member(self.key(parts, form), o)

    # -- abstraction
    def idx(self, o):
        return self.ids.get(id(o), -1)

    def dump(self):
        nodes = []
        for o in self.objs:
            ali = bool(o.is_alias)
            kind = "L" if ali else {"module": "M", "class": "C", "function": "F", "attribute": "A"}[o.kind.value]
            par = o.parent
            try:
                mc = 1 if o.modules_collection is self.col else 0
            except (ValueError, AttributeError, RecursionError):
                mc = 0
            try:
                p = ["ok", o.path.split(".")]
            except AttributeError:
                p = ["attr"]
            except RecursionError:
                p = ["fuel"]
            if ali:
                tg = [self.idx(o.target)] if o.resolved else []
                nodes.append([o.name, kind, [] if par is None else [self.idx(par)], [], tg, split_path(o.target_path), [], mc, p])
            else:
                nodes.append([o.name, kind, [] if par is None else [self.idx(par)],
                              [[k, self.idx(m)] for k, m in o.members.items()], [], [],
                              sorted([k.split("."), self.idx(a)] for k, a in o.aliases.items()), mc, p])
        return [nodes, [[k, self.idx(m)] for k, m in self.col.members.items()]]

    # -- the tree as the implementation sees it
    def walk(self):
        """(path tuple, container, key, member) for everything reachable from the collection through non-alias members."""
        out = []
        seen = set()
        stack = [((), self.col)]
        while stack:
            pre, c = stack.pop()
            for k, m in list(c.members.items()):
                out.append((pre + (k,), c, k, m))
                if not m.is_alias and id(m) not in seen:
                    seen.add(id(m))
                    stack.append((pre + (k,), m))
        return out


def norm_model_state(st):
    nodes, root = st
    out = []
    for n in nodes:
        n = list(n)
        n[6] = sorted(n[6])
        if n[5] == [""]:
            n[5] = []          # target_path "" and the one-element path of an object named "" are the same string
        out.append(n)
    return [out, root]


# ---------------------------------------------------------------- direct evaluation of the property on the implementation
class Spec:
    """Reference dictionary path -> object, updated by the specification rules only."""

    def __init__(self):
        self.d = {}

    def where(self, o):
        return [p for p, x in self.d.items() if x is o]

    def drop(self, P):
        n = len(P)
        for q in [q for q in self.d if q[:n] == P]:
            del self.d[q]

    def set(self, P, v):
        self.drop(P)
        self.d[P] = v
        stack = [(P, v)]
        seen = set()
        while stack:   # a value that already has members brings its subtree (bottom-up histories only)
            pre, o = stack.pop()
            if o.is_alias or id(o) in seen:
                continue
            seen.add(id(o))
            for k, m in o.members.items():
                self.d[pre + (k,)] = m
                stack.append((pre + (k,), m))


def abs_path(w: World, spec: Spec, r, parts):
    """Absolute path of (receiver, relative parts) when the receiver is in the tree, else None."""
    if r == []:
        return tuple(parts)
    at = spec.where(w.objs[r[0]])
    if len(at) != 1:
        return None
    return at[0] + tuple(parts)


def live_aliases_targeting(w: World, old):
    return [(p, m) for p, _, _, m in w.walk() if m.is_alias and m.resolved and m.target is old]


def check_invariants(w: World, spec: Spec | None):
    """Clauses 1,2,3,6,7 of the property + reference dictionary. Returns a list of (clause, detail, alias-id|None)."""
    bad = []
    col = w.col
    tree = w.walk()
    if spec is not None:
        got = {p: m for p, _, _, m in tree}
        if set(got) != set(spec.d) or any(got[p] is not spec.d[p] for p in got):
            bad.append(("refines-dict", {"tree": sorted(".".join(p) for p in got), "reference": sorted(".".join(p) for p in spec.d)}, None))
    for p, c, k, m in tree:
        dotted = ".".join(p)
        if c is col:
            try:
                ok = m.parent is None and m.modules_collection is col
            except Exception:  # noqa: BLE001
                ok = False
            if not ok:
                bad.append(("parent-is-container", dotted, None))
        elif m.parent is not c:
            bad.append(("parent-is-container", dotted, None))
        try:
            own = m.path
        except Exception as e:  # noqa: BLE001
            bad.append(("retrievable-by-own-path", [dotted, "path raises " + type(e).__name__], None))
            continue
        if own != dotted:
            bad.append(("retrievable-by-own-path", [dotted, own], None))
        try:
            if col.get_member(own) is not m or col.get_member(tuple(own.split("."))) is not m or col[own] is not m or col[tuple(own.split("."))] is not m:
                bad.append(("retrievable-by-own-path", [dotted, own, "lookup returns another object"], None))
            cur = col
            for part in p:
                cur = cur.members[part]
            if cur is not m:
                bad.append(("dotted-eq-chained", dotted, None))
        except Exception as e:  # noqa: BLE001
            bad.append(("retrievable-by-own-path", [dotted, own, type(e).__name__], None))
        if m.is_alias and m.resolved:
            t = m.target
            if t is m:
                bad.append(("no-self-target", dotted, w.idx(m)))
            elif not t.is_alias:
                if t.aliases.get(own) is not m:
                    holder = t.aliases.get(own)
                    bad.append(("backref-listed", {"alias": own, "target": w.idx(t), "keys": sorted(k2 for k2, a in t.aliases.items() if a is m),
                                                   "held_by": None if holder is None else w.idx(holder)}, w.idx(m)))
    return bad


def tainted_by(w: World, op):
    """C16-F1 history shape: ids of resolved aliases sitting inside a subtree at the moment it is attached (bottom-up)."""
    if op[0] != "set":
        return set()
    out = set()
    stack = [w.objs[op[4]]]
    seen = set()
    first = True
    while stack:
        o = stack.pop()
        if id(o) in seen:
            continue
        seen.add(id(o))
        if o.is_alias:
            if not first and o.resolved:
                out.add(w.idx(o))
        else:
            stack.extend(o.members.values())
        first = False
    return out


class Direct:
    """Drives one history on the implementation and evaluates the property after every step (no model involved).

    Known findings are recognised by EXACT predicates over what is observed of the history, never by the mere shape of the
    history: every write into an `aliases` dictionary is observed (dictionary diff around each operation) and remembered as the
    alias's last registration (target, key, parent at that time).
      C16-F1  (key never refreshed) the failing alias has never been written under its present path at its present target, it has
              been under a key that agrees with its present path from the parent's name on, and an ancestor of it was attached
              after its last observed registration;
              (clobbered from outside the tree) it HAS been written under its present path, but the entry now holds an alias that
              has never been in the tree and whose own (detached) path spells the same key.
      C16-F3  the same clobbering by an alias that HAS been in the tree and was deleted or replaced since (its stale entry in the
              aliases of a replaced object is re-targeted by set_member and re-registers under the path it no longer occupies).
    """

    def __init__(self, ctx, w: World, label: str):
        self.ctx, self.w, self.label = ctx, w, label
        self.spec = Spec()
        self.tainted = set()
        self.misuse = False      # a hypothesis of the property does not hold for this history (key != name, alias directly in
        #                          the collection, object inserted while it is a member elsewhere, former sub-object put directly
        #                          into the collection, operation applied to an object that is no longer in the tree)
        self.once_live = set()
        self.history = []
        self.top_down = True
        self.shrink = True
        self.reported = False
        self.regs = {}           # id(alias) -> {(id(target), key)}: every entry ever observed to hold the alias
        self.entries = {}        # (id(target), key) -> alias: the aliases dictionaries after the previous step
        self.memo = {}           # (alias, target, path, holder) -> finding: failures already classified at an earlier step

    def dead(self, o) -> bool:
        return id(o) in self.once_live and not is_live(self.w, o)

    def classify(self, f, pre_path=None):
        """Finding id when the failure satisfies that finding's exact predicate, else None (= a new violation)."""
        clause, detail, aid = f
        w = self.w
        if clause != "backref-listed" or aid is None or aid < 0:
            return None
        a = w.objs[aid]
        t = a.target
        cur = detail["alias"]
        memo_key = (aid, id(t), cur, detail.get("held_by"))
        if memo_key in self.memo:
            return self.memo[memo_key]      # the same overwritten entry as at an earlier step (the holder may have moved since)
        fid = self._classify_backref(a, aid, t, cur, detail)
        if fid is not None:
            self.memo[memo_key] = fid
        return fid

    def _classify_backref(self, a, aid, t, cur, detail):
        w = self.w
        regs = self.regs.get(id(a), ())
        if (id(t), cur) not in regs:
            # never written under its present path at this target: known only as a key that was right before an ancestor moved
            c = cur.split(".")
            stale = [k.split(".") for tt, k in regs if tt == id(t)]
            if aid in self.tainted and any(len(k) >= 2 and k[-2:] == c[-2:] for k in stale):
                return "C16-F1"
            return None
        hb = detail.get("held_by")
        if hb is None or hb < 0 or hb == aid:
            return None
        h = w.objs[hb]
        if is_live(w, h):
            return None
        try:
            hp = h.path
        except (AttributeError, RecursionError):
            return None
        if hp != cur:
            return None
        return "C16-F3" if id(h) in self.once_live else "C16-F1"

    def step(self, op, form, skip=False, only_alloc=False):
        w = self.w
        self.history.append({"op": op, "form": form, "skipped": skip})
        if skip and not only_alloc:
            return "scope"
        # hypotheses
        if op[0] == "set" and op[3] and op[4] < len(w.objs) and w.objs[op[4]].name != op[3][-1]:
            self.misuse = True
        if op[0] == "new" and op[2] == [] and len(op[3]) == 1 and op[4] == "L":
            self.misuse = True
        if op[0] in ("new", "set") and op[3] and (op[3][-1] == "" or "." in op[3][-1]):
            self.misuse = True      # names are identifiers: not empty, no dot (a dotted string could not address them)
        if op[0] == "alloc" and (op[2] == "" or "." in op[2]):
            self.misuse = True
        if op[0] == "set" and op[2] == [] and len(op[3]) == 1 and op[4] < len(w.objs) and w.objs[op[4]].is_alias:
            self.misuse = True
        if op[0] == "set" and op[4] < len(w.objs):
            v = w.objs[op[4]]
            if is_member_somewhere(w, v):
                self.misuse = True      # inserting an object that is still a member somewhere: sharing
            if op[2] == [] and len(op[3]) == 1 and v.parent is not None:
                self.misuse = True      # the collection API cannot clear the parent of a former sub-object
        refs = []
        if op[0] in ("new", "del", "set") and op[2] != [] and op[2][0] < len(w.objs):
            refs.append(w.objs[op[2][0]])
        if op[0] in ("resolve", "settarget") and op[1] < len(w.objs):
            refs.append(w.objs[op[1]])
        if any(self.dead(o) for o in refs):
            self.misuse = True
        taint = tainted_by(w, op)
        before = None
        replaced = None
        pre_path = None
        pre_vals = []
        if op[0] in ("new", "set") and not only_alloc:
            P = abs_path(w, self.spec, op[2], op[3]) if op[3] else None
            if op[1] == 0 and P is not None and P in self.spec.d and not self.spec.d[P].is_alias:
                replaced = self.spec.d[P]
                before = live_aliases_targeting(w, replaced)
                pre_vals = list(replaced.aliases.values())
            if op[0] == "new":
                pre_path = op[3][-1] if op[3] else None
            elif op[4] < len(w.objs):
                try:
                    pre_path = w.objs[op[4]].path
                except (AttributeError, RecursionError):
                    pre_path = None
        out = w.apply(op, form, only_alloc=only_alloc)
        if only_alloc:
            return "scope"
        # registrations observed during this operation; subtree attachment (which comes last in set_member) taints afterwards
        now = alias_entries(w)
        for key, a in now.items():
            if self.entries.get(key) is not a:
                self.regs.setdefault(id(a), set()).add(key)
                self.tainted.discard(w.idx(a))
        self.entries = now
        if pre_vals and len(w.objs) > 0:
            # set_member re-targets every alias listed by the replaced member, one after the other: each one that now points at
            # the new member was written under its path at that moment, even if a later one took the entry within the same call
            v = w.objs[-1] if op[0] == "new" else (w.objs[op[4]] if op[4] < len(w.objs) else None)
            for x in pre_vals:
                if v is not None and x.resolved and x._target is v and (ATTACH_FIRST or w.idx(x) not in taint):
                    # (an alias INSIDE the object being attached is re-targeted while that object is still detached, unless
                    # set_member attaches first: its key is the detached path, which the taint rule covers)
                    try:
                        self.regs.setdefault(id(x), set()).add((id(v), x.path))
                    except (AttributeError, RecursionError):
                        pass
        self.tainted |= taint
        # reference dictionary
        if out == "ok":
            if op[0] in ("new", "set"):
                P = abs_path(w, self.spec, op[2], op[3])
                v = w.objs[-1] if op[0] == "new" else w.objs[op[4]]
                if P is not None:
                    self.spec.set(P, v)
            elif op[0] == "del":
                P = abs_path(w, self.spec, op[2], op[3])
                if P is not None:
                    self.spec.drop(P)
        fails = []
        self.once_live |= {id(m) for _, _, _, m in w.walk()}
        if not self.misuse:
            fails = check_invariants(w, self.spec)
            if out == "ok" and op[0] == "del":
                try:
                    w.recv(op[2]).get_member(tuple(op[3]))
                    fails.append(("deleted-gone", op, None))
                except KeyError:
                    pass
                except Exception as e:  # noqa: BLE001
                    fails.append(("deleted-gone", [op, type(e).__name__], None))
            if out == "ok" and before:
                v = w.objs[-1] if op[0] == "new" else w.objs[op[4]]
                still = {id(m) for _, _, _, m in w.walk()}
                try:
                    vpath = v.path
                except (AttributeError, RecursionError):
                    vpath = None        # cyclic parents (an object inserted below itself): no path to compare with
                for p, a in before:
                    if id(a) not in still:
                        continue
                    if a.target is not v:
                        fails.append(("alias-follows-replacement", {"alias": ".".join(p), "replaced": w.idx(replaced), "now": vpath}, w.idx(a)))
                    elif vpath is not None and a.target_path != vpath:
                        # following the replacement includes naming it: Object.resolve, the JSON form and a later
                        # resolve_target all go by target_path
                        fails.append(("alias-follows-replacement", {"sub": "target_path", "alias": ".".join(p), "replaced": w.idx(replaced),
                                                                    "target_path": a.target_path, "expected": vpath}, w.idx(a)))
            if op[0] == "settarget" and op[1] == op[2] and out != "cyclic" and w.objs[op[1]].is_alias:
                fails.append(("no-self-target", {"alias": op[1], "outcome": out}, op[1]))
        seen_known = set()
        for f in fails[:6]:
            fid = self.classify(f, pre_path)
            self.ctx.observe("direct_failure", f[0] + ("/" + fid[4:] if fid else ""))
            if fid is None and self.shrink and not self.reported:
                self.reported = True
                small = shrink_history([dict(h) for h in self.history], f[0])
                self.ctx.property_failure({"stream": self.label, "history": small, "original_length": len(self.history)},
                                          {"clause": f[0], "detail": f[1]}, finding=None)
            elif fid is None or fid not in seen_known:
                seen_known.add(fid)
                self.ctx.property_failure({"stream": self.label, "history": list(self.history)}, {"clause": f[0], "detail": f[1]}, finding=fid)
        return out


class _Collect:
    """Stand-in for ctx while re-running a candidate history during shrinking."""

    def __init__(self):
        self.fails = []
        self.known = {}

    def property_failure(self, case, detail, finding=None):
        self.fails.append((detail["clause"], finding))

    def observe(self, *a, **k):
        pass


def impl_scope_skip(w, op) -> bool:
    """Cheap implementation-side approximation of the model's `scope` verdict (used when no model verdict is at hand)."""
    if op[0] == "alloc":
        return w.alloc_verdict(op[1], op[3]) != "ok"
    if op[0] == "new" and (w.alloc_verdict(op[4], op[5]) != "ok" or (op[2] != [] and op[2][0] >= len(w.objs))):
        return True
    if op[0] in ("new", "set", "del") and op[2] != [] and op[2][0] >= len(w.objs):
        return True
    if op[0] == "set" and op[4] >= len(w.objs):
        return True
    if op[0] in ("resolve", "settarget"):
        if op[1] >= len(w.objs) or not w.objs[op[1]].is_alias:
            return True
    if op[0] == "settarget":
        if op[2] >= len(w.objs) or (w.objs[op[2]].is_alias and op[1] != op[2]):
            return True
    if op[0] == "resolve":
        try:
            if w.col.get_member(w.objs[op[1]].target_path).is_alias:
                return True
        except Exception:  # noqa: BLE001
            pass
    return through_alias(w, op) or self_replace(w, op) or chain_replace(w, op)


def still_fails(hist, clause) -> bool:
    w = World()
    c = _Collect()
    d = Direct(c, w, "shrink")
    d.shrink = False
    for h in hist:
        if h.get("skipped") or impl_scope_skip(w, h["op"]):
            continue
        try:
            d.step(h["op"], h.get("form", "tuple"))
        except Exception:  # noqa: BLE001
            return False
        if any(cl == clause and fid is None for cl, fid in c.fails):
            return True
    return False


def _refs(op):
    """Positions in the op that hold object ids: list of (container, index)."""
    t = op[0]
    out = []
    if t in ("new", "del", "set") and op[2]:
        out.append((op[2], 0))
    if t == "set":
        out.append((op, 4))
    if t in ("resolve", "settarget"):
        out.append((op, 1))
    if t == "settarget":
        out.append((op, 2))
    tg = op[3] if t == "alloc" else (op[5] if t == "new" else None)
    if tg and tg[0] == "o":
        out.append((tg, 1))
    return out


def drop_op(hist, j):
    """History without step j; object ids renumbered when step j constructed an object. None if someone refers to it."""
    import copy
    w = World()
    allocated = None
    for i, h in enumerate(hist):
        before = len(w.objs)
        if not (h.get("skipped") or impl_scope_skip(w, h["op"])):
            w.apply(h["op"], h.get("form", "tuple"))
        elif h["op"][0] == "new" and w.alloc_verdict(h["op"][4], h["op"][5]) == "ok" and (h["op"][2] == [] or h["op"][2][0] < len(w.objs)):
            w.apply(h["op"], h.get("form", "tuple"), only_alloc=True)
        if i == j and len(w.objs) > before:
            allocated = before
    new = [copy.deepcopy(h) for i, h in enumerate(hist) if i != j]
    if allocated is not None:
        for h in new:
            for cont, idx in _refs(h["op"]):
                if cont[idx] == allocated:
                    return None
                if cont[idx] > allocated:
                    cont[idx] -= 1
    return new


def shrink_history(hist, clause, budget=300):
    """Greedy removal of operations while the same clause still fails on the implementation (no model involved)."""
    try:
        if not still_fails(hist, clause):
            return hist
        changed = True
        while changed and budget > 0:
            changed = False
            for j in range(len(hist) - 1, -1, -1):
                budget -= 1
                if budget <= 0:
                    break
                cand = drop_op(hist, j)
                if cand is not None and still_fails(cand, clause):
                    hist = cand
                    changed = True
        return hist
    except Exception:  # noqa: BLE001
        return hist


# ---------------------------------------------------------------- generators
def exhaustive_alphabet(names, deep):
    paths = [[n] for n in names] + [[a, b] for a in names for b in names] + ([[names[0]] * 3] if deep else [])
    ops = []
    for api in (0, 1):
        for p in paths:
            for k in "MCFA":
                ops.append(["new", api, [], p, k, []])
            for tp in ([names[0]], [names[0], names[0]], [names[0], names[1]]):
                ops.append(["new", api, [], p, "L", ["s", tp]])
            ops.append(["del", api, [], p])
    for i in range(3):
        ops.append(["resolve", i])
    for a in range(3):
        for v in range(3):
            ops.append(["settarget", a, v])
    ops.append(["new", 0, [0], [names[1]], "L", ["o", 0]])
    ops.append(["new", 0, [0], [names[0]], "F", []])
    ops.append(["new", 1, [1], [names[1]], "C", []])
    return ops


def reduced_alphabet(names):
    """Operations that matter for interleavings (used for the longer exhaustive sequences)."""
    a, b = names[0], names[1]
    ops = [["new", 0, [], [a], "M", []], ["new", 0, [], [a, a], "C", []], ["new", 0, [], [a, b], "F", []], ["new", 1, [], [a, b], "A", []],
           ["new", 0, [], [a, a, a], "F", []], ["new", 0, [], [a, b], "L", ["s", [a, a]]], ["new", 0, [], [a, a, b], "L", ["s", [a, b]]],
           ["new", 0, [], [a, a], "L", ["s", [a, a]]], ["new", 0, [], [a, b], "L", ["o", 1]], ["new", 1, [], [a, a], "M", []],
           ["del", 0, [], [a, a]], ["del", 1, [], [a, b]], ["del", 0, [], [a]],
           ["resolve", 1], ["resolve", 2], ["settarget", 2, 1], ["settarget", 2, 2], ["settarget", 1, 2], ["settarget", 2, 0],
           # object identities used again: whatever was constructed second / third is inserted (again) at a.b, resp. below a.a
           ["set", 0, [], [a, b], 1], ["set", 0, [], [a, b], 2], ["set", 1, [], [a, a, b], 2]]
    return ops


class Gen:
    """State-guided random history generator (pass 1 runs against its own World so that choices are meaningful)."""

    def __init__(self, rng, stream):
        self.rng, self.stream = rng, stream
        self.w = World()
        self.once_live = set()
        self.td = stream in ("top-down", "reattach")      # operations are applied to objects of the tree only

    def name(self):
        return self.rng.choice(NAMES)

    def live(self):
        return self.w.walk()

    def container_choice(self):
        """(recv, relative parts prefix) of a place to put / delete something."""
        rng = self.rng
        tree = self.live()
        conts = [((), self.w.col)] + [(p, m) for p, _, _, m in tree if not m.is_alias]
        if self.stream == "bottom-up" and rng.random() < 0.4:
            det = [o for o in self.w.objs if not o.is_alias and o.parent is None and all(o is not m for m in self.w.col.members.values())]
            if det:
                o = rng.choice(det)
                # descend a little
                pre = []
                cur = o
                while rng.random() < 0.4:
                    subs = [(k, m) for k, m in cur.members.items() if not m.is_alias]
                    if not subs:
                        break
                    k, cur = rng.choice(subs)
                    pre.append(k)
                return [self.w.idx(o)], pre
        p, c = rng.choice(conts)
        if rng.random() < 0.25 and p:
            # address it relative to one of its ancestors
            cut = rng.randint(0, len(p) - 1)
            anc = self.w.col
            for part in p[:cut]:
                anc = anc.members[part]
            if anc is self.w.col:
                return [], list(p)
            return [self.w.idx(anc)], list(p[cut:])
        if not self.td and rng.random() < 0.05:
            dead = [i for i, o in enumerate(self.w.objs) if not o.is_alias]
            if dead:
                return [rng.choice(dead)], []
        return [], list(p)

    def target_choice(self):
        t = self._target_choice()
        if t[0] == "s" and t[1] == [""]:
            return ["s", []]
        return t

    def _target_choice(self):
        rng = self.rng
        tree = self.live()
        r = rng.random()
        if tree and r < 0.6:
            cands = [p for p, _, _, m in tree if not m.is_alias] or [p for p, _, _, m in tree]
            return ["s", list(rng.choice(cands))]
        if tree and r < 0.7:
            return ["s", list(rng.choice(tree)[0])]
        if r < 0.8:
            cands = [i for i, o in enumerate(self.w.objs) if not o.is_alias]
            if cands:
                return ["o", rng.choice(cands)]
        if r < 0.9:
            return ["s", [self.name() for _ in range(rng.randint(1, 3))]]
        return ["s", ["zz", "q"]]

    def next_op(self):
        rng = self.rng
        w = self.w
        form = rng.choice(["str", "tuple"])
        r = rng.random()
        malformed = self.stream == "malformed" and rng.random() < 0.3
        if malformed:
            kind = rng.choice(["empty", "emptypart", "missing", "selftarget", "deep"])
            if kind == "empty":
                return rng.choice([["new", rng.randint(0, 1), [], [], "F", []], ["del", rng.randint(0, 1), [], []]]), form
            if kind == "emptypart":
                return rng.choice([["new", 0, [], [self.name(), ""], "F", []], ["del", 1, [], ["", self.name()]], ["new", 1, [], [""], "M", []]]), "tuple"
            if kind == "missing":
                return rng.choice([["del", rng.randint(0, 1), [], ["zz"]], ["del", rng.randint(0, 1), [], [self.name(), "zz"]],
                                   ["new", rng.randint(0, 1), [], ["zz", self.name()], "C", []]]), form
            if kind == "selftarget":
                al = [i for i, o in enumerate(w.objs) if o.is_alias]
                if al:
                    a = rng.choice(al)
                    return ["settarget", a, a], form
            if kind == "deep":
                return ["new", 0, [], [self.name() for _ in range(5)], "F", []], form
        if self.stream == "reattach":
            op = self.reattach_op()
            if op is not None:
                return op, form
        if self.stream == "bottom-up" and r < 0.22:
            k = rng.choice("MCCFAL")
            return ["alloc", k, self.name(), self.target_choice() if k == "L" else []], form
        if self.stream == "bottom-up" and r < 0.42:
            det = [i for i, o in enumerate(w.objs) if o.parent is None and all(o is not m for m in w.col.members.values())]
            if det:
                v = rng.choice(det)
                rc, pre = self.container_choice()
                key = w.objs[v].name if rng.random() < 0.93 else self.name()
                # never put an object inside its own subtree
                c = w.recv(rc)
                ok = True
                try:
                    for part in pre:
                        c = c.members[part]
                    x = c
                    while x is not None and x is not w.col:
                        if x is w.objs[v]:
                            ok = False
                        x = getattr(x, "parent", None)
                except Exception:  # noqa: BLE001
                    ok = True
                if ok:
                    return ["set", rng.randint(0, 1) if rng.random() < 0.3 else 0, rc, pre + [key], v], form
        if r < 0.62:
            rc, pre = self.container_choice()
            top = rc == [] and not pre
            if top:
                k = "M" if rng.random() < 0.8 else rng.choice("CFAL" if rng.random() < 0.1 else "CFA")
            else:
                k = rng.choice("MCCFAALLL")
            tgt = self.target_choice() if k == "L" else []
            api = 0 if rng.random() < 0.7 else 1
            return ["new", api, rc, pre + [self.name()], k, tgt], form
        if r < 0.74:
            rc, pre = self.container_choice()
            return ["del", rng.randint(0, 1), rc, pre + [self.name()]], form
        al = [i for i, o in enumerate(w.objs) if o.is_alias]
        if not al:
            return ["new", 0, [], [self.name()], "M", []], form
        live_al = [w.idx(m) for _, _, _, m in self.live() if m.is_alias]
        if self.td and not live_al:
            return ["new", 0, [], [self.name()], "M", []], form
        a = rng.choice(live_al) if live_al and (self.td or rng.random() < 0.85) else rng.choice(al)
        if r < 0.88:
            return ["resolve", a], form
        cands = [i for i, o in enumerate(w.objs) if not o.is_alias]
        if rng.random() < 0.12 or not cands:
            v = rng.choice(range(len(w.objs)))
        else:
            v = rng.choice(cands)
        return ["settarget", a, v], form

    def reattach_op(self):
        """Operations that re-use object identities: a deleted / replaced object (alias or plain, with whatever it still
        contains) is inserted again, under its own name, somewhere in the tree; a live alias is replaced by a new alias with
        the same name and the same target. None: fall through to the ordinary top-down choices."""
        rng, w = self.rng, self.w
        r = rng.random()
        if r < 0.17:
            gone = [i for i, o in enumerate(w.objs) if id(o) in self.once_live and not is_member_somewhere(w, o)]
            if not gone:
                return None
            al = [i for i in gone if w.objs[i].is_alias]
            v = rng.choice(al) if al and rng.random() < 0.6 else rng.choice(gone)
            o = w.objs[v]
            for _ in range(4):
                rc, pre = self.container_choice()
                if rc == [] and not pre and (o.is_alias or o.parent is not None):
                    continue        # the collection takes parentless non-alias objects only
                key = o.name if rng.random() < 0.95 else self.name()
                return ["set", 1 if rng.random() < 0.25 else 0, rc, pre + [key], v]
            return None
        if r < 0.27:
            live_al = [(p, m) for p, _, _, m in self.live() if m.is_alias and len(p) >= 2]
            if not live_al:
                return None
            p, m = rng.choice(live_al)
            if m.resolved and not m.target.is_alias and rng.random() < 0.5:
                tgt = ["o", w.idx(m.target)]
            else:
                tgt = ["s", split_path(m.target_path)]
            return ["new", 1 if rng.random() < 0.25 else 0, [], list(p), "L", tgt]
        return None

    def history(self, n):
        out = []
        for _ in range(n):
            op, form = self.next_op()
            if form == "str" and op[0] in ("new", "set", "del") and (not op[3] or any(("." in x or x == "") for x in op[3])):
                form = "tuple" if op[3] else form
            out.append((op, form))
            w = self.w
            # keep pass 1 roughly in the model's scope: do not run what the model will refuse
            if op[0] == "alloc" and w.alloc_is_scope(op[1], op[3]):
                continue
            if op[0] == "new" and w.alloc_is_scope(op[4], op[5]):
                continue
            if op[0] == "settarget" and w.objs[op[2]].is_alias and op[1] != op[2]:
                continue
            if op[0] == "resolve":
                a = w.objs[op[1]]
                try:
                    if w.col.get_member(a.target_path).is_alias:
                        continue
                except Exception:  # noqa: BLE001
                    pass
            w.apply(op, form)
            if self.stream == "reattach":
                self.once_live |= {id(m) for _, _, _, m in w.walk()}
        return out


# ---------------------------------------------------------------- differential runs
def run_history(ctx, hist, label, every_step=True):
    """hist: list of (op, form). Model trace vs implementation replay; direct evaluation after every step."""
    ops = [op for op, _ in hist]
    mode = "trace" if every_step else "final"
    return (mode, ops, hist, label)


def compare_batch(ctx, batch):
    """batch: list of (mode, ops, hist, label)."""
    outs = ctx.model([[mode, ops] for mode, ops, _, _ in batch])
    through = []
    for (mode, ops, hist, label), mo in zip(batch, outs):
        if mo == ["bad-input"]:
            ctx.tie_failure("harness", "model rejected the operation encoding", ops)
            continue
        w = World()
        d = Direct(ctx, w, label)
        if mode == "trace":
            outcomes = [m[0] for m in mo]
            flags = [m[1] for m in mo]
            states = [m[2] for m in mo]
        else:
            outcomes, final_state, gap = mo
            flags = [None] * len(ops)
            states = [None] * (len(ops) - 1) + [final_state] if ops else []
            model_gap = bool(gap)
        ok_steps = 0
        mismatch = None
        all_td = True
        for i, ((op, form), mout) in enumerate(zip(hist, outcomes)):
            ctx.observe("op", op[0])
            ctx.observe("outcome", mout)
            ctx.observe("op_outcome", f"{op[0]}{'/consumer' if op[0] in ('new', 'set', 'del') and op[1] else ''}:{mout}")
            if op[0] in ("new", "set", "del"):
                ctx.observe("key_form", form)
                ctx.observe("receiver", "collection" if op[2] == [] else "object")
                ctx.observe("path_len", len(op[3]))
            if op[0] == "new":
                ctx.observe("new_kind", op[4] + ("/obj-target" if op[5] and op[5][0] == "o" else ""))
            td = is_top_down(w, op)
            all_td = all_td and td
            if flags[i] is not None and bool(flags[i]) != td:
                ctx.tie_failure("correspondence", "top_down(model) vs python mirror", {"model": flags[i], "step": i}, {"history": [{"op": o, "form": f} for o, f in hist]})
            if mout in ("scope", "bad"):
                # outside the model: not applied; a fresh object is still constructed when the model allocated it
                only_alloc = op[0] == "new" and w.alloc_verdict(op[4], op[5]) == "ok" and (op[2] == [] or op[2][0] < len(w.objs))
                d.step(op, form, skip=True, only_alloc=only_alloc)
                iout = mout
            else:
                iout = d.step(op, form)
            if iout == "ok":
                ok_steps += 1
            if canon_outcome(op, iout) != canon_outcome(op, mout) and mismatch is None:
                mismatch = {"step": i, "op": op, "form": form, "model": mout, "impl": iout}
            if states[i] is not None and mismatch is None:
                ms = norm_model_state(states[i])
                ist = w.dump()
                if ms != ist:
                    diff = first_diff(ms, ist)
                    mismatch = {"step": i, "op": op, "form": form, "outcome": mout, "diff": diff}
        if mode == "final" and model_gap != (not all_td) and mismatch is None:
            ctx.tie_failure("correspondence", "known_gap(model) vs python mirror", {"model": model_gap, "python": not all_td},
                            {"history": [{"op": o, "form": f} for o, f in hist]})
        ctx.observe("discipline", "top-down" if all_td else "outside")
        nodes = len(w.objs)
        depth = max([len(p) for p, _, _, _ in w.walk()] or [0])
        has_alias = any(o.is_alias for o in w.objs)
        ctx.case({"stream": label, "ops": ops}, ok_steps > 0 and (depth >= 2 or has_alias))
        ctx.observe("stream", label)
        ctx.observe("history_len", len(ops) if len(ops) < 10 else f"{len(ops) // 10 * 10}+")
        ctx.observe("final_depth", depth)
        ctx.observe("final_nodes", nodes if nodes < 10 else f"{nodes // 10 * 10}+")
        if mismatch is not None:
            ctx.tie_failure("correspondence", "step(model) vs griffe object API", mismatch,
                            {"stream": label, "history": [{"op": o, "form": f} for o, f in hist]})
        elif mode == "trace":
            qs = through_queries(ctx, w)
            if qs:
                through.append((ops, hist, label, w, qs))
        ctx.count("histories")
    compare_through(ctx, through)


def through_queries(ctx, w):
    """Lookups THROUGH the aliases of the tree a history ends in: (receiver, path) pairs, absolute and relative."""
    rng = ctx.rng
    als = [(p, m) for p, _, _, m in w.walk() if m.is_alias and len(p) >= 2]
    if not als:
        return []
    qs = []
    res = [(p, m) for p, m in als if m._target is not None]
    picked = rng.sample(res, min(2, len(res))) + rng.sample(als, min(2, len(als)))
    for p, m in picked:
        t = m._target
        known = list(t.members) if t is not None and not t.is_alias else []       # read without resolving anything
        for n in (known[:3] or NAMES):
            qs.append([[], list(p) + [n]])
            if known and not t.members[n].is_alias and t.members[n].members:
                qs.append([[], list(p) + [n, next(iter(t.members[n].members))]])
        qs.append([[], list(p) + [rng.choice(NAMES), rng.choice(NAMES)]])
        qs.append([[], list(p) + [rng.choice(NAMES), rng.choice(NAMES), rng.choice(NAMES)]])
        par = m.parent
        if par is not None and w.idx(par) >= 0:
            qs.append([[w.idx(par)], [m.name, rng.choice(NAMES)]])
        qs.append([[w.idx(m)], [rng.choice(NAMES)]])
    return qs


def compare_through(ctx, items):
    """gett (Model/C16_through.v) vs get_member through aliases, in the final state of each history. The model is read-only:
    where it meets a link that is not resolved yet it answers `scope` and the lookup is not run on the implementation (it would
    resolve the link)."""
    if not items:
        return
    outs = ctx.model([["through", ops, qs] for ops, _, _, _, qs in items])
    _, ARE, CAE = _griffe()
    for (ops, hist, label, w, qs), mo in zip(items, outs):
        if mo == ["bad-input"]:
            ctx.tie_failure("harness", "model rejected the through-query encoding", qs)
            continue
        for (r, p), mr in zip(qs, mo):
            ctx.observe("through_model", mr[0] if mr[0] != "ok" else "ok/" + mr[1][0])
            if mr[0] in ("scope", "bad", "fuel"):
                continue
            try:
                x = w.recv(r).get_member(tuple(p))
                if id(x) in w.ids:
                    ir = ["ok", ["n", w.idx(x)]]
                else:
                    ir = ["ok", ["w", ["ok", x.path.split(".")], w.idx(x._target) if x._target is not None else -1]]
            except Exception as e:  # noqa: BLE001
                ir = [err_name(e)]
            if ir != mr:
                ctx.tie_failure("correspondence", "gett(model) vs get_member through aliases", {"query": [r, p], "model": mr, "impl": ir},
                                {"stream": label, "history": [{"op": o, "form": f} for o, f in hist]})
                break


def first_diff(ms, ist):
    mn, mr = ms
    inn, ir = ist
    if mr != ir:
        return {"root": {"model": mr, "impl": ir}}
    if len(mn) != len(inn):
        return {"node_count": {"model": len(mn), "impl": len(inn)}}
    fields = ["name", "kind", "parent", "members", "target", "target_path", "aliases", "has_collection", "path"]
    for i, (a, b) in enumerate(zip(mn, inn)):
        for f, x, y in zip(fields, a, b):
            if x != y:
                return {"node": i, "field": f, "model": x, "impl": y}
    return None


def check_parts(ctx):
    from _griffe.mixins import _get_parts
    keys = []
    comps = ["", "a", "b", "ab", "."]
    for n in range(0, 4):
        for c in itertools.product(["", "a", "bc"], repeat=n):
            keys.append(["seq", list(c)])
    for n in range(0, 5):
        for c in itertools.product(["a", "."], repeat=n):
            keys.append(["str", "".join(c)])
    for _ in range(ctx.budget(100, 1000)):
        keys.append(["str", "".join(ctx.rng.choice(["a", "b", ".", "c"]) for _ in range(ctx.rng.randint(0, 9)))])
    outs = ctx.model([["parts", k] for k in keys])
    for k, mo in zip(keys, outs):
        try:
            r = ["ok", list(_get_parts(k[1] if k[0] == "str" else tuple(k[1])))]
        except ValueError:
            r = ["value"]
        ctx.count("parts_cases")
        if mo != r:
            ctx.tie_failure("oracle", "get_parts(model) vs _griffe.mixins._get_parts", {"model": mo, "impl": r}, k)
        # the authority for the dotted form is str.split
        if k[0] == "str" and k[1] and r != ["ok", k[1].split(".")]:
            ctx.property_failure({"key": k}, {"_get_parts": r, "str.split": k[1].split(".")})


# ---------------------------------------------------------------- implementation-only stream (outside the model: chains, through-alias, stubs)
def functools_reduce_get(col, parts):
    cur = col
    for part in parts:
        cur = cur.get_member(part)
    return cur


class _Done(Exception):
    pass


def through_alias_clause(ctx, col, tree, alias_errors):
    """(clause, detail) of the first disagreement between lookups through a resolved alias and its final target, else None."""
    soft = (*alias_errors, KeyError, AttributeError, ValueError)
    for q, _, m in tree:
        if not (m.is_alias and m.resolved) or len(q) < 2:
            continue
        try:
            ft = m.final_target
            target_members = dict(ft.members)
            through = m.members
        except soft:
            continue
        dotted_alias = ".".join(q)
        if list(through) != list(target_members):
            return "dotted-eq-chained", {"alias": dotted_alias, "names_through_alias": sorted(through), "names_of_target": sorted(target_members)}
        for n2 in list(target_members)[:4]:
            expected = target_members[n2]
            full = q + (n2,)
            dotted = ".".join(full)
            forms = (("get_member(str)", lambda: col.get_member(dotted)), ("get_member(tuple)", lambda: col.get_member(full)),
                     ("getitem(str)", lambda: col[dotted]), ("getitem(tuple)", lambda: col[full]),
                     ("chained", lambda: col.get_member(q).get_member(n2)), ("one-by-one", lambda: functools_reduce_get(col, full)),
                     ("alias.members", lambda: m.members[n2]))
            for form_name, f in forms:
                try:
                    found = f()
                except alias_errors:
                    continue
                except (KeyError, AttributeError, ValueError) as e:
                    return "dotted-eq-chained", {"path": dotted, "form": form_name, "raises": type(e).__name__}
                ctx.observe("impl_only_cross_alias", form_name)
                if not found.is_alias or found.path != dotted or found.parent is not m:
                    return "dotted-eq-chained", {"path": dotted, "form": form_name, "found": [bool(found.is_alias), found.path]}
                if not found.resolved or found.target is not expected:
                    return "dotted-eq-chained", {"path": dotted, "form": form_name, "leads_to": repr(found.target), "target_holds": repr(expected),
                                                 "same_object": False}
                try:
                    listed = found.target.aliases.get(dotted)
                except soft:
                    continue
                # (the wrappers are rebuilt on every access, also by the nested lookups that resolving a sibling triggers: what is
                # listed under the wrapper's path is this wrapper or an equal one - same parent, same target)
                if listed is not found and not (listed is not None and listed.is_alias and listed.parent is m and listed.resolved
                                                and listed.target is found.target):
                    return "backref-listed", {"alias": dotted, "form": form_name, "through_alias": True}
        # a name the target does not have is not found through the alias either
        try:
            col.get_member(q + ("zz",))
            if "zz" not in target_members:
                return "deleted-gone", {"path": dotted_alias + ".zz", "through_alias": True}
        except soft:
            pass
    return None


def impl_only_history(ctx, n, label="impl-only"):
    """Top-down histories that also use alias chains, lookups through aliases and modules with file paths (stub merge).
    Only the clauses that are meaningful there are evaluated: parent/retrievable/dotted=chained/deleted-gone/no-self-target and,
    when evaluable without error, backref-listed against the final target."""
    from pathlib import Path
    griffe, ARE, CAE = _griffe()
    rng = ctx.rng
    col = griffe.ModulesCollection()
    hist = []
    moved = set()
    objs = []            # every object constructed in this history
    entries = {}         # (id(object), key) -> alias: the aliases dictionaries as last observed
    regs = {}            # id(alias) -> {(id(object), key)}: every entry ever observed to hold the alias

    f3_memo = set()

    def observe_entries():
        changed = set()
        for ob in objs:
            if not ob.is_alias:
                for k3, a3 in ob.aliases.items():
                    if entries.get((id(ob), k3)) is not a3:
                        entries[(id(ob), k3)] = a3
                        regs.setdefault(id(a3), set()).add((id(ob), k3))
                        changed.add((id(ob), k3))
        return changed

    def walk():
        out, stack, seen = [], [((), col)], set()
        while stack:
            pre, c = stack.pop()
            for k, m in list(c.members.items()):
                out.append((pre + (k,), c, m))
                if not m.is_alias and id(m) not in seen:
                    seen.add(id(m))
                    stack.append((pre + (k,), m))
        return out

    for _ in range(n):
        tree = walk()
        conts = [((), col)] + [(p, m) for p, _, m in tree if not m.is_alias]
        p, c = rng.choice(conts)
        name = rng.choice(NAMES)
        r = rng.random()
        crossing = None       # the real container when the path goes THROUGH a resolved alias
        if rng.random() < 0.12:
            cands = []
            for q, _, m in tree:
                if m.is_alias and m.resolved and len(q) >= 2:
                    try:
                        ft = m.final_target
                    except (ARE, CAE, KeyError, AttributeError, ValueError):
                        continue
                    if ft.is_module or ft.is_class:
                        cands.append((q, ft))
            if cands:
                p, crossing = rng.choice(cands)
                subs = [(k2, m2) for k2, m2 in crossing.members.items() if not m2.is_alias and (m2.is_class or m2.is_module)]
                if subs and rng.random() < 0.3:
                    k2, crossing = rng.choice(subs)
                    p = p + (k2,)
                c = crossing
                if crossing.members and rng.random() < 0.6:
                    name = rng.choice(list(crossing.members))
                r = rng.random() * 0.62
        key = p + (name,)
        k = ".".join(key) if rng.random() < 0.5 else key
        did = None
        snapshot = dict(crossing.members) if crossing is not None else None
        try:
            if r < 0.5:
                if crossing is not None:
                    kind = rng.choice("CFAL")
                    if kind == "L":
                        tp = ".".join(rng.choice(tree)[0]) if tree and rng.random() < 0.85 else "zz.q"
                        o = griffe.Alias(name, tp)
                    else:
                        o = {"C": griffe.Class, "F": griffe.Function, "A": griffe.Attribute}[kind](name)
                    did = ("set", o)
                elif not p:
                    o = griffe.Module(name, filepath=Path(f"/x/{name}" + rng.choice([".py", ".pyi", ".py"])))
                else:
                    kind = rng.choice("MCFALL")
                    if kind == "M":
                        o = griffe.Module(name, filepath=Path("/x/" + "/".join(key) + rng.choice([".py", ".pyi"])))
                    elif kind == "L":
                        tp = ".".join(rng.choice(tree)[0]) if tree and rng.random() < 0.85 else "zz.q"
                        o = griffe.Alias(name, tp)
                    else:
                        o = {"C": griffe.Class, "F": griffe.Function, "A": griffe.Attribute}[kind](name)
                objs.append(o)
                hist.append(["new", k if isinstance(k, str) else list(k), type(o).__name__, getattr(o, "target_path", None),
                             str(getattr(o, "_filepath", "") or "")])
                if rng.random() < 0.75:
                    # C16-F1 through the stub merge of set_member: merge_stubs moves the members of the existing module
                    # into the replacement while that is still detached (parent None): resolved aliases among them are
                    # re-registered under the detached path
                    old = c.members.get(name)
                    if (old is not None and not old.is_alias and old.is_module and isinstance(o, griffe.Module)
                            and getattr(old, "_filepath", None) is not None and old._filepath.suffix != o._filepath.suffix):
                        stack = [old]
                        while stack:
                            x = stack.pop()
                            for mm in x.members.values():
                                if mm.is_alias:
                                    moved.add(id(mm))
                                else:
                                    stack.append(mm)
                        ctx.observe("impl_only_event", "stub-merge")
                    col.set_member(k, o)
                else:
                    col[k] = o
            elif r < 0.62:
                hist.append(["del", k if isinstance(k, str) else list(k)])
                if crossing is not None:
                    did = ("del", None)
                if rng.random() < 0.5:
                    col.del_member(k)
                else:
                    del col[k]
                if crossing is not None:
                    raise _Done
                try:
                    col.get_member(k)
                    ctx.property_failure({"stream": label, "history": hist}, {"clause": "deleted-gone", "detail": str(k)})
                except KeyError:
                    pass
            else:
                als = [(q, m) for q, _, m in tree if m.is_alias]
                if not als:
                    continue
                q, a = rng.choice(als)
                if r < 0.85:
                    hist.append(["resolve", ".".join(q)])
                    a.resolve_target()
                    moved.discard(id(a))
                elif r < 0.90 and len(q) >= 2:
                    # the alias object moves: deleted where it is, inserted under its own name somewhere else
                    dests = [(p2, c2) for p2, c2 in conts if p2 and c2 is not a.parent]
                    if not dests:
                        continue
                    p2, c2 = rng.choice(dests)
                    # only an alias of which no back-reference is left behind (the discipline of the theorems: a stale entry of
                    # a moved alias is finding C16-F3's territory, which this stream has no exact classifier for)
                    listed = False
                    if a.resolved:
                        try:
                            listed = any(x is a for x in a.final_target.aliases.values())
                        except (ARE, CAE, KeyError, AttributeError, ValueError):
                            listed = True
                    if listed:
                        ctx.observe("impl_only_event", "alias-move-skipped")
                        continue
                    hist.append(["move", ".".join(q), ".".join(p2)])
                    col.del_member(".".join(q))
                    c2.set_member(a.name, a)
                    ctx.observe("impl_only_event", "alias-moved")
                else:
                    q2, v = rng.choice(tree)
                    hist.append(["settarget", ".".join(q), ".".join(q2)])
                    a.target = v
                    moved.discard(id(a))
                    if v is a:
                        ctx.property_failure({"stream": label, "history": hist}, {"clause": "no-self-target", "detail": "self assignment accepted"})
        except _Done:
            ctx.observe("impl_only_outcome", "ok")
        except RuntimeError as e:
            # an internal error escaping from the object API (was C16-F5: the re-targeting loop iterating the dictionary it writes to)
            hist.append(["->", "RuntimeError"])
            ctx.observe("direct_failure", "impl-only:operation-crashes")
            ctx.property_failure({"stream": label, "history": list(hist)}, {"clause": "operation-crashes", "detail": str(e)[:100]}, finding=None)
            return
        except (KeyError, AttributeError, ValueError, ARE, CAE) as e:
            hist.append(["->", type(e).__name__])
            ctx.observe("impl_only_outcome", type(e).__name__)
            did = None
        else:
            ctx.observe("impl_only_outcome", "ok")
        if did is not None:
            # an accepted insertion / deletion whose path goes through an alias: the object must be what the same key now
            # finds (directly or wrapped), resp. the key must find nothing any more
            ctx.observe("impl_only_event", "through-alias-" + did[0])
            bad = None
            # what the members of an alias are: those of its final target -- the real container must now hold the object
            # under that name (resp. hold nothing under it)
            if did[0] == "del":
                if name in crossing.members:
                    bad = "deleted-gone"
            elif crossing.members.get(name) is not did[1]:
                bad = "retrievable-by-own-path"
            elif did[1].parent is not crossing:
                bad = "parent-is-container"
            if bad:
                # C16-F4, exact: the operation was accepted and the members of the real container are exactly what they were
                same = list(crossing.members.items()) == list(snapshot.items()) and all(a is b for a, b in zip(crossing.members.values(), snapshot.values()))
                fid = "C16-F4" if same else None
                ctx.observe("direct_failure", "impl-only:through-alias:" + bad + ("/F4" if fid else ""))
                ctx.property_failure({"stream": label, "history": list(hist)}, {"clause": bad, "detail": {"key": str(k), "through_alias": True}}, finding=fid)
                return      # (known: the inserted object now hangs under a transient alias, the history ends here)
        changed_now = observe_entries()
        tree_now = walk()
        live_ids = {id(m3) for _, _, m3 in tree_now}
        for q, c2, m in tree_now:
            dotted = ".".join(q)
            bad = None
            if (c2 is col and m.parent is not None and not m.is_alias) or (c2 is not col and m.parent is not c2):
                # a module replaced by its merged stub counterpart keeps the parent of the object it is merged into
                bad = "parent-is-container"
            elif not (c2 is col and m.is_alias):
                try:
                    if m.path != dotted or col.get_member(dotted) is not m or col.get_member(q) is not m:
                        bad = "retrievable-by-own-path"
                except (KeyError, ARE, CAE):
                    bad = "retrievable-by-own-path"
            if bad is None and m.is_alias and m.resolved:
                if m.target is m:
                    bad = "no-self-target"
                elif m.target.is_alias:
                    # Alias.aliases forwards to the final target; what "listed" means along a chain whose links are
                    # re-resolved independently is C06's subject, not evaluated here
                    ctx.observe("impl_only_backref", "chain-not-evaluated")
                elif m.target.aliases.get(m.path) is not m:
                    bad = "backref-listed"
                else:
                    ctx.observe("impl_only_backref", "direct-ok")
            if bad:
                fid = None
                if bad == "backref-listed" and id(m) in moved:
                    keys = [k2.split(".") for k2, a2 in m.target.aliases.items() if a2 is m]
                    if keys and all(len(k2) < len(q) and list(q[-len(k2):]) == k2 for k2 in keys):
                        fid = "C16-F1"
                if bad == "backref-listed" and fid is None:
                    # C16-F3, exact: the entry under the alias's present path at its present target is held by an alias that is no
                    # longer in the tree and still spells that path, and that dead alias took the entry AFTER this one had it
                    # (this one was seen there before, or the entry changed hands during the very operation after which the
                    # failure shows: resolved and overwritten within one set_member call)
                    h3 = m.target.aliases.get(dotted)
                    e3 = (id(m.target), dotted)
                    try:
                        if h3 is not None and h3 is not m and h3.is_alias and id(h3) not in live_ids and h3.path == dotted and (
                                (id(m), e3, id(h3)) in f3_memo or e3 in regs.get(id(m), ()) or e3 in changed_now):
                            fid = "C16-F3"
                            f3_memo.add((id(m), e3, id(h3)))
                    except (AttributeError, RecursionError):
                        pass
                ctx.observe("direct_failure", "impl-only:" + bad + ("/" + fid[4:] if fid else ""))
                ctx.property_failure({"stream": label, "history": list(hist)}, {"clause": bad, "detail": dotted}, finding=fid)
                if fid is None:
                    return
                continue
        # lookup THROUGH an alias = lookup through its final target, after every operation (so that a lookup precedes and follows
        # every mutation): the names are those of the target's members NOW; what `alias_path.name` returns - by get_member or [],
        # dotted string or tuple, in one go, chained, or one name at a time - is a wrapper alias whose path continues the alias's
        # path, whose target is the object the target holds under that name NOW, and which is listed among that object's aliases
        try:
            bad = through_alias_clause(ctx, col, walk(), (ARE, CAE))
        except RecursionError:
            # an alias that was moved onto the path its own target_path goes through: resolving it never ends (cyclic aliases are
            # C06's subject); counted, the history ends here
            ctx.observe("impl_only_event", "cyclic-alias-recursion")
            ctx.case({"stream": label, "ops": hist}, len(hist) > 3)
            return
        if bad is not None:
            ctx.observe("direct_failure", "impl-only:" + bad[0])
            ctx.property_failure({"stream": label, "history": list(hist)}, {"clause": bad[0], "detail": bad[1]})
            return
    ctx.case({"stream": label, "ops": hist}, len(hist) > 3)
    ctx.observe("stream", label)


# ---------------------------------------------------------------- known finding
F1_WITNESS = [["new", 0, [], ["m"], "M", []], ["new", 0, [], ["m", "f"], "F", []], ["alloc", "C", "C", []],
              ["alloc", "L", "al", ["o", 1]], ["set", 0, [2], ["al"], 3], ["set", 0, [], ["m", "C"], 2]]


def replay_witness(ctx):
    griffe, _, _ = _griffe()
    col = griffe.ModulesCollection()
    m = griffe.Module("m")
    col.set_member("m", m)
    f = griffe.Function("f")
    m.set_member("f", f)
    c = griffe.Class("C")
    al = griffe.Alias("al", f)
    c.set_member("al", al)
    m.set_member("C", c)
    reproduced = al.path == "m.C.al" and al.target is f and f.aliases.get("m.C.al") is not al and f.aliases.get("C.al") is al
    ctx.witness("C16-F1", reproduced)
    # the same history through the differential machinery (model agrees, classifier recognises the shape)
    return reproduced


def fixed_witnesses(ctx):
    """The witnesses of the repaired findings C16-F2, C16-F5: each must PASS now (a failure is a new violation)."""
    g, _, _ = _griffe()
    # F2: the followed alias names the replacement by its full path
    col = g.ModulesCollection()
    m = g.Module("m")
    col.set_member("m", m)
    m.set_member("f", g.Function("f"))
    al = g.Alias("al", "m.f")
    m.set_member("al", al)
    al.resolve_target()
    f2 = g.Function("f")
    m.set_member("f", f2)
    if not (al.target is f2 and f2.path == "m.f" and al.target_path == "m.f" and m.resolve("al") == "m.f"):
        ctx.property_failure({"stream": "fixed-witness", "history": "C16-F2"}, {"clause": "alias-follows-replacement", "detail": {"target_path": al.target_path}})
    # F5: re-assigning a member to itself with an alias registered under an outdated key
    col = g.ModulesCollection()
    m = g.Module("m")
    col.set_member("m", m)
    f = g.Function("f")
    m.set_member("f", f)
    c = g.Class("C")
    a2 = g.Alias("al", f)
    c.set_member("al", a2)
    m.set_member("C", c)
    try:
        m.set_member("f", f)
        ok = m.members["f"] is f and a2.target is f
    except Exception:  # noqa: BLE001
        ok = False
    if not ok:
        ctx.property_failure({"stream": "fixed-witness", "history": "C16-F5"}, {"clause": "operation-crashes", "detail": "self re-assignment"})
    ctx.count("fixed_witnesses", 2)


def replay_witness_f4(ctx):
    g, _, _ = _griffe()
    col = g.ModulesCollection()
    m = g.Module("m")
    col.set_member("m", m)
    c = g.Class("C")
    m.set_member("C", c)
    x = g.Function("x")
    c.set_member("x", x)
    al = g.Alias("al", "m.C")
    m.set_member("al", al)
    al.resolve_target()
    try:
        col.del_member("m.al.x")
        y = g.Function("y")
        col.set_member(("m", "al", "y"), y)
        ok = c.members.get("x") is x and "y" not in c.members and y.path == "m.al.y"
    except Exception:  # noqa: BLE001
        ok = False
    ctx.witness("C16-F4", ok)


def replay_witness_f3(ctx):
    g, _, _ = _griffe()
    col = g.ModulesCollection()
    m, n = g.Module("m"), g.Module("n")
    col.set_member("m", m)
    col.set_member("n", n)
    t, u = g.Function("x"), g.Function("x")
    m.set_member("x", t)
    n.set_member("x", u)
    a = g.Alias("t", "m.x")
    m.set_member("t", a)
    a.resolve_target()
    m.del_member("t")
    b = g.Alias("t", "n.x")
    m.set_member("t", b)
    b.resolve_target()
    n.del_member("x")
    m.set_member("x", u)        # the deleted object is inserted again, over m.x: the dead alias `a` is re-targeted too
    ctx.witness("C16-F3", col["m.t"] is b and b.target is u and col["m.x"] is u and u.aliases.get("m.t") is a)


def explore(ctx):
    rng = ctx.rng
    if "C16-F1" in ctx.known:
        replay_witness(ctx)
    if "C16-F3" in ctx.known:
        replay_witness_f3(ctx)
    if "C16-F4" in ctx.known:
        replay_witness_f4(ctx)
    fixed_witnesses(ctx)
    check_parts(ctx)

    # corpus
    from harness.common import build
    cdir = build.VERIF / "corpus" / "C16"
    batch = []
    if cdir.exists():
        for f in sorted(cdir.glob("*.json")):
            data = json.loads(f.read_text())
            hist = [(h["op"], h.get("form", "tuple")) for h in data["history"]]
            batch.append(("trace", [o for o, _ in hist], hist, "corpus"))
    batch.append(("trace", F1_WITNESS, [(o, "tuple") for o in F1_WITNESS], "witness"))

    # exhaustive-small
    alpha = exhaustive_alphabet(["a", "b"], deep=True)
    ctx.observe("alphabet", len(alpha))
    forms = ["str", "tuple"]
    seqs = [[o] for o in alpha] + [[o1, o2] for o1 in alpha for o2 in alpha]
    red = reduced_alphabet(["a", "b"])
    if ctx.quick:
        for n, cnt in ((3, 6000), (4, 6000)):
            for _ in range(cnt):
                seqs.append([rng.choice(alpha) if rng.random() < 0.5 else rng.choice(red) for _ in range(n)])
        for s in itertools.product(red, repeat=3):
            if rng.random() < 0.25:
                seqs.append(list(s))
    else:
        ctx.exhaustive = True
        seqs += [list(s) for s in itertools.product(red, repeat=3)]
        seqs += [list(s) for s in itertools.product(red, repeat=4)]
        for n, cnt in ((3, 30000), (4, 30000), (5, 20000)):
            for _ in range(cnt):
                seqs.append([rng.choice(alpha) for _ in range(n)])
    for i, s in enumerate(seqs):
        hist = [(o, forms[(i + j) % 2] if o[0] in ("new", "del") else "tuple") for j, o in enumerate(s)]
        batch.append(("final", s, hist, "exhaustive-small"))
        if len(batch) >= 20000:
            compare_batch(ctx, batch)
            batch = []
    compare_batch(ctx, batch)
    batch = []

    # random state-guided histories
    for stream, cnt in (("top-down", ctx.budget(1500, 12000)), ("reattach", ctx.budget(1200, 9000)), ("bottom-up", ctx.budget(800, 6000)),
                        ("malformed", ctx.budget(300, 2500))):
        for _ in range(cnt):
            g = Gen(rng, stream)
            hist = g.history(rng.randint(5, 40))
            batch.append(("trace", [o for o, _ in hist], hist, stream))
            if len(batch) >= 400:
                compare_batch(ctx, batch)
                batch = []
    compare_batch(ctx, batch)

    for _ in range(ctx.budget(500, 10000)):
        impl_only_history(ctx, rng.randint(5, 40))

    if not ctx.quick:
        sample = [["final", s] for s in rng.sample(seqs, 40)]
        g = Gen(rng, "bottom-up")
        sample.append(["trace", [o for o, _ in g.history(12)]])
        ctx.cross_check_extraction(sample)


def search(ctx):
    """A tie broke and no failing input is known yet: evaluate the property on the implementation only, harder."""
    for stream, cnt in (("top-down", 3000), ("reattach", 3000), ("malformed", 500)):
        for _ in range(cnt):
            g = Gen(ctx.rng, stream)
            hist = g.history(ctx.rng.randint(3, 30))
            w = World()
            d = Direct(ctx, w, "search-" + stream)
            for op, form in hist:
                # without the model the scope is decided by cheap implementation-side pre-checks
                if impl_scope_skip(w, op):
                    continue
                d.step(op, form)
            ctx.evaluations += 1
            if ctx.prop_failures:
                return
    for _ in range(2000):
        impl_only_history(ctx, ctx.rng.randint(5, 30), "search-impl-only")
        if ctx.prop_failures:
            return


def self_replace(w: World, op) -> bool:
    """set_member(k, v) where v already is the non-alias member under k (cut in the model: the re-targeting loop iterates the
    dictionary it writes to)."""
    if op[0] != "set" or op[1] != 0 or op[4] >= len(w.objs) or not op[3]:
        return False
    try:
        c = w.recv(op[2])
        for part in op[3][:-1]:
            c = c.members[part]
        m = c.members.get(op[3][-1])
    except Exception:  # noqa: BLE001
        return False
    return m is not None and m is w.objs[op[4]] and not m.is_alias


def chain_replace(w: World, op) -> bool:
    """set_member(k, alias) over a non-alias member that aliases point at: they would be re-targeted to an alias (a chain; cut in
    the model before anything is written when set_member attaches first)."""
    if not ATTACH_FIRST or op[0] not in ("new", "set") or op[1] != 0 or not op[3]:
        return False
    if op[0] == "new":
        if op[4] != "L":
            return False
    elif op[4] >= len(w.objs) or not w.objs[op[4]].is_alias:
        return False
    try:
        c = w.recv(op[2])
        for part in op[3][:-1]:
            c = c.members[part]
        m = c.members.get(op[3][-1])
    except Exception:  # noqa: BLE001
        return False
    return m is not None and not m.is_alias and len(m.aliases) > 0


def through_alias(w: World, op) -> bool:
    if op[0] not in ("new", "set", "del"):
        return False
    try:
        c = w.recv(op[2])
        if c is not w.col and c.is_alias:
            return True
        for part in op[3][:-1]:
            c = c.members[part]
            if c.is_alias:
                return True
    except Exception:  # noqa: BLE001
        return False
    return False


def replay(ctx, data):
    case = data.get("failing_input") or {}
    hist = case.get("history")
    if not hist:
        print("replay names no input:", data.get("no_longer_checks"))
        for t in data.get("broken_ties", [])[:3]:
            print(json.dumps(t, indent=1)[:3000])
        return 0
    if hist and isinstance(hist[0], dict):
        w = World()
        d = Direct(ctx, w, "replay")
        for h in hist:
            if h.get("skipped"):
                print("skip   ", h["op"])
                continue
            out = d.step(h["op"], h.get("form", "tuple"))
            print(f"{out:10s}", h["op"], h.get("form"))
        print("invariant failures now:", check_invariants(w, None))
        print("recorded:", data.get("detail"))
        return 1 if ctx.prop_failures else 0
    print(json.dumps(data, indent=1)[:4000])
    return 0
