"""C02 — Function signatures equal CPython's view of the same definition.

(C) model get_parameters / handle_function bookkeeping  vs  griffe.visit on generated source
(O) model cpython_signature                              vs  inspect.signature of the executed definition
direct property evaluation: griffe.visit vs inspect.signature / typing.get_overloads / property objects
"""
from __future__ import annotations

import ast
import inspect
import itertools
import sys
import typing

ID = "C02"
LEVEL_TEXT = ("Theorems for all parameter-list lengths: Griffe's reversed/zip_longest default alignment equals CPython's right-alignment "
              "(names, order, kinds, annotation, which default), required-ness by position, overloads attach in source order, setters/deleters "
              "keep the property. Model tied to the code by exhaustive-small + random differential runs (model vs griffe.visit vs inspect.signature).")
LEVEL_NOTE = ("Trusted: Coq kernel, extraction, the ast->model abstraction in the harness, CPython as authority. Annotation/default expression "
              "text is treated as opaque atoms (C03 covers rendering). All five theorems are closed under the global context.")
MODEL = ("Model.C02_params", "run_C02")
COQ_TARGETS = ["Proofs/C02_params.vo"]
RULE = ("exhaustive count vectors (posonly,args,vararg?,kwonly,kwarg?,#defaults,kw-default mask) with each list <=3 "
        "(quick: <=2 plus a seeded sample of <=3), x annotations on/off, rotating contexts def/async def/method/lambda default; "
        "seeded random vectors up to 8 per list; random class bodies of overload/property/setter/deleter/plain defs. "
        "non-trivial = has at least one default or more than one parameter kind (signatures), at least one decorator (bodies); "
        "distinct by canonical case value")
TRUSTED = ["abstraction: harness walks ast.parse(source).args into the model's `arguments` record and maps annotation/default atoms A<k>/<k> to integers"]
ASSUMPTIONS = ["annotation and default *expression text* is C03's subject; here they are opaque distinct atoms",
               "ast.parse yields len(kw_defaults)==len(kwonlyargs) and len(defaults)<=len(posonlyargs+args) (theorem hypothesis wf; the ill-formed branch is covered by C02_too_many_defaults_rejected)"]

KINDS = {"positional-only": "PO", "positional or keyword": "PK", "variadic positional": "VP", "keyword-only": "KO", "variadic keyword": "VK"}
INSPECT_KINDS = {inspect.Parameter.POSITIONAL_ONLY: "PO", inspect.Parameter.POSITIONAL_OR_KEYWORD: "PK",
                 inspect.Parameter.VAR_POSITIONAL: "VP", inspect.Parameter.KEYWORD_ONLY: "KO", inspect.Parameter.VAR_KEYWORD: "VK"}


def render_sig(v, ann: bool):
    """v = (npo, nar, va, nko, kw, ndef, kwmask). Returns parameter-list text; atoms: annotations A<k>, defaults 100+k."""
    npo, nar, va, nko, kw, ndef, kwmask = v
    parts = []
    k = 0
    pos = [f"p{i}" for i in range(npo)] + [f"q{i}" for i in range(nar)]
    first_def = len(pos) - ndef
    for i, n in enumerate(pos):
        s = n
        if ann:
            s += f": A{k}"
        if i >= first_def:
            s += (" = " if ann else "=") + str(100 + k)
        k += 1
        parts.append(s)
        if i == npo - 1:
            parts.append("/")
    if va:
        parts.append("*r" + (f": A{k}" if ann else ""))
        k += 1
    elif nko:
        parts.append("*")
    for i in range(nko):
        s = f"k{i}"
        if ann:
            s += f": A{k}"
        if kwmask >> i & 1:
            s += (" = " if ann else "=") + str(100 + k)
        k += 1
        parts.append(s)
    if kw:
        parts.append("**w" + (f": A{k}" if ann else ""))
    return ", ".join(parts)


def contexts(sig: str, which: int, ret: bool):
    r = " -> R0" if ret else ""
    if which == 0:
        return f"def f({sig}){r}: ...\n", ("f",), "def"
    if which == 1:
        return f"async def f({sig}){r}: ...\n", ("f",), "async"
    if which == 2:
        return f"class C:\n    def f({sig}){r}: ...\n", ("C", "f"), "method"
    # lambda used as default of an outer parameter; the inner function is the subject
    return f"def outer(cb=lambda z, /, y=1, *a, k, **kw: 0):\n    pass\ndef f({sig}){r}: ...\n", ("f",), "lambda-default"


def atom(node):
    if node is None:
        return None
    if isinstance(node, ast.Name) and node.id[0] == "A":
        return int(node.id[1:])
    if isinstance(node, ast.Constant) and isinstance(node.value, int):
        return node.value
    raise ValueError(ast.dump(node))


def abstract_arguments(a: ast.arguments):
    arg = lambda x: [x.arg, [] if x.annotation is None else [atom(x.annotation)]]
    return [[arg(x) for x in a.posonlyargs], [arg(x) for x in a.args], [] if a.vararg is None else [arg(a.vararg)],
            [arg(x) for x in a.kwonlyargs], [[] if d is None else [atom(d)] for d in a.kw_defaults],
            [] if a.kwarg is None else [arg(a.kwarg)], [atom(d) for d in a.defaults]]


def find_def(tree, path):
    body = tree.body
    node = None
    for name in path:
        node = [n for n in body if isinstance(n, (ast.FunctionDef, ast.AsyncFunctionDef, ast.ClassDef)) and n.name == name][-1]
        body = node.body
    return node


def impl_params(src, path):
    import griffe
    mod = griffe.visit("m", filepath=None, code=src)
    obj = mod
    for n in path:
        obj = obj.members[n]
    out = []
    for p in obj.parameters:
        ann = [] if p.annotation is None else [int(str(p.annotation)[1:])]
        if p.default is None:
            d = []
        elif str(p.default) in ("()", "{}") and p.kind.value.startswith("variadic"):
            d = [1, str(p.default)]
        else:
            d = [0, int(str(p.default))]
        out.append([p.name, ann, KINDS[p.kind.value], d, 1 if p.required else 0])
    return out, (None if obj.returns is None else str(obj.returns))


def oracle_params(src, path):
    ns = {f"A{i}": type(f"A{i}", (), {}) for i in range(40)}
    ns["R0"] = type("R0", (), {})
    exec(compile(src, "<c02>", "exec", dont_inherit=True), ns)
    obj = ns[path[0]]
    for n in path[1:]:
        obj = getattr(obj, n)
    sig = inspect.signature(obj)
    out = []
    for p in sig.parameters.values():
        ann = [] if p.annotation is inspect.Parameter.empty else [int(p.annotation.__name__[1:])]
        k = INSPECT_KINDS[p.kind]
        if k == "VP":
            d = [1, "()"]
        elif k == "VK":
            d = [1, "{}"]
        elif p.default is inspect.Parameter.empty:
            d = []
        else:
            d = [0, p.default]
        out.append([p.name, ann, k, d, 1 if (p.default is inspect.Parameter.empty and k not in ("VP", "VK")) else 0])
    ret = None if sig.return_annotation is inspect.Signature.empty else sig.return_annotation.__name__
    return out, ret


def vectors(maxn):
    for npo in range(maxn + 1):
        for nar in range(maxn + 1):
            for va in (0, 1):
                for nko in range(maxn + 1):
                    for kw in (0, 1):
                        for ndef in range(npo + nar + 1):
                            for kwmask in range(1 << nko):
                                yield (npo, nar, va, nko, kw, ndef, kwmask)


def random_vector(rng, maxn=8):
    npo, nar, nko = rng.randint(0, maxn), rng.randint(0, maxn), rng.randint(0, maxn)
    return (npo, nar, rng.randint(0, 1), nko, rng.randint(0, 1), rng.randint(0, npo + nar), rng.getrandbits(nko) if nko else 0)


def check_signatures(ctx, vecs, label):
    cases = []
    for idx, v in enumerate(vecs):
        for ann in (False, True):
            sig = render_sig(v, ann)
            src, path, cname = contexts(sig, (idx + ann) % 4, ret=ann)
            tree = ast.parse(src)
            node = find_def(tree, path)
            cases.append((v, ann, cname, src, path, abstract_arguments(node.args)))
    m_params = ctx.model([["params", c[5]] for c in cases])
    m_spec = ctx.model([["spec", c[5]] for c in cases])
    for (v, ann, cname, src, path, absargs), mp, ms in zip(cases, m_params, m_spec):
        nontrivial = (v[5] > 0 or v[6] > 0) or sum(1 for x in (v[0], v[1], v[2], v[3], v[4]) if x) > 1
        ctx.case({"vector": list(v), "annotated": ann, "context": cname, "source": src}, nontrivial)
        ctx.observe("context", cname)
        ctx.observe("n_params", v[0] + v[1] + v[2] + v[3] + v[4])
        ctx.observe("stream", label)
        try:
            ip, iret = impl_params(src, path)
            impl = ["ok", ip]
        except Exception as e:  # noqa: BLE001
            impl, iret = ["err", type(e).__name__], None
        orc, oret = oracle_params(src, path)
        if mp != impl:
            ctx.tie_failure("correspondence", "get_parameters(model) vs griffe.visit", {"model": mp, "impl": impl}, {"source": src})
        if ms[0] != "ok" or ms[2] != 1 or ms[1] != orc:
            ctx.tie_failure("oracle", "cpython_signature(model) vs inspect.signature", {"model": ms, "cpython": orc}, {"source": src})
        if impl != ["ok", orc] or iret != oret:
            ctx.property_failure({"source": src, "path": list(path)}, {"griffe": impl, "cpython": orc, "griffe_returns": iret, "cpython_returns": oret})
        ctx.count("signature_cases")


# ---- class bodies: overloads, properties, setters, deleters
NAMES = ["f", "g", "x"]


def random_body(rng, n):
    defs = []
    for _ in range(n):
        name = rng.choice(NAMES)
        r = rng.random()
        decos = []
        if r < 0.25:
            decos = ["overload"]
        elif r < 0.40:
            decos = ["property"]
        elif r < 0.55:
            decos = [f"{rng.choice(NAMES) if rng.random() < 0.25 else name}.setter"]
        elif r < 0.65:
            decos = [f"{rng.choice(NAMES) if rng.random() < 0.25 else name}.deleter"]
        elif r < 0.72:
            decos = ["other"]
        if decos and rng.random() < 0.2:
            decos.insert(rng.randint(0, len(decos)), "other")
        if rng.random() < 0.05:
            decos.append("overload")
        defs.append((name, decos, rng.random() < 0.15))
    return defs


def idiomatic_body(rng, scope="module"):
    """Well-formed idioms only: overloads then implementation; property then setter/deleter.
    Decorators are stacked the ways real code stacks them (overload outermost over staticmethod/classmethod or a
    pass-through decorator, or innermost under one); some definitions are coroutines (incl. async properties)."""
    defs = []
    order = NAMES[:]
    rng.shuffle(order)
    blocks = []
    for name in order:
        is_async = rng.random() < 0.25
        if rng.random() < 0.5:
            wrap = rng.choice([None, None, "other", "staticmethod", "classmethod"]) if scope == "class" else rng.choice([None, None, "other"])
            def stack(base):
                if wrap is None:
                    return list(base)
                return [*base, wrap] if rng.random() < 0.6 else [wrap, *base]   # overload above (usual) or below the wrapper
            blocks.append([(name, stack(["overload"]), is_async) for _ in range(rng.randint(1, 3))] + [(name, stack([]), is_async)])
        else:
            b = [(name, ["property"], is_async)]
            if rng.random() < 0.7:
                b.append((name, [f"{name}.setter"], False))
            if rng.random() < 0.5:
                b.append((name, [f"{name}.deleter"], False))
            blocks.append(b)
    # interleave blocks while keeping each block's internal order
    while any(blocks):
        b = rng.choice([b for b in blocks if b])
        defs.append(b.pop(0))
    return defs


def render_body(defs, scope):
    lines = ["from typing import overload", "def other(f): return f"]
    ind = ""
    if scope == "class":
        lines.append("class C:")
        ind = "    "
    for name, decos, is_async in defs:
        for d in decos:
            lines.append(f"{ind}@{d}")
        lines.append(f"{ind}{'async ' if is_async else ''}def {name}(self=None): ...")
    return "\n".join(lines) + "\n"


def abstract_body(src, scope):
    tree = ast.parse(src)
    body = tree.body[-1].body if scope == "class" else [n for n in tree.body if isinstance(n, (ast.FunctionDef, ast.AsyncFunctionDef)) and n.name != "other"]
    out = []
    for n in body:
        ds = []
        for d in n.decorator_list:
            t = ast.unparse(d)
            if t == "overload":
                ds.append(["overload"])
            elif t == "property":
                ds.append(["property"])
            elif t.endswith(".setter"):
                ds.append(["setter", t[:-7]])
            elif t.endswith(".deleter"):
                ds.append(["deleter", t[:-8]])
            else:
                ds.append(["other"])
        out.append([n.lineno, n.name, ds])
    return out


def impl_body(src, scope):
    import griffe
    mod = griffe.visit("m", filepath=None, code=src)
    obj = mod.members["C"] if scope == "class" else mod
    mem = []
    for name, m in obj.members.items():
        if name in ("overload", "other"):
            continue
        if m.kind.value == "function":
            mem.append([name, "function", m.lineno if not m.decorators else _def_line(m), [_def_line(o) for o in (m.overloads or [])]])
        elif m.kind.value == "attribute" and "property" in m.labels:
            mem.append([name, "property", m.lineno, [] if m.setter is None else [_def_line(m.setter)], [] if m.deleter is None else [_def_line(m.deleter)]])
        else:
            mem.append([name, "other", 0])
    buf = sorted([k, [_def_line(o) for o in v]] for k, v in obj.overloads.items() if v)  # defaultdict key order is not observable
    return [mem, buf]


def _def_line(fn):
    # Function.lineno is the first decorator's line; the def line is the id used by the abstraction
    return fn.lineno + len(fn.decorators) if fn.decorators else fn.lineno


def norm_model_scope(ms):
    mem, buf = ms
    return [mem, sorted(b for b in buf if b[1])]


def oracle_body(src, scope):
    """CPython's view: {name: ('function', defline, [overload deflines]) | ('property', fget line, fset line, fdel line)}."""
    typing.clear_overloads()
    ns = {"__name__": "c02mod"}
    sys.modules.pop("c02mod", None)
    exec(compile(src, "<c02body>", "exec", dont_inherit=True), ns)
    holder = ns["C"].__dict__ if scope == "class" else ns
    out = {}
    for name in NAMES:
        if name not in holder:
            continue
        o = holder[name]
        if isinstance(o, (staticmethod, classmethod)):
            o = o.__func__
        if isinstance(o, property):
            out[name] = ["property", o.fget.__code__.co_firstlineno, None if o.fset is None else o.fset.__code__.co_firstlineno,
                         None if o.fdel is None else o.fdel.__code__.co_firstlineno]
        elif inspect.isfunction(o):
            out[name] = ["function", o.__code__.co_firstlineno, [getattr(x, "__func__", x).__code__.co_firstlineno for x in typing.get_overloads(o)]]
    return out


def check_bodies(ctx, n_random, n_idiom):
    cases = []
    for i in range(n_random):
        scope = "class" if i % 3 else "module"
        defs = random_body(ctx.rng, ctx.rng.randint(1, 7))
        cases.append(("random", scope, defs))
    for i in range(n_idiom):
        sc = "class" if i % 2 else "module"
        cases.append(("idiom", sc, idiomatic_body(ctx.rng, sc)))
    srcs = [render_body(d, s) for _, s, d in cases]
    model_out = ctx.model([["fseq", abstract_body(src, c[1])] for c, src in zip(cases, srcs)])
    for (stream, scope, defs), src, mo in zip(cases, srcs, model_out):
        ctx.case({"scope": scope, "defs": defs}, any(d for _, d, _a in defs))
        ctx.observe("body_stream", stream)
        ctx.observe("body_len", len(defs))
        for _, ds, is_async in defs:
            ctx.observe("async_def", is_async)
            for d in ds:
                ctx.observe("decorator", d.split(".")[-1])
        try:
            impl = impl_body(src, scope)
        except Exception as e:  # noqa: BLE001
            impl = ["err", type(e).__name__]
        if norm_model_scope(mo) != impl:
            ctx.tie_failure("correspondence", "handle_function(model) vs griffe.visit members/overloads", {"model": mo, "impl": impl}, {"source": src})
        ctx.count("body_cases")
        if stream == "idiom":
            # decorator lines: first-decorator line differs from def line; co_firstlineno is the first decorator line
            orc = oracle_body(src, scope)
            tree = ast.parse(src)
            firstline = {}
            body = tree.body[-1].body if scope == "class" else tree.body
            for n in body:
                if isinstance(n, (ast.FunctionDef, ast.AsyncFunctionDef)):
                    firstline[n.lineno] = n.decorator_list[0].lineno if n.decorator_list else n.lineno
            got = {}
            if impl[0] != "err":
                for m in impl[0]:
                    if m[1] == "function":
                        got[m[0]] = ["function", firstline[m[2]], [firstline[x] for x in m[3]]]
                    elif m[1] == "property":
                        got[m[0]] = ["property", firstline[m[2]], firstline[m[3][0]] if m[3] else None, firstline[m[4][0]] if m[4] else None]
            if got != orc:
                ctx.property_failure({"source": src}, {"griffe": got, "cpython": orc})


def explore(ctx):
    if ctx.quick:
        small = list(vectors(2))
        extra = [v for v in vectors(3) if max(v[0], v[1], v[3]) == 3]
        vecs = small + ctx.rng.sample(extra, 600)
    else:
        vecs = list(vectors(3))
        ctx.exhaustive = True
    check_signatures(ctx, vecs, "exhaustive-small")
    check_bodies(ctx, ctx.budget(600, 8000), ctx.budget(400, 4000))
    # after the bodies (which contain decorated coroutines, properties, ...): state must not leak between definitions
    check_signatures(ctx, [random_vector(ctx.rng) for _ in range(ctx.budget(300, 4000))], "random<=8")
    if not ctx.quick:
        arg = lambda n: [n, []]
        sample = [["params", abstract_arguments(find_def(ast.parse(f"def f({render_sig(v, True)}): ..."), ("f",)).args)] for v in ctx.rng.sample(vecs, 40)]
        ctx.cross_check_extraction(sample)


def search(ctx):
    """A tie broke and no direct failure was seen yet: evaluate the property on the implementation over a wider space."""
    vecs = list(vectors(3))
    ctx.driver_backup = ctx.driver
    for idx, v in enumerate(vecs):
        for ann in (False, True):
            src, path, _ = contexts(render_sig(v, ann), idx % 4, ret=ann)
            try:
                impl = ["ok", impl_params(src, path)[0]]
            except Exception as e:  # noqa: BLE001
                impl = ["err", type(e).__name__]
            orc, _ = oracle_params(src, path)
            ctx.evaluations += 1
            if impl != ["ok", orc]:
                ctx.property_failure({"source": src, "path": list(path)}, {"griffe": impl, "cpython": orc})
                return
    for i in range(3000):
        scope = "class" if i % 2 else "module"
        src = render_body(idiomatic_body(ctx.rng, scope), scope)
        # re-use the idiom comparison through check_bodies' logic would need the model; inline the direct check
        try:
            impl = impl_body(src, scope)
        except Exception as e:  # noqa: BLE001
            ctx.property_failure({"source": src}, {"griffe": type(e).__name__})
            return
        orc = oracle_body(src, scope)
        tree = ast.parse(src)
        body = tree.body[-1].body if scope == "class" else tree.body
        firstline = {n.lineno: (n.decorator_list[0].lineno if n.decorator_list else n.lineno) for n in body if isinstance(n, (ast.FunctionDef, ast.AsyncFunctionDef))}
        got = {}
        for m in impl[0]:
            if m[1] == "function":
                got[m[0]] = ["function", firstline[m[2]], [firstline[x] for x in m[3]]]
            elif m[1] == "property":
                got[m[0]] = ["property", firstline[m[2]], firstline[m[3][0]] if m[3] else None, firstline[m[4][0]] if m[4] else None]
        ctx.evaluations += 1
        if got != orc:
            ctx.property_failure({"source": src}, {"griffe": got, "cpython": orc})
            return


def replay(ctx, data):
    case = data.get("failing_input") or {}
    src = case.get("source")
    if not src:
        print("replay names no input:", data.get("no_longer_checks"))
        return 0
    print(src)
    if "path" in case:
        print("griffe :", impl_params(src, tuple(case["path"])))
        print("cpython:", oracle_params(src, tuple(case["path"])))
    return 0
