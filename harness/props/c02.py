"""C02 — Function signatures equal CPython's view of the same definition.

(T) harness/translate/c02_tables.py regenerates coq/Gen/C02_tables.v (ParameterKind, get_parameters skeleton constants,
    visitor decorator tables) from the tree under test
(C) model get_parameters / handle_function bookkeeping with per-definition outcomes / the parameter container
    vs  griffe.visit on generated source, griffe.Parameters under operation sequences
(O) model cpython_signature / cpy_exec / cpython_bound / abstract list
    vs  inspect.signature, exec + typing.get_overloads + property objects, inspect.signature of bound attributes, a plain list
direct property evaluation: Griffe vs CPython (no model involved) on all of the above
"""
from __future__ import annotations

import ast
import inspect
import sys
import types
import typing

from harness.translate import c02_tables

ID = "C02"
LEVEL_TEXT = ("Theorems, all for every input/history: Griffe's reversed/zip_longest default alignment equals CPython's right-alignment (names, order, "
              "kinds, annotation, which default) over constants regenerated from the source, required-ness, both ill-formed shapes rejected; the parameter "
              "container refines an abstract list under every operation sequence, lookup by name = first match in iteration order, name/index agree, "
              "deletion shifts positions and leaves other names alone, distinct names are an invariant (and needed: refutations), the bound-method view of a "
              "definition equals CPython's; handle_function: names do not interfere, every implementation carries exactly the overloads declared since the "
              "previous implementation of its name, a re-binding definition resets the name (if/else branches), accessors keep the property; for every body "
              "tagged live/dead that the decidable check dead_ok accepts, the dead statements are invisible in Griffe's flow-insensitive result, hence "
              "the whole body agrees with CPython executing its live part; containers of different function objects are independent under every history; a "
              "stub-merged signature keeps the definition's names/kinds/defaults and takes every annotation by NAME; the single traversal over nested class bodies equals the per-scope visits; for "
              "every body CPython executes, CPython's namespace and overload registry equal Griffe's members and the concatenation of the attached "
              "overload lists plus the pending ones. Models tied to the code by a translator, exhaustive-small + random differential runs and "
              "per-object observation through an extension.")
LEVEL_NOTE = ("Trusted: Coq kernel, extraction, the translator's whitelist, the harness abstraction (ast -> model terms; decorator callable paths "
              "are supplied by construction of the generated source), CPython as authority. Annotation/default expression text is opaque (C03). "
              "Modelled, not verified: that the visitor meets the definitions of a body in source order whatever the nesting of if/try blocks "
              "(the (C) streams exercise it); which statements CPython runs (constant flags chosen by the generator; dead_ok itself is evaluated by the "
              "extracted model on every body with an untaken branch and gates the direct comparison); assignment re-binders (they forward labels) are "
              "not in the model; dead_ok is sufficient, not necessary. "
              "CPython's typing registry is cumulative per qualified name: agreement of a *redefined* overloaded name with typing.get_overloads "
              "is stated as a decomposition theorem, not as equality. All theorems are closed under the global context.")
MODEL = ("Model.C02_run", "run_C02")
COQ_TARGETS = ["Model/C02_run.vo", "Proofs/C02_params.vo", "Proofs/C02_container.vo", "Proofs/C02_scope.vo", "Proofs/C02_tree.vo", "Proofs/C02_flow.vo", "Proofs/C02_multi.vo"]
TRANSLATOR_NAME = "harness/translate/c02_tables.py"
RULE = ("signatures: exhaustive count vectors (posonly,args,vararg?,kwonly,kwarg?,#defaults,kw-default mask) with each list <=3 "
        "(quick: <=2 plus a seeded sample of <=3), x annotations on/off, rotating contexts def/async def/method/lambda default; seeded random "
        "vectors up to 8 per list; vectors <=3 with defaults drawn from 70 literal expressions of every constant type (ints, floats incl. inf/nan "
        "spellings, complex, str, bytes, None, Ellipsis, bools, negatives, tuples and displays of them), also as lambda parameters; bound views of the same vectors as instance/class/static methods; "
        "bodies: random straight-line class/module/function bodies of decorated defs and other binders (decorators spelled several ways, "
        "stacked, nested in if/try blocks), idiomatic bodies with repeated overload groups and property blocks per name in sequence and in "
        "if/else branches; trees: a module body plus (nested) classes whose bodies share the member names; lambdas used as defaults (every vector <=2 as the "
        "lambda's own parameter list, structured and as text); container: random operation sequences (get/set/del by name and index, in, len, iter, add) with probes after each "
        "mutation, from visited definitions and from directly constructed (possibly duplicate) contents; several function objects of one module "
        "(half parameterless) under operations addressed to one of them, re-visited afterwards; modules loaded with stubs (congruent, pass-through, "
        "independent, partially annotated signatures); body cases whose module re-binds overload/property spellings to local decorators. "
        "non-trivial = has a default or more than one kind (signatures), a decorator (bodies), a mutation (container); distinct by canonical value")
TRUSTED = ["abstraction: harness walks ast.parse(source).args into the model's `arguments` record and maps annotation/default atoms A<k>/<k> to integers",
           "abstraction: definitions/binders of a generated body in source order with def-line ids; decorator callable paths by construction of the source",
           "translator harness/translate/c02_tables.py (whitelisted AST shapes of enumerations.py, agents/nodes/parameters.py, agents/visitor.py; fails closed)"]
ASSUMPTIONS = ["annotation and default *expression text* is C03's subject; in the model they are opaque distinct atoms (the literal-default stream "
               "additionally evaluates Griffe's default text against CPython's default object, since has-default/required depend on the expression builder not failing)",
               "ast.parse yields len(kw_defaults)==len(kwonlyargs) and len(defaults)<=len(posonlyargs+args) (theorem hypothesis wf; both ill-formed branches are covered by C02_too_many_*_rejected)",
               "bodies: CPython-side agreement is stated for bodies CPython executes without error and whose definitions carry at most one role decorator "
               "(overload / property / own-name accessor), pass-through decorators being arbitrary (cpy_exec = Ok)"]

KINDS = {"positional-only": "PO", "positional or keyword": "PK", "variadic positional": "VP", "keyword-only": "KO", "variadic keyword": "VK"}  # by value (kept for importers)
KIND_NAMES = {"positional_only": "PO", "positional_or_keyword": "PK", "var_positional": "VP", "keyword_only": "KO", "var_keyword": "VK"}
INSPECT_KINDS = {inspect.Parameter.POSITIONAL_ONLY: "PO", inspect.Parameter.POSITIONAL_OR_KEYWORD: "PK",
                 inspect.Parameter.VAR_POSITIONAL: "VP", inspect.Parameter.KEYWORD_ONLY: "KO", inspect.Parameter.VAR_KEYWORD: "VK"}


def translate(ctx):
    c02_tables.translate(ctx)


# =====================================================================================================================
# signatures
# =====================================================================================================================
def render_sig(v, ann: bool, first: str | None = None):
    """v = (npo, nar, va, nko, kw, ndef, kwmask). Returns parameter-list text; atoms: annotations A<k>, defaults 100+k."""
    npo, nar, va, nko, kw, ndef, kwmask = v
    parts = []
    k = 0
    pos = [f"p{i}" for i in range(npo)] + [f"q{i}" for i in range(nar)]
    first_def = len(pos) - ndef
    for i, n in enumerate(pos):
        s = n
        if ann:
            s += f": A{k}"
        if i >= first_def:
            s += (" = " if ann else "=") + str(100 + k)
        k += 1
        parts.append(s)
        if i == npo - 1:
            parts.append("/")
    if va:
        parts.append("*r" + (f": A{k}" if ann else ""))
        k += 1
    elif nko:
        parts.append("*")
    for i in range(nko):
        s = f"k{i}"
        if ann:
            s += f": A{k}"
        if kwmask >> i & 1:
            s += (" = " if ann else "=") + str(100 + k)
        k += 1
        parts.append(s)
    if kw:
        parts.append("**w" + (f": A{k}" if ann else ""))
    return ", ".join(parts)


def contexts(sig: str, which: int, ret: bool):
    r = " -> R0" if ret else ""
    if which == 0:
        return f"def f({sig}){r}: ...\n", ("f",), "def"
    if which == 1:
        return f"async def f({sig}){r}: ...\n", ("f",), "async"
    if which == 2:
        return f"class C:\n    def f({sig}){r}: ...\n", ("C", "f"), "method"
    # lambda used as default of an outer parameter; the inner function is the subject
    return f"def outer(cb=lambda z, /, y=1, *a, k, **kw: 0):\n    pass\ndef f({sig}){r}: ...\n", ("f",), "lambda-default"


def atom(node):
    if node is None:
        return None
    if isinstance(node, ast.Name) and node.id[0] == "A":
        return int(node.id[1:])
    if isinstance(node, ast.Constant) and isinstance(node.value, int):
        return node.value
    raise ValueError(ast.dump(node))


def abstract_arguments(a: ast.arguments):
    arg = lambda x: [x.arg, [] if x.annotation is None else [atom(x.annotation)]]
    return [[arg(x) for x in a.posonlyargs], [arg(x) for x in a.args], [] if a.vararg is None else [arg(a.vararg)],
            [arg(x) for x in a.kwonlyargs], [[] if d is None else [atom(d)] for d in a.kw_defaults],
            [] if a.kwarg is None else [arg(a.kwarg)], [atom(d) for d in a.defaults]]


def find_def(tree, path):
    body = tree.body
    node = None
    for name in path:
        node = [n for n in body if isinstance(n, (ast.FunctionDef, ast.AsyncFunctionDef, ast.ClassDef)) and n.name == name][-1]
        body = node.body
    return node


def enc_griffe_param(p):
    ann = [] if p.annotation is None else [int(str(p.annotation)[1:])]
    if p.default is None:
        d = []
    elif str(p.default) in ("()", "{}") and p.kind is not None and p.kind.name.startswith("var_"):
        d = [1, str(p.default)]
    else:
        d = [0, int(str(p.default))]
    return [p.name, ann, KIND_NAMES[p.kind.name], d, 1 if p.required else 0]


def enc_inspect_param(p):
    ann = [] if p.annotation is inspect.Parameter.empty else [int(p.annotation.__name__[1:])]
    k = INSPECT_KINDS[p.kind]
    if k == "VP":
        d = [1, "()"]
    elif k == "VK":
        d = [1, "{}"]
    elif p.default is inspect.Parameter.empty:
        d = []
    else:
        d = [0, p.default]
    return [p.name, ann, k, d, 1 if (p.default is inspect.Parameter.empty and k not in ("VP", "VK")) else 0]


def griffe_object(src, path):
    import griffe
    obj = griffe.visit("m", filepath=None, code=src)
    for n in path:
        obj = obj.members[n]
    return obj


def impl_params(src, path):
    obj = griffe_object(src, path)
    return [enc_griffe_param(p) for p in obj.parameters], (None if obj.returns is None else str(obj.returns))


def exec_ns(src, name="<c02>"):
    ns = {f"A{i}": type(f"A{i}", (), {}) for i in range(40)}
    ns["R0"] = type("R0", (), {})
    exec(compile(src, name, "exec", dont_inherit=True), ns)
    return ns


def oracle_params(src, path):
    ns = exec_ns(src)
    obj = ns[path[0]]
    for n in path[1:]:
        obj = getattr(obj, n)
    sig = inspect.signature(obj)
    out = [enc_inspect_param(p) for p in sig.parameters.values()]
    ret = None if sig.return_annotation is inspect.Signature.empty else sig.return_annotation.__name__
    return out, ret


def vectors(maxn):
    for npo in range(maxn + 1):
        for nar in range(maxn + 1):
            for va in (0, 1):
                for nko in range(maxn + 1):
                    for kw in (0, 1):
                        for ndef in range(npo + nar + 1):
                            for kwmask in range(1 << nko):
                                yield (npo, nar, va, nko, kw, ndef, kwmask)


def random_vector(rng, maxn=8):
    npo, nar, nko = rng.randint(0, maxn), rng.randint(0, maxn), rng.randint(0, maxn)
    return (npo, nar, rng.randint(0, 1), nko, rng.randint(0, 1), rng.randint(0, npo + nar), rng.getrandbits(nko) if nko else 0)


def check_signatures(ctx, vecs, label, use_model=True):
    cases = []
    for idx, v in enumerate(vecs):
        for ann in (False, True):
            sig = render_sig(v, ann)
            src, path, cname = contexts(sig, (idx + ann) % 4, ret=ann)
            tree = ast.parse(src)
            node = find_def(tree, path)
            cases.append((v, ann, cname, src, path, abstract_arguments(node.args)))
    if use_model:
        m_params = ctx.model([["params", c[5]] for c in cases])
        m_spec = ctx.model([["spec", c[5]] for c in cases])
    else:
        m_params = m_spec = [None] * len(cases)
    for (v, ann, cname, src, path, absargs), mp, ms in zip(cases, m_params, m_spec):
        nontrivial = (v[5] > 0 or v[6] > 0) or sum(1 for x in (v[0], v[1], v[2], v[3], v[4]) if x) > 1
        if use_model:
            ctx.case({"vector": list(v), "annotated": ann, "context": cname, "source": src}, nontrivial)
            ctx.observe("context", cname)
            ctx.observe("n_params", v[0] + v[1] + v[2] + v[3] + v[4])
            ctx.observe("stream", label)
        else:
            ctx.evaluations += 1
        try:
            ip, iret = impl_params(src, path)
            impl = ["ok", ip]
        except Exception as e:  # noqa: BLE001
            impl, iret = ["err", type(e).__name__], None
        orc, oret = oracle_params(src, path)
        if use_model:
            if mp != impl:
                ctx.tie_failure("correspondence", "get_parameters(model) vs griffe.visit", {"model": mp, "impl": impl}, {"source": src})
            if ms[0] != "ok" or ms[2] != 1 or ms[1] != orc:
                ctx.tie_failure("oracle", "cpython_signature(model) vs inspect.signature", {"model": ms, "cpython": orc}, {"source": src})
        if impl != ["ok", orc] or iret != oret:
            ctx.property_failure({"source": src, "path": list(path)}, {"griffe": impl, "cpython": orc, "griffe_returns": iret, "cpython_returns": oret})
            if not use_model:
                return True
        ctx.count("signature_cases")
    return False


# ---- defaults that are real literal expressions (the expression builder must not fail: has-default / required depend on it)
LITERALS = [
    "0", "1", "-1", "31", "0x20", "0o17", "0b101", "1_000", "1000000000000000000000", "-12345678901234567890",
    "1.5", "-1.5", "0.0", "-0.0", "1e10", "1e-7", ".5", "5.", "1e999", "-1e999", "1_0.2_5",
    'float("inf")', '-float("inf")', 'float("nan")', "math.inf", "-math.inf", "math.nan",
    "1j", "-1j", "0j", "2+3j", "1-2j", "1.5j", "1e999j", "-1e999j", "2.5+1e999j", "(1+0j)",
    "''", "'a'", '"it\'s"', "'\\n'", "'a' 'b'", "'\\u00e9'", "'\\x00'", '"""tri"""',
    "b''", "b'x'", 'b"\\x00\\xff"', "b'a' b'b'",
    "None", "...", "Ellipsis", "True", "False", "not True", "-True",
    "()", "(1,)", "(0, 1j)", "(1, 'a', None)", "((1, 2j), 'a', None)", "(..., True, b'x', -1.5, 1e999)", "(-1, (-2.5, (3j,)))",
    "[]", "[1, 2j]", "{}", "{'k': 1j}", "{1, 2}",
]
LITERAL_ENV = {"float": float, "math": __import__("math"), "Ellipsis": Ellipsis}


def literal_kind(text):
    try:
        v = eval(text, dict(LITERAL_ENV))  # noqa: S307
    except Exception:  # noqa: BLE001
        return "?"

    def has(v, ty):
        if isinstance(v, (tuple, list, set)):
            return any(has(x, ty) for x in v)
        if isinstance(v, dict):
            return any(has(x, ty) for x in list(v) + list(v.values()))
        return type(v) is ty
    inner = "+complex" if not isinstance(v, complex) and has(v, complex) else ""
    return type(v).__name__ + inner


def canon_value(v):
    """repr is the comparison key (nan-safe, distinguishes 1 / True / 1.0, -0.0 / 0.0); sets are ordered."""
    if isinstance(v, set):
        return "set" + repr(sorted(map(repr, v)))
    return repr(v)


def literal_signature(rng, v, with_ann):
    """Like render_sig, defaults drawn without replacement from LITERALS (distinct canonical values)."""
    npo, nar, va, nko, kw, ndef, kwmask = v
    need = ndef + bin(kwmask).count("1")
    pool, seen = [], set()
    for text in rng.sample(LITERALS, len(LITERALS)):
        c = canon_value(eval(text, dict(LITERAL_ENV)))  # noqa: S307
        if c not in seen:
            seen.add(c)
            pool.append(text)
        if len(pool) == need:
            break
    it = iter(pool)
    parts, k = [], 0
    pos = [f"p{i}" for i in range(npo)] + [f"q{i}" for i in range(nar)]
    first_def = len(pos) - ndef
    for i, n in enumerate(pos):
        s = n + (f": A{k}" if with_ann else "")
        if i >= first_def:
            s += (" = " if with_ann else "=") + next(it)
        k += 1
        parts.append(s)
        if i == npo - 1:
            parts.append("/")
    if va:
        parts.append("*r")
    elif nko:
        parts.append("*")
    for i in range(nko):
        s = f"k{i}" + (f": A{k}" if with_ann else "")
        if kwmask >> i & 1:
            s += (" = " if with_ann else "=") + next(it)
        k += 1
        parts.append(s)
    if kw:
        parts.append("**w")
    return ", ".join(parts), pool


def check_literal_defaults(ctx, n, use_model=True):
    """Signatures whose defaults are literals of every constant type.  Model: the defaults are atoms 100+i (i-th default in
    source order).  Griffe's default is identified by evaluating its text; CPython's by the default object."""
    rng = ctx.rng
    cases = []
    for idx in range(n):
        while True:
            v = random_vector(rng, 3)
            if v[5] or v[6]:
                break
        which = idx % 5
        ann = which in (1, 2)
        sig, pool = literal_signature(rng, v, ann and which != 4)
        if which == 4:
            sig, pool = literal_signature(rng, v, False)
            src, path, cname = f"import math\nf = lambda {sig}: 0\n", ("f",), "lambda"
        else:
            body, path, cname = contexts(sig, which, ret=False)
            src = "import math\n" + body
        cases.append((v, src, path, cname, pool))
    absargs = []
    for v, src, path, cname, pool in cases:
        tree = ast.parse(src)
        if cname == "lambda":
            a = tree.body[-1].value.args
        else:
            a = find_def(tree, path).args
        order = {id(d): i for i, d in enumerate([d for d in a.defaults] + [d for d in a.kw_defaults if d is not None])}
        arg = lambda x: [x.arg, [] if x.annotation is None else [atom(x.annotation)]]
        absargs.append([[arg(x) for x in a.posonlyargs], [arg(x) for x in a.args], [] if a.vararg is None else [arg(a.vararg)],
                        [arg(x) for x in a.kwonlyargs], [[] if d is None else [100 + order[id(d)]] for d in a.kw_defaults],
                        [] if a.kwarg is None else [arg(a.kwarg)], [100 + order[id(d)] for d in a.defaults]])
    m_params = ctx.model([["params", x] for x in absargs]) if use_model else [None] * len(cases)
    for (v, src, path, cname, pool), mp in zip(cases, m_params):
        canon = {canon_value(eval(tx, dict(LITERAL_ENV))): 100 + i for i, tx in enumerate(pool)}  # noqa: S307
        if use_model:
            ctx.case({"literal_defaults": pool, "context": cname, "source": src}, True)
            ctx.observe("literal_context", cname)
            for tx in pool:
                ctx.observe("literal_kind", literal_kind(tx))
        else:
            ctx.evaluations += 1
        try:
            mod = __import__("griffe").visit("m", filepath=None, code=src)
            obj = mod
            for nm in path:
                obj = obj.members[nm]
            params = obj.value.parameters if cname == "lambda" else obj.parameters
            got = []
            for p in params:
                annv = [] if getattr(p, "annotation", None) is None else [int(str(p.annotation)[1:])]
                kind = KIND_NAMES[p.kind.name]
                if p.default is None:
                    d = []
                elif kind in ("VP", "VK"):
                    d = [1, str(p.default)]
                else:
                    try:
                        d = [0, canon.get(canon_value(eval(str(p.default), dict(LITERAL_ENV))), -1)]  # noqa: S307
                    except Exception:  # noqa: BLE001
                        d = [0, -2]
                required = p.required if hasattr(p, "required") else p.default is None
                got.append([p.name, annv, kind, d, 1 if required else 0])
            impl = ["ok", got]
        except Exception as e:  # noqa: BLE001
            impl = ["err", type(e).__name__]
        ns = exec_ns(src)
        orc = []
        for p in inspect.signature(ns["f"] if path == ("f",) else getattr(ns[path[0]], path[1])).parameters.values():
            e = enc_inspect_param(p) if p.default is inspect.Parameter.empty or INSPECT_KINDS[p.kind] in ("VP", "VK") else None
            if e is None:
                annv = [] if p.annotation is inspect.Parameter.empty else [int(p.annotation.__name__[1:])]
                e = [p.name, annv, INSPECT_KINDS[p.kind], [0, canon.get(canon_value(p.default), -3)], 0]
            orc.append(e)
        if use_model and mp != impl:
            ctx.tie_failure("correspondence", "get_parameters(model) vs griffe.visit with literal defaults", {"model": mp, "impl": impl}, {"source": src})
        if impl != ["ok", orc]:
            ctx.property_failure({"source": src, "path": list(path), "defaults": pool}, {"griffe": impl, "cpython": orc})
            if not use_model:
                return True
        ctx.count("literal_default_cases")
    return False


def check_malformed_arguments(ctx):
    """ast.arguments that ast.parse never produces: the model's error branches against the real get_parameters."""
    from _griffe.agents.nodes.parameters import get_parameters
    rng = ctx.rng
    cases = []
    for _ in range(ctx.budget(150, 1500)):
        npo, nar, nko = rng.randint(0, 3), rng.randint(0, 3), rng.randint(0, 3)
        nd, nkd = rng.randint(0, npo + nar + 2), rng.randint(0, nko + 2)
        a = ast.arguments(posonlyargs=[ast.arg(f"p{i}") for i in range(npo)], args=[ast.arg(f"q{i}") for i in range(nar)],
                          vararg=ast.arg("r") if rng.random() < 0.5 else None, kwonlyargs=[ast.arg(f"k{i}") for i in range(nko)],
                          kw_defaults=[ast.Constant(200 + i) if rng.random() < 0.6 else None for i in range(nkd)],
                          kwarg=ast.arg("w") if rng.random() < 0.5 else None, defaults=[ast.Constant(100 + i) for i in range(nd)])
        for x in a.posonlyargs + a.args + a.kwonlyargs + [y for y in (a.vararg, a.kwarg) if y]:
            x.annotation = None
        cases.append(a)
    outs = ctx.model([["params", abstract_arguments(a)] for a in cases])
    for a, mo in zip(cases, outs):
        shape = ("defaults>" if len(a.defaults) > len(a.posonlyargs) + len(a.args) else "defaults<=") + \
                ("kw>" if len(a.kw_defaults) > len(a.kwonlyargs) else "kw<" if len(a.kw_defaults) < len(a.kwonlyargs) else "kw=")
        ctx.observe("malformed_shape", shape)
        ctx.case({"arguments": ast.dump(a)}, True)
        try:
            got = []
            for name, annotation, kind, default in get_parameters(a):
                d = [] if default is None else [1, default] if isinstance(default, str) else [0, default.value]
                got.append([name, [], KIND_NAMES[kind.name], d, 1 if default is None else 0])
            impl = ["ok", got]
        except Exception as e:  # noqa: BLE001
            impl = ["err", type(e).__name__]
        ctx.observe("malformed_result", impl[0] if impl[0] == "ok" else impl[1])
        if impl != mo:
            ctx.tie_failure("correspondence", "get_parameters(model) vs get_parameters on ill-formed ast.arguments", {"model": mo, "impl": impl},
                            {"arguments": ast.dump(a)})
        ctx.count("malformed_cases")


# =====================================================================================================================
# bound / unbound views (and the container on definition-derived contents)
# =====================================================================================================================
def method_source(sig: str, how: str) -> str:
    deco = {"instance": "", "class": "    @classmethod\n", "static": "    @staticmethod\n"}[how]
    return f"class C:\n{deco}    def f({sig}): ...\n"


def bound_view_griffe(fn, by_name: bool):
    """What a documentation tool does to show the call signature: drop the first parameter unless static."""
    import griffe
    if "staticmethod" in fn.labels:
        return "kept"
    if len(fn.parameters) == 0:
        return "invalid"
    first = fn.parameters[0]
    if first.kind in (griffe.ParameterKind.positional_only, griffe.ParameterKind.positional_or_keyword):
        if by_name:
            del fn.parameters[first.name]
        else:
            del fn.parameters[0]
        return "dropped"
    if first.kind is griffe.ParameterKind.var_positional:
        return "kept"
    return "invalid"


def probe_container(params, names):
    """Every access path of the container: iteration, len, index (both signs), name, membership."""
    out = {"iter": [enc_griffe_param(p) for p in params], "len": len(params), "index": [], "name": {}}
    n = len(params)
    for i in list(range(-n - 1, n + 1)):
        try:
            out["index"].append(enc_griffe_param(params[i]))
        except IndexError:
            out["index"].append("IndexError")
    for nm in names:
        try:
            got = enc_griffe_param(params[nm])
        except KeyError:
            got = "KeyError"
        except IndexError:
            got = "IndexError"
        out["name"][nm] = [got, nm in params]
    return out


def probe_signature(sig: inspect.Signature, names):
    ps = list(sig.parameters.values())
    out = {"iter": [enc_inspect_param(p) for p in ps], "len": len(ps), "index": [], "name": {}}
    n = len(ps)
    for i in list(range(-n - 1, n + 1)):
        try:
            out["index"].append(enc_inspect_param(ps[i]))
        except IndexError:
            out["index"].append("IndexError")
    for nm in names:
        key = nm.lstrip("*")
        out["name"][nm] = [enc_inspect_param(sig.parameters[key]) if key in sig.parameters else "KeyError", key in sig.parameters]
    return out


def check_bound_views(ctx, vecs, use_model=True):
    hows = ("instance", "class", "static")
    cases = []
    for idx, v in enumerate(vecs):
        ann = bool(idx & 1)
        how = hows[idx % 3]
        src = method_source(render_sig(v, ann), how)
        cases.append((v, ann, how, src, bool(idx & 2)))
    model_out = [None] * len(cases)
    if use_model:
        unbound = []
        for v, ann, how, src, by_name in cases:
            unbound.append([enc_griffe_param(p) for p in griffe_object(src, ("C", "f")).parameters])
        model_out = ctx.model([["bound", u] for u in unbound])
    for (v, ann, how, src, by_name), mo in zip(cases, model_out):
        if use_model:
            ctx.case({"bound_view": how, "source": src, "by_name": by_name}, v[0] + v[1] + v[2] + v[3] + v[4] > 0)
            ctx.observe("bound_how", how)
        else:
            ctx.evaluations += 1
        fn = griffe_object(src, ("C", "f"))
        all_names = [p.name for p in fn.parameters]
        names = all_names + ["*r", "**w", "nope"]
        unb_g = probe_container(fn.parameters, names)
        ns = exec_ns(src)
        raw = ns["C"].__dict__["f"]
        unb_c = probe_signature(inspect.signature(getattr(raw, "__func__", raw)), names)
        if unb_g != unb_c:
            ctx.property_failure({"source": src, "path": ["C", "f"], "view": "unbound"}, {"griffe": unb_g, "cpython": unb_c})
            if not use_model:
                return True
        try:
            bsig = inspect.signature(ns["C"].f if how != "instance" else ns["C"]().f)
            cview = ["ok", probe_signature(bsig, names)]
        except ValueError:
            cview = ["err", "ValueError"]
        try:
            verdict = bound_view_griffe(fn, by_name)
            gview = ["err", "ValueError"] if verdict == "invalid" else ["ok", probe_container(fn.parameters, names)]
        except Exception as e:  # noqa: BLE001
            verdict, gview = "raised", ["raised", type(e).__name__]
        if use_model:
            ctx.observe("bound_verdict", verdict)
        if gview != cview:
            ctx.property_failure({"source": src, "path": ["C", "f"], "view": f"bound ({how}), first parameter removed by {'name' if by_name else 'index'}"},
                                 {"griffe": gview, "cpython": cview})
            if not use_model:
                return True
        if use_model:
            # model: griffe_bound / cpython_bound on the unbound list; static methods are not bound
            mg, mc = mo
            if how == "static":          # a static method is not bound: nothing dropped on either side, the model rule is not consulted
                mg, mc = exp_g, exp_c = ["ok", unb_c["iter"]], ["ok", unb_c["iter"]]
                if gview[0] == "ok" and gview[1]["iter"] != unb_g["iter"]:
                    ctx.tie_failure("harness", "static method view changed the container", {"before": unb_g["iter"], "after": gview[1]["iter"]}, {"source": src})
            else:
                exp_g = gview if gview[0] != "ok" else ["ok", gview[1]["iter"]]
                exp_c = cview if cview[0] != "ok" else ["ok", cview[1]["iter"]]
            if mg != exp_g:
                ctx.tie_failure("correspondence", "griffe_bound(model) vs container after dropping the first parameter", {"model": mg, "impl": exp_g}, {"source": src})
            if mc != exp_c:
                ctx.tie_failure("oracle", "cpython_bound(model) vs inspect.signature of the bound attribute", {"model": mc, "cpython": exp_c}, {"source": src})
        ctx.count("bound_cases")
    return False


# =====================================================================================================================
# the container under operation sequences
# =====================================================================================================================
class RefList:
    """The abstract list the container stands for (authority of the direct check; mirrors a_step of the Coq model)."""

    def __init__(self, items):
        self.l = list(items)

    def _find(self, key):
        name = key.lstrip("*")
        for i, p in enumerate(self.l):
            if p[0] == name:
                return i
        return None

    def step(self, op):
        kind = op[0]
        try:
            if kind == "get":
                k = op[1]
                if isinstance(k, int):
                    return ["ok", self.l[k]]
                i = self._find(k)
                if i is None:
                    raise KeyError(k)
                return ["ok", self.l[i]]
            if kind == "set":
                k, p = op[1], op[2]
                if isinstance(k, int):
                    self.l[k] = p
                else:
                    i = self._find(k)
                    if i is None:
                        self.l.append(p)
                    else:
                        self.l[i] = p
                return ["ok"]
            if kind == "del":
                k = op[1]
                if isinstance(k, int):
                    del self.l[k]
                else:
                    i = self._find(k)
                    if i is None:
                        raise KeyError(k)
                    del self.l[i]
                return ["ok"]
            if kind == "len":
                return ["len", len(self.l)]
            if kind == "iter":
                return ["iter", list(self.l)]
            if kind == "in":
                return ["bool", 1 if self._find(op[1]) is not None else 0]
            if kind == "add":
                if self._find(op[1][0]) is not None:
                    raise ValueError(op[1][0])
                self.l.append(op[1])
                return ["ok"]
        except (IndexError, KeyError, ValueError) as e:
            return ["err", type(e).__name__]
        raise AssertionError(op)


def make_griffe_param(enc):
    import griffe
    name, ann, kind, d, _req = enc
    kinds = {v: getattr(griffe.ParameterKind, k) for k, v in KIND_NAMES.items()}
    default = None if not d else (d[1] if d[0] == 1 else str(d[1]))
    return griffe.Parameter(name, annotation=None if not ann else f"A{ann[0]}", kind=kinds[kind], default=default)


def impl_step(params, op):
    kind = op[0]
    try:
        if kind == "get":
            return ["ok", enc_griffe_param(params[op[1]])]
        if kind == "set":
            params[op[1]] = make_griffe_param(op[2])
            return ["ok"]
        if kind == "del":
            del params[op[1]]
            return ["ok"]
        if kind == "len":
            return ["len", len(params)]
        if kind == "iter":
            return ["iter", [enc_griffe_param(p) for p in params]]
        if kind == "in":
            return ["bool", 1 if op[1] in params else 0]
        if kind == "add":
            params.add(make_griffe_param(op[1]))
            return ["ok"]
    except (IndexError, KeyError, ValueError) as e:
        return ["err", type(e).__name__]
    raise AssertionError(op)


POOL = ["a", "b", "c", "self", "r", "w", "k0"]


def random_enc_param(rng, name=None, serial=[0]):
    serial[0] += 1
    name = name if name is not None else rng.choice(POOL)
    kind = rng.choice(["PO", "PK", "PK", "VP", "KO", "VK"])
    if kind == "VP":
        d = [1, "()"]
    elif kind == "VK":
        d = [1, "{}"]
    else:
        d = [0, 100 + serial[0] % 50] if rng.random() < 0.4 else []
    return [name, [serial[0] % 40] if rng.random() < 0.7 else [], kind, d, 0 if d else 1]


def random_key(rng, names, n):
    if rng.random() < 0.45:
        return rng.randint(-n - 1, n)
    nm = rng.choice(names)
    r = rng.random()
    return ("*" + nm) if r < 0.1 else ("**" + nm) if r < 0.2 else nm


def random_ops(rng, init, nops, dup_ok):
    names = sorted({p[0] for p in init} | set(rng.sample(POOL, 3)))
    n = len(init)        # tracked only approximately (failed operations do not change it); keys just need to be near the range
    ops = []

    def probes():
        out = [["iter"], ["len"]]
        for nm in names:
            out.append(["get", nm])
            out.append(["in", nm])
        for i in range(-n, n):
            out.append(["get", i])
        return out

    for _ in range(nops):
        r = rng.random()
        if r < 0.30:
            ops.append(["del", random_key(rng, names, n)])
            n = max(0, n - 1)
        elif r < 0.45:
            k = random_key(rng, names, n)
            if isinstance(k, str) and (not dup_ok or rng.random() < 0.8):
                p = random_enc_param(rng, k.lstrip("*"))          # the element carries the name it is stored under
            else:
                p = random_enc_param(rng, None if dup_ok else rng.choice(names))
            ops.append(["set", k, p])
            n += 1 if isinstance(k, str) else 0
        elif r < 0.60:
            nm = rng.choice(names)
            ops.append(["add", random_enc_param(rng, ("*" + nm) if rng.random() < 0.05 else nm)])
            n += 1
        elif r < 0.80:
            ops.append(["get", random_key(rng, names, n)])
        elif r < 0.90:
            ops.append(["in", random_key(rng, names, n) if rng.random() < 0.5 else rng.choice(names)])
            if isinstance(ops[-1][1], int):
                ops[-1] = ["in", rng.choice(names)]
        else:
            ops.append(rng.choice([["len"], ["iter"]]))
        if ops[-1][0] in ("del", "set", "add") and rng.random() < 0.7:
            ops.extend(probes())
    ops.extend(probes())
    return ops


def container_cases(ctx, n):
    import griffe
    rng = ctx.rng
    out = []
    for i in range(n):
        if i % 2 == 0:
            # content built by the visitor from a definition
            v = random_vector(rng, 3)
            src = method_source(render_sig(v, bool(i & 2)).replace("p0", "self", 1) if v[0] else render_sig(v, bool(i & 2)), "instance")
            params = griffe_object(src, ("C", "f")).parameters
            init = [enc_griffe_param(p) for p in params]
            origin = "visited"
        else:
            dup_ok = i % 4 == 1
            names = [rng.choice(POOL) for _ in range(rng.randint(0, 5))]
            if not dup_ok:
                names = list(dict.fromkeys(names))
            init = [random_enc_param(rng, nm) for nm in names]
            params = griffe.Parameters(*[make_griffe_param(p) for p in init])
            origin = "constructed-dup" if dup_ok else "constructed"
        ops = random_ops(rng, init, rng.randint(1, 6), origin == "constructed-dup")
        out.append((origin, init, params, ops))
    return out


def check_container(ctx, n, use_model=True, cases=None):
    cases = cases if cases is not None else container_cases(ctx, n)
    if use_model:
        m_impl = ctx.model([["ops", init, ops] for _, init, _, ops in cases])
        m_spec = ctx.model([["ops-spec", init, ops] for _, init, _, ops in cases])
    else:
        m_impl = m_spec = [None] * len(cases)
    for (origin, init, params, ops), mi, ms in zip(cases, m_impl, m_spec):
        mutations = [o for o in ops if o[0] in ("del", "set", "add")]
        if use_model:
            ctx.case({"container": origin, "init": init, "ops": mutations}, bool(mutations))
            ctx.observe("container_origin", origin)
            ctx.observe("container_init_len", len(init))
        else:
            ctx.evaluations += 1
        ref = RefList(init)
        got, exp = [], []
        for op in ops:
            got.append(impl_step(params, op))
            exp.append(ref.step(op))
            if use_model:
                ctx.observe("container_op", op[0] + ("-int" if len(op) > 1 and isinstance(op[1], int) else "-str" if len(op) > 1 and isinstance(op[1], str) else ""))
                ctx.observe("container_result", got[-1][0] if got[-1][0] != "err" else got[-1][1])
        final_g, final_r = [enc_griffe_param(p) for p in params], ref.l
        if use_model:
            if mi != [got, final_g]:
                k = next((j for j, (a, b) in enumerate(zip(mi[0], got)) if a != b), None)
                ctx.tie_failure("correspondence", "container(model) vs griffe.Parameters under an operation sequence",
                                {"first_difference_at": k, "op": ops[k] if k is not None else None, "model": mi[0][k] if k is not None else mi[1],
                                 "impl": got[k] if k is not None else final_g}, {"init": init, "ops": ops[: (k or 0) + 1]})
            if ms != [exp, final_r]:
                ctx.tie_failure("oracle", "abstract list(model) vs reference list", {"model": ms, "reference": [exp, final_r]}, {"init": init, "ops": ops})
        if got != exp or final_g != final_r:
            k = next((j for j, (a, b) in enumerate(zip(got, exp)) if a != b), len(ops) - 1)
            ctx.property_failure({"container_init": init, "ops": ops[: k + 1], "origin": origin},
                                 {"step": k, "op": ops[k], "griffe": got[k], "abstract_list": exp[k]})
            if not use_model:
                return True
        ctx.count("container_cases")
    return False


# ---- several function objects: their containers are independent, also across visits
def check_multi_containers(ctx, n, use_model=True):
    import griffe
    rng = ctx.rng
    cases = []
    for _ in range(n):
        sigs = []
        for k in range(rng.randint(2, 4)):
            if rng.random() < 0.5:
                sigs.append("")                       # parameterless definitions: the visitor builds an empty container for each
            else:
                sigs.append(render_sig(random_vector(rng, 2), False))
        src = "".join(f"{'async ' if rng.random() < 0.2 else ''}def h{k}({s}): ...\n" for k, s in enumerate(sigs))
        src += "class K:\n    @staticmethod\n    def s(): ...\n    def m(self): ...\nclass E: pass\n"
        names = [f"h{k}" for k in range(len(sigs))] + ["K.s", "K.m", "E"]
        ios = []
        for _ in range(rng.randint(1, 5)):
            i = rng.randrange(len(names))
            r = rng.random()
            if r < 0.5:
                ios.append([i, ["add", random_enc_param(rng, rng.choice(POOL))]])
            elif r < 0.75:
                nm = rng.choice(POOL)
                ios.append([i, ["set", nm, random_enc_param(rng, nm)]])
            else:
                ios.append([i, ["del", rng.choice([0, -1, rng.choice(POOL)])]])
            ios.extend([j, ["iter"]] for j in range(len(names)))
        cases.append((src, names, ios))

    def containers(src, names):
        mod = griffe.visit("m", filepath=None, code=src)
        out = []
        for nm in names:
            obj = mod
            for part in nm.split("."):
                obj = obj.members[part]
            out.append(obj.parameters)          # for class E (no __init__): Class.parameters
        return out
    inits, conts = [], []
    for src, names, ios in cases:
        cs = containers(src, names)
        conts.append(cs)
        inits.append([[enc_griffe_param(p) for p in c] for c in cs])
    m_out = ctx.model([["multi", init, ios] for (src, names, ios), init in zip(cases, inits)]) if use_model else [None] * len(cases)
    for (src, names, ios), init, cs, mo in zip(cases, inits, conts, m_out):
        if use_model:
            ctx.case({"multi_container": src, "ops": [io for io in ios if io[1][0] != "iter"]}, True)
            ctx.observe("multi_empty_containers", sum(1 for c in init if not c))
        else:
            ctx.evaluations += 1
        refs = [RefList(c) for c in init]
        got, exp = [], []
        for i, op in ios:
            got.append(impl_step(cs[i], op))
            exp.append(refs[i].step(op))
        final_g = [[enc_griffe_param(p) for p in c] for c in cs]
        final_r = [r.l for r in refs]
        if use_model and mo != [got, final_g]:
            ctx.tie_failure("correspondence", "store of containers (model) vs the containers of several function objects",
                            {"model": mo, "impl": [got, final_g]}, {"source": src, "ops": ios})
        bad = None
        if got != exp or final_g != final_r:
            k = next((j for j, (a, b) in enumerate(zip(got, exp)) if a != b), len(ios) - 1)
            bad = {"step": k, "container": names[ios[k][0]], "op": ios[k][1], "griffe": got[k], "independent_lists": exp[k]}
        else:
            # a later visit of the same source is not affected by what was done to the objects of the earlier one
            again = [[enc_griffe_param(p) for p in c] for c in containers(src, names)]
            if again != init:
                bad = {"later_visit": dict(zip(names, again)), "first_visit": dict(zip(names, init))}
        if bad:
            ctx.property_failure({"source": src, "containers": names, "history": [[names[i], op] for i, op in ios if op[0] != "iter"]}, bad)
            if not use_model:
                return True
        ctx.count("multi_container_cases")
    return False


# ---- stub-merged signatures: the definition's names/kinds/defaults, each parameter annotated as the stub annotates that NAME
def check_stub_merge(ctx, n, use_model=True):
    import re
    import griffe
    rng = ctx.rng
    root = ctx.scratch / "stubs"
    cases = []
    for idx in range(n):
        v1 = random_vector(rng, 3)
        r = rng.random()
        if r < 0.3:
            v2 = v1                                                            # congruent
        elif r < 0.5:
            v1 = (rng.randint(0, 1), rng.randint(0, 2), 1, 0, 1, 0, 0)         # pass-through implementation, spelled-out stub
            v2 = random_vector(rng, 3)
        else:
            v2 = random_vector(rng, 3)
        sig1 = render_sig(v1, rng.random() < 0.3)
        sig2 = re.sub(r"A(\d+)", lambda m: f"A{int(m.group(1)) + 20}", render_sig(v2, True))
        if rng.random() < 0.3:                                                 # the stub leaves some parameters unannotated
            sig2 = re.sub(r": A2\d\b", "", sig2, count=1)
        in_class = bool(idx & 1)
        ind = "    " if in_class else ""
        head = "class C:\n" if in_class else ""
        py = f"{head}{ind}def f({sig1}): ...\n"
        pyi = f"{head}{ind}def f({sig2}) -> R0: ...\n"
        cases.append((py, pyi, ("C", "f") if in_class else ("f",)))
    pre = []
    for py, pyi, path in cases:
        a = [enc_griffe_param(p) for p in griffe_object(py, path).parameters]
        b = [enc_griffe_param(p) for p in griffe_object(pyi, path).parameters]
        pre.append((a, b))
    m_out = ctx.model([["merge", a, b] for a, b in pre]) if use_model else [None] * len(cases)
    for k, ((py, pyi, path), (a, b), mo) in enumerate(zip(cases, pre, m_out)):
        d = root / f"c{k}"
        d.mkdir(parents=True, exist_ok=True)
        (d / "sm.py").write_text(py)
        (d / "sm.pyi").write_text(pyi)
        if use_model:
            ctx.case({"stub_merge": {"py": py, "pyi": pyi}}, a != b)
            ctx.observe("stub_congruent", [x[0] for x in a] == [x[0] for x in b])
        else:
            ctx.evaluations += 1
        try:
            obj = griffe.load("sm", search_paths=[str(d)])
            for nm in path:
                obj = obj.members[nm]
            impl = ["ok", [enc_griffe_param(p) for p in obj.parameters], None if obj.returns is None else str(obj.returns)]
        except Exception as e:  # noqa: BLE001
            impl = ["err", type(e).__name__, None]
        # CPython: the runtime signature of the definition; annotations as the stub gives them for the same name
        rt, st = exec_ns(py), exec_ns(pyi)
        f_rt, f_st = rt[path[0]], st[path[0]]
        for nm in path[1:]:
            f_rt, f_st = getattr(f_rt, nm), getattr(f_st, nm)
        stub_params = inspect.signature(f_st).parameters
        exp = []
        for p in inspect.signature(f_rt).parameters.values():
            e = enc_inspect_param(p)
            if p.name in stub_params:
                e[1] = enc_inspect_param(stub_params[p.name])[1]
            exp.append(e)
        if use_model and (mo[0] != impl[1] or mo[1] != impl[1]):
            ctx.tie_failure("correspondence", "merge_stub_parameters / merged_spec (model) vs griffe.load of a module with its stubs",
                            {"model": mo, "impl": impl}, {"py": py, "pyi": pyi})
        if impl != ["ok", exp, "R0"]:
            ctx.property_failure({"py": py, "pyi": pyi, "path": list(path)}, {"griffe_merged": impl, "runtime_signature_with_stub_annotations_by_name": exp})
            if not use_model:
                return True
        ctx.count("stub_merge_cases")
    return False


# =====================================================================================================================
# bodies: overloads, properties, accessors, redefinitions
# =====================================================================================================================
NAMES = ["f", "g", "x"]
PRELUDE = ["from typing import overload", "import typing, functools", "import typing as t; from typing_extensions import overload as ovx", "from functools import cached_property", "from abc import abstractmethod",
           "from contextlib import nullcontext", "def other(f): return f", "FLAG_T = True", "FLAG_F = False"]
# spelled decorator -> callable path as Griffe resolves it (the generated source imports exactly these names)
DECO_PATHS = {"overload": "typing.overload", "typing.overload": "typing.overload", "t.overload": "typing.overload",
              "ovx": "typing_extensions.overload", "property": "property",
              "functools.cached_property": "functools.cached_property", "cached_property": "functools.cached_property",
              "other": "m.other", "staticmethod": "staticmethod", "classmethod": "classmethod", "abstractmethod": "abc.abstractmethod",
              "functools.cache": "functools.cache"}
ROLE_OVERLOAD = ("overload", "overload", "typing.overload", "typing.overload", "t.overload", "ovx")
ROLE_PROPERTY = ("property", "functools.cached_property", "cached_property")


# spellings that the module at hand binds to a LOCAL pass-through decorator (`def overload(f): return f`) instead of the
# typing / builtin object: set per case (split_stream); the module path stays "m", so successive visits in this
# process see the same dotted path with different meanings -- a visit must not depend on earlier ones
_LOCAL: frozenset = frozenset()
LOCALIZABLE = {"overload": ("from typing import overload", "def overload(f): return f"),
               "ovx": ("from typing_extensions import overload as ovx", "def ovx(f): return f"),
               "cached_property": ("from functools import cached_property", "def cached_property(f): return f"),
               "property": (None, "def property(f): return f")}


def split_stream(stream):
    """'random@overload,property' -> ('random', frozenset({'overload', 'property'})); also makes it the current environment."""
    global _LOCAL
    base, _, env = stream.partition("@")
    _LOCAL = frozenset(x for x in env.split(",") if x)
    return base, _LOCAL


def prelude_lines():
    lines = []
    for l in PRELUDE:
        for name in _LOCAL:
            imp, local = LOCALIZABLE[name]
            if imp and imp in l:
                l = l.replace(imp, "pass")
        lines.append(l)
    return lines + [LOCALIZABLE[name][1] for name in sorted(_LOCAL)]


def deco_role(d, name):
    if d in _LOCAL:
        return None
    if d in ROLE_OVERLOAD:
        return "overload"
    if d in ROLE_PROPERTY:
        return "property"
    if d.endswith(".setter") or d.endswith(".deleter"):
        return "accessor" if d.rsplit(".", 1)[0] == name else "foreign-accessor"
    return None


def supported_def(name, decos):
    """At most one role decorator, accessors only for the own name (the shapes the agreement theorem speaks about)."""
    roles = [r for r in (deco_role(d, name) for d in decos) if r]
    return len(roles) <= 1 and "foreign-accessor" not in roles


def random_stmts(rng, n, scope, depth=0):
    """Straight-line (every statement executes) body: defs with any decorator mix, other binders, if-True / try / with nesting."""
    out = []
    for _ in range(n):
        name = rng.choice(NAMES)
        r = rng.random()
        if r < 0.06 and depth < 2:
            out.append((rng.choice(["if_t", "try", "with"]), random_stmts(rng, rng.randint(1, 3), scope, depth + 1)))
            continue
        if r < 0.10 and depth < 2:
            # a branch CPython does not run (Griffe visits it all the same); whether it stays invisible is decided by the model's dead_ok
            dead = random_stmts(rng, rng.randint(1, 3), scope, depth + 1)
            live = name_block(rng, dead[0][1], scope) if dead[0][0] in ("def", "bind") and rng.random() < 0.6 else random_stmts(rng, rng.randint(0, 3), scope, depth + 1)
            out.append(("if_else", dead, live))
            continue
        if r < 0.14:
            out.append(("bind", name, rng.choice(["class", "import"])))
            continue
        decos = []
        r = rng.random()
        if r < 0.27:
            decos = [rng.choice(ROLE_OVERLOAD)]
        elif r < 0.42:
            decos = [rng.choice(ROLE_PROPERTY) if rng.random() < 0.3 else "property"]
        elif r < 0.57:
            decos = [f"{rng.choice(NAMES) if rng.random() < 0.2 else name}.setter"]
        elif r < 0.67:
            decos = [f"{rng.choice(NAMES) if rng.random() < 0.2 else name}.deleter"]
        elif r < 0.74:
            decos = [rng.choice(["other", "functools.cache", "abstractmethod"] if scope == "class" else ["other", "functools.cache"])]
        role_free = not decos or decos[0] in ("other", "functools.cache", "abstractmethod")
        if decos and rng.random() < 0.25:
            decos.insert(rng.randint(0, len(decos)), "other")
        if rng.random() < 0.05:
            decos.insert(rng.randint(0, len(decos)), rng.choice(["overload", "property", f"{name}.setter"]))
            role_free = False
        # wrappers that are transparent for CPython only right above the def (abstractmethod cannot mark a property,
        # a functools.cache wrapper has no __code__ for typing.overload to register)
        if decos and not role_free and rng.random() < 0.2:
            decos.append(rng.choice(["abstractmethod", "staticmethod", "classmethod"] if scope == "class" else ["other"]))
        if any(deco_role(d, name) for d in decos):
            decos = ["other" if d == "functools.cache" else d for d in decos]
            inner = ("abstractmethod", "staticmethod", "classmethod")
            wrappers = [d for d in decos if d in inner]
            # `@classmethod @abstractmethod` is the only order CPython accepts; one of static/class at most
            wrappers = [d for d in wrappers if d != "abstractmethod"][:1] + [d for d in wrappers if d == "abstractmethod"][:1]
            decos = [d for d in decos if d not in inner] + wrappers
        out.append(("def", name, decos, rng.random() < 0.15))
    return out


def overload_block(rng, name, scope):
    is_async = rng.random() < 0.2
    wrap = rng.choice([None, None, "other", "staticmethod", "classmethod", "abstractmethod"]) if scope == "class" else rng.choice([None, None, "other"])
    ov = rng.choice(ROLE_OVERLOAD)

    def stack(base):
        if wrap is None:
            return list(base)
        return [*base, wrap] if rng.random() < 0.6 else [wrap, *base]   # overload above (usual) or below the wrapper
    return [("def", name, stack([ov]), is_async) for _ in range(rng.randint(1, 3))] + [("def", name, stack([]), is_async)]


def property_block(rng, name, scope):
    is_async = rng.random() < 0.2
    if rng.random() < 0.15:
        return [("def", name, [rng.choice(["functools.cached_property", "cached_property"])], False)]
    head = ["property"] if rng.random() < 0.8 or scope != "class" else rng.choice([["property", "abstractmethod"], ["other", "property"]])
    b = [("def", name, head, is_async)]
    acc = []
    if rng.random() < 0.7:
        acc.append("setter")
    if rng.random() < 0.5:
        acc.append("deleter")
    if acc and rng.random() < 0.2:
        acc.append(rng.choice(acc))          # an accessor given twice: the later one wins on both sides
    rng.shuffle(acc)
    for a in acc:
        b.append(("def", name, [f"{name}.{a}"] if rng.random() < 0.85 else ["other", f"{name}.{a}"], False))
    return b


def name_block(rng, name, scope):
    r = rng.random()
    if r < 0.55:
        return overload_block(rng, name, scope)
    if r < 0.9:
        return property_block(rng, name, scope)
    return [("def", name, [], rng.random() < 0.2)] if rng.random() < 0.6 else [("bind", name, rng.choice(["class", "import"]))]


def idiomatic_stmts(rng, scope):
    """Complete blocks per name (overloads then implementation; property then accessors), possibly several per name in
    sequence (redefinition) or one in each branch of an if/else whose else branch is the one that runs; statements of
    different names interleave freely, each name keeping its own order."""
    order = NAMES[:]
    rng.shuffle(order)
    queues = []
    while order:
        name = order.pop()
        r = rng.random()
        if r < 0.3:
            partner = order.pop() if order and rng.random() < 0.3 else None
            names = [name] + ([partner] if partner else [])

            def branch():
                qs = [name_block(rng, n, scope) for n in names]
                out = []
                while any(qs):
                    q = rng.choice([q for q in qs if q])
                    out.append(q.pop(0))
                return out
            pre = name_block(rng, name, scope) if rng.random() < 0.3 else []
            queues.append(pre + [("if_else", branch(), branch())])
        elif r < 0.4:
            queues.append([("if_t", name_block(rng, name, scope))] + (name_block(rng, name, scope) if rng.random() < 0.5 else []))
        else:
            q = name_block(rng, name, scope)
            for _ in range(2):
                if rng.random() < 0.35:
                    q = q + name_block(rng, name, scope)
            queues.append(q)
    out = []
    while any(queues):
        q = rng.choice([q for q in queues if q])
        out.append(q.pop(0))
    return out


def render_body(stmts, scope):
    """Returns (source, flattened items in source order, executed items); item = ('def'|'bind', line, name, decos, executed)."""
    lines = prelude_lines()
    base = ""
    if scope == "class":
        lines.append("class C:")
        base = "    "
    elif scope == "function":
        lines += ["class C:", "    def __init__(self):"]
        base = "        "
    items = []

    def emit(stmts, ind, live):
        if not stmts:
            lines.append(f"{ind}pass")
        for st in stmts:
            kind = st[0]
            if kind == "def":
                _, name, decos, is_async = st
                for d in decos:
                    lines.append(f"{ind}@{d}")
                lines.append(f"{ind}{'async ' if is_async else ''}def {name}(self=None): ...")
                items.append(("def", len(lines), name, list(decos), live))
            elif kind == "bind":
                _, name, how = st
                lines.append(f"{ind}class {name}: pass" if how == "class" else f"{ind}from os import path as {name}")
                items.append(("bind", len(lines), name, how, live))
            elif kind == "if_t":
                lines.append(f"{ind}if FLAG_T:")
                emit(st[1], ind + "    ", live)
            elif kind == "try":
                lines.append(f"{ind}try:")
                emit(st[1], ind + "    ", live)
                lines.append(f"{ind}finally:")
                lines.append(f"{ind}    pass")
            elif kind == "with":
                lines.append(f"{ind}with nullcontext():")
                emit(st[1], ind + "    ", live)
            elif kind == "if_else":
                lines.append(f"{ind}if FLAG_F:")
                emit(st[1], ind + "    ", False)
                lines.append(f"{ind}else:")
                emit(st[2], ind + "    ", live)
            else:
                raise AssertionError(st)
    emit(stmts, base, True)
    if scope == "function":
        lines.append("C()")
    return "\n".join(lines) + "\n", items


SCOPE_PATH = {"module": "m", "class": "m.C", "function": "m.C.__init__"}


def model_items(items, scope, only_live=False):
    return model_items_at(items, SCOPE_PATH[scope], only_live)


def model_items_at(items, spath, only_live=False):
    out = []
    for it in items:
        if only_live and not it[4]:
            continue
        if it[0] == "def":
            _, line, name, decos, _ = it
            paths = []
            for d in decos:
                if d in DECO_PATHS:
                    paths.append(["path", f"m.{d}" if d in _LOCAL else DECO_PATHS[d]])
                else:
                    paths.append(["path", f"{spath}.{d}"])       # <name>.setter / <name>.deleter
            out.append(["def", line, name, f"{spath}.{name}", paths])
        else:
            out.append(["bind", it[1], it[2]])
    return out


def _def_line(fn):
    # Function.lineno is the first decorator's line; the def line is the id used by the abstraction
    return fn.lineno + len(fn.decorators) if fn.decorators else fn.lineno


def make_capture():
    import griffe

    class Capture(griffe.Extension):
        """Records, for every object the visitor creates in the scope under test, what happened to it at that moment."""

        def __init__(self, scope_path, names=NAMES):
            self.scope_paths = {scope_path} if isinstance(scope_path, str) else set(scope_path)
            self.names = set(names)
            self.log = {}        # line -> outcome
            self.impls = {}      # line -> Function set as member (to re-read its overloads after the visit)

        def _here(self, agent):
            return agent.current.path in self.scope_paths

        def on_function_instance(self, *, node, func, agent, **kwargs):
            if not self._here(agent) or func.name not in self.names:
                return
            cur = agent.current
            member = cur.members.get(func.name)
            registry = cur.overloads if cur.kind.value in ("module", "class") else {}
            if member is func:
                self.log[node.lineno] = ["impl", [_def_line(o) for o in (func.overloads or [])]]
                self.impls[node.lineno] = func
            elif member is not None and not member.is_alias and member.kind.value == "attribute" and member.setter is func:
                self.log[node.lineno] = ["setter", member.lineno]
            elif member is not None and not member.is_alias and member.kind.value == "attribute" and member.deleter is func:
                self.log[node.lineno] = ["deleter", member.lineno]
            elif any(o is func for o in (registry.get(func.name) or [])):
                self.log[node.lineno] = ["overload"]
            else:
                self.log[node.lineno] = ["dropped"]

        def on_attribute_instance(self, *, node, attr, agent, **kwargs):
            if self._here(agent) and attr.name in self.names and isinstance(node, (ast.FunctionDef, ast.AsyncFunctionDef)):
                self.log[node.lineno] = ["property"]

        def on_class_instance(self, *, node, cls, agent, **kwargs):
            if cls.path.rsplit(".", 1)[0] in self.scope_paths and cls.name in self.names:   # current is already the new class
                self.log[node.lineno] = ["bind"]

        def on_alias(self, *, node, alias, agent, **kwargs):
            if self._here(agent) and alias.name in self.names:
                self.log[node.lineno] = ["bind"]

    return Capture


_CAPTURE = None


def impl_body(src, scope, items):
    """[members, pending overloads, per-definition outcomes] as the model prints them, plus the overload lists re-read at the end."""
    import griffe
    global _CAPTURE
    if _CAPTURE is None:
        _CAPTURE = make_capture()
    cap = _CAPTURE(SCOPE_PATH[scope])
    mod = griffe.visit("m", filepath=None, code=src, extensions=griffe.load_extensions(cap))
    obj = mod if scope == "module" else mod.members["C"] if scope == "class" else mod.members["C"].members["__init__"]
    return observe_scope(obj, cap, items, NAMES, scope != "function")


def observe_scope(obj, cap, items, names, tracks=True):
    mem = []
    for name, m in obj.members.items():
        if name not in names:
            continue
        if m.is_alias:
            mem.append([name, "other", m.alias_lineno])
        elif m.kind.value == "function":
            mem.append([name, "function", _def_line(m), [_def_line(o) for o in (m.overloads or [])]])
        elif m.kind.value == "attribute" and "property" in m.labels:
            mem.append([name, "property", m.lineno, [] if m.setter is None else [_def_line(m.setter)], [] if m.deleter is None else [_def_line(m.deleter)]])
        else:
            mem.append([name, "other", m.lineno])
    registry = obj.overloads if tracks else {}
    buf = sorted([k, [_def_line(o) for o in v]] for k, v in registry.items() if v and k in names)  # defaultdict key order is not observable
    log = [cap.log.get(it[1], ["missing"]) for it in items]
    lines = {it[1] for it in items}
    final = {line: [_def_line(o) for o in (fn.overloads or [])] for line, fn in cap.impls.items() if line in lines}
    return [mem, buf, log], final


def norm_model_scope(ms):
    mem, buf, log = ms
    return [mem, sorted(b for b in buf if b[1]), log]


def _unwrap(o):
    seen = 0
    while seen < 5:
        seen += 1
        if isinstance(o, (staticmethod, classmethod)):
            o = o.__func__
        elif hasattr(o, "__wrapped__"):
            o = o.__wrapped__
        else:
            break
    return o


def oracle_body(src, scope, items):
    """CPython's view after executing the body: namespace entries of the generated names and typing's overload registry.
    Lines are def lines (co_firstlineno is the first decorator's line)."""
    import functools
    first_to_def = {}
    for node in ast.walk(ast.parse(src)):
        if isinstance(node, (ast.FunctionDef, ast.AsyncFunctionDef)):
            first_to_def[node.decorator_list[0].lineno if node.decorator_list else node.lineno] = node.lineno
    bind_lines = {}
    for it in items:
        if it[0] == "bind" and it[4]:
            bind_lines[it[2]] = it[1]        # the last executed binder of that name
    typing.clear_overloads()
    ns = {"__name__": "c02mod"}
    sys.modules.pop("c02mod", None)
    try:
        exec(compile(src, "<c02body>", "exec", dont_inherit=True), ns)
    except Exception as e:  # noqa: BLE001
        return ["err", type(e).__name__]
    holder = ns["C"].__dict__ if scope == "class" else ns
    return oracle_scope(holder, "C." if scope == "class" else "", first_to_def, bind_lines)


def first_to_def_lines(src):
    out = {}
    for node in ast.walk(ast.parse(src)):
        if isinstance(node, (ast.FunctionDef, ast.AsyncFunctionDef)):
            out[node.decorator_list[0].lineno if node.decorator_list else node.lineno] = node.lineno
    return out


def oracle_scope(holder, qual_prefix, first_to_def, bind_lines):
    import functools
    line = lambda fn: first_to_def[_unwrap(fn).__code__.co_firstlineno]
    view = {}
    for name in NAMES:
        if name not in holder:
            continue
        o = holder[name]
        raw = _unwrap(o)
        try:
            if isinstance(o, property):
                view[name] = ["property", line(o.fget), [] if o.fset is None else [line(o.fset)], [] if o.fdel is None else [line(o.fdel)]]
            elif isinstance(o, functools.cached_property):
                view[name] = ["property", line(o.func), [], []]
            elif inspect.isfunction(raw) and raw.__module__ == "typing":
                view[name] = ["dummy"]
            elif inspect.isfunction(raw):
                view[name] = ["function", line(raw)]
            else:
                view[name] = ["other", bind_lines.get(name, 0)]
        except (AttributeError, KeyError):
            return ["err", "unsupported"]       # e.g. property(property(...)), property(<overload dummy>): outside the modelled shapes
    reg = {}
    for name in NAMES:
        probe = types.SimpleNamespace(__module__="c02mod", __qualname__=qual_prefix + name)
        got = [line(f) for f in typing.get_overloads(probe)]
        if got:
            reg[name] = got
    return ["ok", view, reg]


def norm_cpy_model(mo):
    if mo[0] != "ok":
        return mo
    view = {}
    for e in mo[1]:
        if e[1] == "function":
            view[e[0]] = ["function", e[2]]
        elif e[1] == "property":
            view[e[0]] = ["property", e[2], e[3], e[4]]
        elif e[1] == "dummy":
            view[e[0]] = ["dummy"]
        else:
            view[e[0]] = ["other", e[2]]
    return ["ok", view, {k: v for k, v in mo[2] if v}]


def direct_body_check(items, impl, final, orc):
    """Griffe vs CPython, no model: (P1) members against the namespace, (P2) typing's registry = concatenation of the overload
    lists Griffe attached to the executed implementations of the name + the executed pending ones.  Returns None or a detail."""
    (mem, buf, log) = impl
    _, view, reg = orc
    live = {it[1] for it in items if it[4]}
    members = {m[0]: m for m in mem}
    for name, v in view.items():
        m = members.get(name)
        if v[0] == "function" and (m is None or m[1] != "function" or m[2] != v[1]):
            return {"check": "member", "name": name, "griffe": m, "cpython": v}
        if v[0] == "property" and (m is None or m[1:] != v):
            return {"check": "member", "name": name, "griffe": m, "cpython": v}
        if v[0] == "other" and (m is None or m[1] != "other"):
            return {"check": "member", "name": name, "griffe": m, "cpython": v}
    pending = dict((k, v) for k, v in buf)
    for name in NAMES:
        attached = []
        for it, o in zip(items, log):
            if it[0] == "def" and it[2] == name and it[4] and o[0] == "impl":
                attached += final.get(it[1], o[1])
        got = attached + [l for l in pending.get(name, []) if l in live]
        if got != reg.get(name, []):
            return {"check": "overloads", "name": name, "griffe_attached_then_pending": got, "cpython_get_overloads": reg.get(name, [])}
    return None


# ---- several scopes in one module: module body + classes (same member names in each) + nested classes
CLASS_NAMES = ["A", "B", "D"]


def tree_case(rng):
    """module statements and 2-3 classes, the first two possibly holding a nested class D; every body draws from the
    same three member names, so that anything the visitor keeps per module (not per scope) shows."""
    idiom = rng.random() < 0.7
    gen = (lambda sc: idiomatic_stmts(rng, sc)) if idiom else (lambda sc: random_stmts(rng, rng.randint(1, 5), sc))
    top = gen("module") if rng.random() < 0.6 else []
    classes = []
    for name in ("A", "B"):
        body = gen("class")
        if rng.random() < 0.4:
            body.insert(rng.randint(0, len(body)), ("class", "D", gen("class")))
        classes.append(("class", name, body))
    if rng.random() < 0.3:
        classes.append(("class", "D", gen("class")))
    k = rng.randint(0, len(top))
    return ("idiom" if idiom else "random"), top[:k] + classes[:1] + top[k:] + classes[1:]


def render_tree(stmts):
    """-> source, {scope path: items}, model tree, {scope path: (kind, parent holder path)}"""
    split_stream("")
    lines = list(PRELUDE)
    scopes = {"m": []}

    def emit(stmts, ind, live, spath, tree):
        if not stmts:
            lines.append(f"{ind}pass")
        for st in stmts:
            kind = st[0]
            if kind == "def":
                _, name, decos, is_async = st
                for d in decos:
                    lines.append(f"{ind}@{d}")
                lines.append(f"{ind}{'async ' if is_async else ''}def {name}(self=None): ...")
                it = ("def", len(lines), name, list(decos), live)
                scopes[spath].append(it)
                tree.append(model_items_at([it], spath)[0])
            elif kind == "bind":
                _, name, how = st
                lines.append(f"{ind}class {name}: pass" if how == "class" else f"{ind}from os import path as {name}")
                it = ("bind", len(lines), name, how, live)
                scopes[spath].append(it)
                tree.append(["bind", it[1], name])
            elif kind == "class":
                _, name, body = st
                lines.append(f"{ind}class {name}:")
                it = ("bind", len(lines), name, "scope", live)
                scopes[spath].append(it)
                sub = f"{spath}.{name}"
                scopes[sub] = []
                subtree = []
                tree.append(["class", it[1], name, subtree])
                emit(body, ind + "    ", live, sub, subtree)
            elif kind in ("if_t", "try", "with"):
                lines.append(f"{ind}" + {"if_t": "if FLAG_T:", "try": "try:", "with": "with nullcontext():"}[kind])
                emit(st[1], ind + "    ", live, spath, tree)
                if kind == "try":
                    lines.extend([f"{ind}finally:", f"{ind}    pass"])
            elif kind == "if_else":
                lines.append(f"{ind}if FLAG_F:")
                emit(st[1], ind + "    ", False, spath, tree)
                lines.append(f"{ind}else:")
                emit(st[2], ind + "    ", live, spath, tree)
            else:
                raise AssertionError(st)
    tree = []
    emit(stmts, "", True, "m", tree)
    return "\n".join(lines) + "\n", scopes, tree


def check_trees(ctx, n, use_model=True):
    import griffe
    global _CAPTURE
    if _CAPTURE is None:
        _CAPTURE = make_capture()
    rng = ctx.rng
    cases = [tree_case(rng) for _ in range(n)]
    rendered = [render_tree(st) for _, st in cases]
    if use_model:
        m_run = ctx.model([["tree", "m", tree] for _, _, tree in rendered])
        m_spec = ctx.model([["tree-spec", "m", tree] for _, _, tree in rendered])
        flat = [(i, sp) for i, (_, scopes, _) in enumerate(rendered) for sp in scopes]
        m_cpy = dict(zip(flat, ctx.model([["cpy", model_items_at(rendered[i][1][sp], sp, only_live=True)] for i, sp in flat])))
        m_flow = dict(zip(flat, ctx.model([["flow", [[1 if it[4] else 0, mi] for it, mi in zip(rendered[i][1][sp], model_items_at(rendered[i][1][sp], sp))]]
                                           for i, sp in flat])))
    names = set(NAMES) | set(CLASS_NAMES)
    for i, ((stream, stmts), (src, scopes, tree)) in enumerate(zip(cases, rendered)):
        if use_model:
            ctx.case({"stream": "tree-" + stream, "body": stmts}, True)
            ctx.observe("tree_scopes", len(scopes))
            ctx.observe("tree_stream", stream)
        else:
            ctx.evaluations += 1
        cap = _CAPTURE(set(scopes), names)
        try:
            mod = griffe.visit("m", filepath=None, code=src, extensions=griffe.load_extensions(cap))
            impl, finals = {}, {}
            for sp, items in scopes.items():
                obj = mod
                for part in sp.split(".")[1:]:
                    obj = obj.members[part]
                impl[sp], finals[sp] = observe_scope(obj, cap, items, names)
        except Exception as e:  # noqa: BLE001
            ctx.property_failure({"source": src}, {"griffe": "visit raised " + repr(e)})
            if not use_model:
                return True
            continue
        if use_model:
            cur, fin, depth = m_run[i]
            model = {cur[0]: norm_model_scope(cur[1])}
            for fr in fin:
                model[fr[0]] = norm_model_scope(fr[1])
            if m_run[i] != m_spec[i] or depth != 0:
                ctx.tie_failure("extraction", "traversal machine vs compositional reading (a theorem)", {"machine": m_run[i], "spec": m_spec[i]}, {"source": src})
            if model != impl:
                bad = [sp for sp in impl if model.get(sp) != impl[sp]]
                ctx.tie_failure("correspondence", "traversal of nested class bodies (model) vs griffe.visit, per scope",
                                {"scopes": bad, "model": {sp: model.get(sp) for sp in bad}, "impl": {sp: impl[sp] for sp in bad}}, {"source": src})
        ctx.count("tree_cases")
        # CPython
        typing.clear_overloads()
        ns = {"__name__": "c02mod"}
        sys.modules.pop("c02mod", None)
        try:
            exec(compile(src, "<c02tree>", "exec", dont_inherit=True), ns)
            executed = True
        except Exception as e:  # noqa: BLE001
            executed = False
            if use_model:
                ctx.observe("tree_exec", type(e).__name__)
            if stream == "idiom":
                ctx.tie_failure("harness", "idiomatic tree does not execute", {"error": repr(e)}, {"source": src})
        if not executed:
            continue
        f2d = first_to_def_lines(src)
        for sp, items in scopes.items():
            holder = ns
            ok = True
            for part in sp.split(".")[1:]:
                holder = (holder if isinstance(holder, dict) else holder.__dict__).get(part)
                if not isinstance(holder, type):
                    ok = False       # the class name was re-bound to something else in its parent
                    break
            if not ok:
                continue
            holder = holder if isinstance(holder, dict) else holder.__dict__
            qual = ".".join(sp.split(".")[1:])
            bind_lines = {it[2]: it[1] for it in items if it[0] == "bind" and it[4]}
            orc = oracle_scope(holder, qual + "." if qual else "", f2d, bind_lines)
            if use_model:
                mcn = norm_cpy_model(m_cpy[(i, sp)])
                if mcn[0] == "ok":
                    mcn[1] = {k: v for k, v in mcn[1].items() if k in NAMES}      # nested classes are binders of their parent
                ctx.observe("tree_cpy_model", mcn[0] if mcn[0] == "ok" else mcn[1])
                if mcn[0] == "ok" and orc[0] == "ok" and mcn != orc:
                    ctx.tie_failure("oracle", "cpy_exec(model) vs exec, per scope of a tree", {"scope": sp, "model": mcn, "cpython": orc}, {"source": src})
            if orc[0] != "ok" or not all(supported_def(it[2], it[3]) for it in items if it[0] == "def"):
                continue
            # an accessor of a name this class body has not bound yet resolves in the module (a foreign accessor)
            bound, outside = set(), False
            for it in items:
                if it[0] == "def" and any(deco_role(x, it[2]) == "accessor" for x in it[3]) and it[2] not in bound and sp != "m":
                    outside = True
                if it[4] and not (it[0] == "def" and any(deco_role(x, it[2]) == "overload" for x in it[3])):
                    bound.add(it[2])
            if outside:
                ctx.count("tree_direct_skipped_accessor_resolves_outside")
                continue
            if any(not it[4] for it in items):
                # untaken branches in this scope: compare only when they are invisible (dead_ok, theorem C02_dead_code_invisible)
                if use_model:
                    ok_flow = bool(m_flow[(i, sp)])
                    ctx.observe("tree_dead_ok", f"{stream}:{ok_flow}")
                    if not ok_flow:
                        if stream == "idiom":
                            ctx.tie_failure("harness", "an idiomatic class/module body with an untaken branch is refused by dead_ok", {"scope": sp}, {"source": src})
                        continue
                elif stream != "idiom":
                    continue
            bad = direct_body_check(items, impl[sp], finals[sp], orc)
            ctx.count("tree_direct_checks")
            if bad:
                ctx.property_failure({"source": src, "scope": sp}, bad)
                if not use_model:
                    return True
                break
    return False


# ---- lambdas used as defaults: the lambda's own parameter list (same get_parameters) and its text
def check_lambda_defaults(ctx, vecs, use_model=True):
    import griffe
    cases = []
    for idx, v in enumerate(vecs):
        sig = render_sig(v, False)
        how = idx % 3
        src = (f"def outer(cb=lambda {sig}: 0): ...\n" if how == 0 else f"class C:\n    async def outer(self, *, cb=lambda {sig}: 0): ...\n" if how == 1
               else f"def outer(a, cb=(lambda {sig}: 0), /): ...\n")
        cases.append((v, src, ("outer",) if how != 1 else ("C", "outer")))
    if use_model:
        absargs = []
        for v, src, path in cases:
            lam = next(n for n in ast.walk(ast.parse(src)) if isinstance(n, ast.Lambda))
            absargs.append(abstract_arguments(lam.args))
        m_params = ctx.model([["params", a] for a in absargs])
    else:
        m_params = [None] * len(cases)

    def enc_sig(fn):
        return [enc_inspect_param(p) for p in inspect.signature(fn).parameters.values()]
    for (v, src, path), mp in zip(cases, m_params):
        if use_model:
            ctx.case({"lambda_default": list(v), "source": src}, sum(v[:5]) > 0)
            ctx.observe("lambda_default_n_params", v[0] + v[1] + v[2] + v[3] + v[4])
        else:
            ctx.evaluations += 1
        ns = exec_ns(src)
        outer = ns[path[0]] if len(path) == 1 else getattr(ns[path[0]], path[1])
        cdef = inspect.signature(outer).parameters["cb"].default
        orc = enc_sig(cdef)
        try:
            fn = griffe_object(src, path)
            d = fn.parameters["cb"].default
            lam = d
            while not hasattr(lam, "parameters"):         # a parenthesised lambda may be wrapped
                lam = next(x for x in lam.iterate(flat=False) if not isinstance(x, str))
            got = []
            for p in lam.parameters:
                kind = KIND_NAMES[p.kind.name]
                dd = [] if p.default is None else [1, str(p.default)] if kind in ("VP", "VK") else [0, int(str(p.default))]
                got.append([p.name, [], kind, dd, 1 if p.default is None else 0])
            impl = ["ok", got]
            text = str(d)
        except Exception as e:  # noqa: BLE001
            impl, text = ["err", type(e).__name__], None
        try:
            tview = enc_sig(eval(text, {})) if text is not None else None  # noqa: S307
        except Exception as e:  # noqa: BLE001
            tview = ["unevaluable", type(e).__name__, text]
        if use_model and mp != impl:
            ctx.tie_failure("correspondence", "get_parameters(model) vs ExprLambda.parameters of a lambda default", {"model": mp, "impl": impl}, {"source": src})
        if impl != ["ok", orc] or tview != orc:
            ctx.property_failure({"source": src, "path": list(path), "view": "lambda used as default"},
                                 {"griffe_lambda_parameters": impl, "griffe_default_text": text, "signature_of_evaluated_text": tview, "cpython_default_signature": orc})
            if not use_model:
                return True
        ctx.count("lambda_default_cases")
    return False


def body_cases(ctx, n_random, n_idiom, n_function):
    rng = ctx.rng
    cases = []
    for i in range(n_random):
        scope = "class" if i % 3 else "module"
        env = ""
        if rng.random() < 0.25:
            env = "@" + ",".join(sorted(rng.sample(sorted(LOCALIZABLE), rng.randint(1, 3))))
        cases.append(("random" + env, scope, random_stmts(rng, rng.randint(1, 8), scope)))
    for i in range(n_idiom):
        scope = "class" if i % 2 else "module"
        env = ""
        if rng.random() < 0.2:          # accessors need the real property: only the overload spellings are re-bound here
            env = "@" + ",".join(sorted(rng.sample(["overload", "ovx"], rng.randint(1, 2))))
        cases.append(("idiom" + env, scope, idiomatic_stmts(rng, scope)))
    for i in range(n_function):
        cases.append(("function-scope", "function", random_stmts(rng, rng.randint(1, 6), "module")))
    return cases


def flat_defs(stmts):
    for st in stmts:
        if st[0] == "def":
            yield st
        elif st[0] in ("if_t", "try", "with"):
            yield from flat_defs(st[1])
        elif st[0] == "if_else":
            yield from flat_defs(st[1])
            yield from flat_defs(st[2])


def check_bodies(ctx, n_random, n_idiom, n_function, use_model=True, cases=None):
    cases = cases if cases is not None else body_cases(ctx, n_random, n_idiom, n_function)
    def in_env(stream, f):
        split_stream(stream)
        return f()
    rendered = [in_env(s, lambda: render_body(st, sc)) for s, sc, st in cases]
    if use_model:
        m_scope = ctx.model([in_env(c[0], lambda: ["items", c[1], model_items(items, c[1])]) for c, (src, items) in zip(cases, rendered)])
        m_cpy = ctx.model([in_env(c[0], lambda: ["cpy", model_items(items, c[1], only_live=True)]) for c, (src, items) in zip(cases, rendered)])
        m_flow = ctx.model([in_env(c[0], lambda: ["flow", [[1 if it[4] else 0, mi] for it, mi in zip(items, model_items(items, c[1]))]])
                            for c, (src, items) in zip(cases, rendered)])
    else:
        m_scope = m_cpy = [None] * len(cases)
        m_flow = [None] * len(cases)
    for (stream, scope, stmts), (src, items), mo, mc, mf in zip(cases, rendered, m_scope, m_cpy, m_flow):
        stream, env = split_stream(stream)
        if use_model:
            ctx.observe("decorator_environment", ",".join(sorted(env)) or "-")
        defs = list(flat_defs(stmts))
        if use_model:
            ctx.case({"stream": stream, "scope": scope, "body": stmts}, any(d[2] for d in defs))
            ctx.observe("body_stream", stream)
            ctx.observe("body_scope", scope)
            ctx.observe("body_len", len(items))
            ctx.observe("body_dead_items", sum(1 for it in items if not it[4]))
            for d in defs:
                ctx.observe("async_def", d[3])
                for x in d[2]:
                    ctx.observe("decorator", x.split(".")[-1] if x.endswith(("setter", "deleter")) else x)
            groups = {}
            for it in items:
                if it[0] == "def" and not any(deco_role(x, it[2]) for x in it[3]):
                    groups[it[2]] = groups.get(it[2], 0) + 1
            ctx.observe("max_impls_per_name", max(groups.values(), default=0))
        else:
            ctx.evaluations += 1
        try:
            impl, final = impl_body(src, scope, items)
        except Exception as e:  # noqa: BLE001
            impl, final = ["err", type(e).__name__], {}
            ctx.property_failure({"source": src}, {"griffe": "visit raised " + repr(e)})
            if not use_model:
                split_stream("")
                return True
            continue
        if use_model:
            for o in impl[2]:
                ctx.observe("outcome", o[0])
            if norm_model_scope(mo) != impl:
                ctx.tie_failure("correspondence", "handle_function(model) vs griffe.visit members / pending overloads / per-definition outcomes",
                                {"model": norm_model_scope(mo), "impl": impl}, {"source": src})
            stale = {l: (o[1], final[l]) for it, o in zip(items, impl[2]) for l in [it[1]] if o[0] == "impl" and final.get(l) != o[1]}
            if stale:
                ctx.tie_failure("correspondence", "overload list of an implementation changed after it was attached (model: final at attachment)",
                                {"line: (at attachment, after the visit)": stale}, {"source": src})
        ctx.count("body_cases")
        if scope == "function":
            continue
        # CPython
        cached_then_accessor = False
        seen_cached = set()
        for it in items:
            if it[0] == "def" and it[4]:
                if any(x in ("functools.cached_property", "cached_property") for x in it[3]):
                    seen_cached.add(it[2])
                elif any(deco_role(x, it[2]) == "accessor" for x in it[3]) and it[2] in seen_cached:
                    cached_then_accessor = True
                elif not any(deco_role(x, it[2]) == "overload" for x in it[3]):
                    seen_cached.discard(it[2])
            elif it[0] == "bind" and it[4]:
                seen_cached.discard(it[2])
        orc = oracle_body(src, scope, items)
        if use_model:
            ctx.observe("cpython_exec", orc[0] if orc[0] == "ok" else orc[1])
            mcn = norm_cpy_model(mc)
            ctx.observe("cpy_model", mcn[0] if mcn[0] == "ok" else mcn[1])
            if mcn[0] == "err" and mcn[1] == "unsupported":
                pass          # shapes the CPython model declines (a role decorator on a non-function, foreign accessors)
            elif cached_then_accessor:
                ctx.count("oracle_skipped_cached_property_accessor")
            elif mcn != orc:
                ctx.tie_failure("oracle", "cpy_exec(model) vs exec + typing.get_overloads + property objects", {"model": mcn, "cpython": orc}, {"source": src})
        if orc[0] != "ok":
            if stream in ("idiom", "corpus"):
                ctx.tie_failure("harness", "idiomatic body does not execute", {"cpython": orc}, {"source": src})
            continue
        if not all(supported_def(it[2], it[3]) for it in items if it[0] == "def"):
            ctx.count("direct_skipped_unsupported_decorator_stack")
            continue
        has_dead = any(not it[4] for it in items)
        if has_dead:
            # Griffe is flow-insensitive: its view of the whole body must equal CPython's view of the executed part exactly when
            # the dead statements are invisible (theorem C02_dead_code_invisible); dead_ok is computed by the extracted model
            if use_model:
                ctx.observe("dead_ok", f"{stream}:{bool(mf)}")
                if not mf:
                    if stream in ("idiom", "corpus"):
                        ctx.tie_failure("harness", "an idiomatic body with an untaken branch is refused by dead_ok", {"dead_ok": mf}, {"source": src})
                    # how sharp the (sufficient) predicate is: does a refused body actually differ from CPython's view?
                    ctx.observe("refused_body_differs_from_cpython", bool(direct_body_check(items, impl, final, orc)))
                    continue
            elif stream not in ("idiom", "corpus"):
                continue          # without the model only the bodies that are invisible by construction are compared
        bad = direct_body_check(items, impl, final, orc)
        ctx.count("body_direct_checks")
        if bad:
            ctx.property_failure({"source": src, "scope": scope}, bad)
            if not use_model:
                split_stream("")
                return True
    split_stream("")
    return False


# =====================================================================================================================
def _tuplify(st):
    if st[0] in ("def", "bind"):
        return tuple(st)
    return (st[0], *[[_tuplify(x) for x in part] for part in st[1:]])


def check_corpus(ctx, use_model=True):
    """corpus/C02/classic.json: fixed inputs replayed before anything random."""
    import json
    from harness.common.framework import VERIF
    path = VERIF / "corpus" / "C02" / "classic.json"
    if not path.exists():
        return False
    data = json.loads(path.read_text())
    if check_signatures(ctx, [tuple(v) for v in data["signature_vectors"]], "corpus", use_model):
        return True
    if check_bound_views(ctx, [tuple(v) for v in data["bound_vectors"]] * 6, use_model):     # x6: every how / by-name / annotation combination
        return True
    cases = [("corpus", b["scope"], [_tuplify(st) for st in b["stmts"]]) for b in data["bodies"]]
    if check_bodies(ctx, 0, 0, 0, use_model, cases=cases):
        return True
    import griffe
    cont = [("corpus", c["init"], griffe.Parameters(*[make_griffe_param(p) for p in c["init"]]), c["ops"]) for c in data["container"]]
    return check_container(ctx, 0, use_model, cases=cont)


def explore(ctx):
    check_corpus(ctx)
    if ctx.quick:
        small = list(vectors(2))
        extra = [v for v in vectors(3) if max(v[0], v[1], v[3]) == 3]
        vecs = small + ctx.rng.sample(extra, 600)
    else:
        vecs = list(vectors(3))
        ctx.exhaustive = True
    check_signatures(ctx, vecs, "exhaustive-small")
    check_literal_defaults(ctx, ctx.budget(600, 6000))
    check_malformed_arguments(ctx)
    check_bodies(ctx, ctx.budget(700, 8000), ctx.budget(700, 8000), ctx.budget(150, 1500))
    check_trees(ctx, ctx.budget(300, 3000))
    check_lambda_defaults(ctx, list(vectors(2)) + [random_vector(ctx.rng, 4) for _ in range(ctx.budget(150, 1500))])
    # after the bodies (which contain decorated coroutines, properties, ...): state must not leak between definitions
    check_signatures(ctx, [random_vector(ctx.rng) for _ in range(ctx.budget(300, 4000))], "random<=8")
    bound = [v for v in vectors(2)] if ctx.quick else vecs
    check_bound_views(ctx, bound + [random_vector(ctx.rng, 5) for _ in range(ctx.budget(200, 2000))])
    check_multi_containers(ctx, ctx.budget(300, 3000))          # first of the streams that mutate containers: its failures carry the history
    check_container(ctx, ctx.budget(700, 8000))
    check_stub_merge(ctx, ctx.budget(200, 2000))
    if not ctx.quick:
        sample = [["params", abstract_arguments(find_def(ast.parse(f"def f({render_sig(v, True)}): ..."), ("f",)).args)] for v in ctx.rng.sample(vecs, 20)]
        for origin, init, _params, ops in container_cases(ctx, 12):
            sample.append(["ops", init, ops[:25]])
        for stream, scope, stmts in body_cases(ctx, 6, 6, 2):
            src, items = render_body(stmts, scope)
            sample.append(["items", scope, model_items(items, scope)])
            sample.append(["cpy", model_items(items, scope, only_live=True)])
        ctx.cross_check_extraction(sample)


def search(ctx):
    """A tie broke and no direct failure was seen yet: evaluate the property on the implementation over a wider space
    (implementation against CPython / the abstract list only; the model is not consulted)."""
    if check_corpus(ctx, use_model=False):
        return
    if check_signatures(ctx, list(vectors(3)), "search", use_model=False):
        return
    if check_literal_defaults(ctx, 3000, use_model=False):
        return
    if check_bodies(ctx, 2000, 3000, 0, use_model=False):
        return
    if check_trees(ctx, 1500, use_model=False):
        return
    if check_lambda_defaults(ctx, list(vectors(2)) + [random_vector(ctx.rng, 4) for _ in range(500)], use_model=False):
        return
    if check_bound_views(ctx, list(vectors(2)) + [random_vector(ctx.rng, 5) for _ in range(1000)], use_model=False):
        return
    if check_container(ctx, 4000, use_model=False):
        return
    if check_stub_merge(ctx, 600, use_model=False):
        return
    check_multi_containers(ctx, 1500, use_model=False)


def replay(ctx, data):
    case = data.get("failing_input") or {}
    print("detail:", data.get("detail"))
    src = case.get("source")
    if src:
        print(src)
        if "view" in case:
            return 0
        if "path" in case:
            print("griffe :", impl_params(src, tuple(case["path"])))
            print("cpython:", oracle_params(src, tuple(case["path"])))
        return 0
    if "container_init" in case:
        import griffe
        params = griffe.Parameters(*[make_griffe_param(p) for p in case["container_init"]])
        ref = RefList(case["container_init"])
        for op in case["ops"]:
            print(op, "griffe:", impl_step(params, op), "abstract list:", ref.step(op))
        return 0
    print("replay names no input:", data.get("no_longer_checks"))
    return 0
