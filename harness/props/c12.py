"""C12 — Docstring parsers are total and terminating on arbitrary text.

(T) harness/translate/c12_regexes.py: every regex of the parsers -> regex ASTs (coq/Gen/C12_regexes.v), keyword tables
    (coq/Gen/C12_tables.v); fail closed.  The Coq side decides the polynomial-matching criterion on the ASTs.
(C) model (characters -> line features -> control flow -> items)  vs  Docstring(text, parent).parse(style, **options):
    section kinds, titles, texts, admonitions, item names / annotation sources / descriptions, Examples sub-sections,
    Sphinx parameters / attributes / return / exceptions.
(O) model regex matcher vs CPython's re on every regex; model-computed line features vs CPython str/re;
    model cleandoc_post vs inspect.cleandoc as used by Docstring.__init__.
direct property evaluation on the implementation: no exception, terminates (2 s watchdog; adversarial inputs in a child
interpreter), every section well-formed, docstring and parent unmodified, plain text => a single text section.
"""
from __future__ import annotations

import itertools
import json
import logging
import os
import re
import select
import signal
import subprocess
import sys
import time

ID = "C12"
LEVEL_TEXT = ("Theorems over all line sequences, all option combinations and all parents: the Google, Numpy and Sphinx main loops "
              "terminate within len(lines)+1 iterations, every iteration moves the cursor strictly forward (each block reader returns at "
              "least offset-1), no lines[i] lookup fails (Google and Sphinx unconditionally, Numpy under the cleandoc post-condition of "
              "Docstring.__init__, which is shown to be necessary), produced sections are well-formed, and text without section syntax "
              "gives exactly one text section made of all lines in order. "
              "Character level: the model now starts from the characters of the lines. The 15 line features are computed inside Coq "
              "with a model regex matcher run on the regex ASTs regenerated from /repo on every run and with the regenerated keyword "
              "tables; the items of every section (block slicing, colon splits, the Returns / Numpy parameter / returns / default "
              "regexes, Examples sub-sections with the doctest regexes, Sphinx field parsing with its duplicate and type-field "
              "bookkeeping) are parsed in the model, and the Google and Numpy parses are proved total at that level (no item look-up "
              "fails) for every list of lines of characters. "
              "Regex termination: the matcher is a fuel-free backtracking matcher (its quantifier counter is proved not to cut "
              "anything off); under criterion A1 (every unbounded quantifier repeats one character matcher) its step count is "
              "proved to be at most bound r n K <= coef(r)*(n+1)^stars(r)*(K+1) for match, and (n+1) times that for search/sub; under "
              "criterion A2 (A1, or an iteration 'delimiter + deterministic rest followed by the delimiter', LL(1) condition decided "
              "with a class-disjointness test proved sound for well-formed characters) at most bound2 r n K; every regex found in the "
              "three parsers is proved (by computation on the regenerated ASTs) to meet A2, hence C12_repo_regexes_bounded: each of "
              "them matches every well-formed subject within bound2 steps; all but numpy._RE_PARAMETER meet A1 itself. "
              "Closed form: bound2 r n K <= coef2 r * (n+1)^deg2 r * (K+1) (degree = number of unbounded quantifiers along the longest "
              "alternative), and for every regex of the parsers deg2 <= 8 (5 at present). "
              "Exception guards: a second translator regenerates the table of every look-up on docstring.parent and of annotation "
              "compilation (what the operation can raise by its shape, what the enclosing suppress/except catches); Coq proves every "
              "raised class is a subclass of a caught one. "
              "No hidden state: for every history of parses, assignments to value / parser / parser_options and reads of parsed / lines on "
              "one docstring, parse returns what a fresh docstring with the current attributes returns (= parse_pure of the current text, "
              "effective style and options); tied by a stream of histories on one object compared with fresh objects and with the model. "
              "Ties: translator (fail closed), differential runs comparing section kinds, titles, texts, item names / annotation "
              "sources / descriptions and Sphinx field values with Docstring.parse, an oracle stream comparing the model matcher with "
              "CPython's re on every regex, the model-computed line features with CPython's str/re, and adversarial inputs "
              "generated from the regex ASTs run in a child interpreter under a per-case watchdog.")
LEVEL_NOTE = ("Trusted: Coq kernel, extraction, CPython's re._parser as front end of the regex translator (the parse tree of the engine that "
              "runs the pattern), CPython's str methods for the fields of non-ASCII characters (word / space / decimal / lower / "
              "case-insensitive ASCII letter), the reconstruction of text sections from line indices. "
              "Trusted in the guard table: the shape rules saying what a look-up can raise (AttributeError on a None parent or a missing "
              "attribute, KeyError for parameters[...], KeyError/ValueError/TypeError/alias errors for parent[...], IndexError for "
              ".elements[...], SyntaxError/ValueError/RecursionError/MemoryError for compile()). "
              "Not modelled: parse_docstring_annotation / compile and the expression builder (annotation sources are compared, their "
              "compilation is exercised by the direct evaluation only), textwrap.dedent of Numpy descriptions (descriptions of "
              "Numpy items other than parameters are not compared), look-ups on the parent beyond 'is there an annotation' "
              "(abstracted by the harness into name lists), docstring_warning. "
              "Totality of that remaining code rests on the direct evaluation: it found eight crash families there earlier, all "
              "repaired by fix: commits and kept as must-pass corpus cases. No known finding is left.")
MODEL = ("Model.C12_run", "run_C12x")
MODEL_TARGETS = ["Model/C12_run.vo"]
COQ_TARGETS = ["Proofs/C12_docstrings.vo", "Proofs/C12_regex.vo", "Proofs/C12_regex2.vo", "Proofs/C12_regex3.vo", "Proofs/C12_chars.vo", "Proofs/C12_history.vo", "Proofs/C12_guards.vo"]
RULE = ("texts of <=12 lines (some longer) assembled from section keywords, separators, indentation levels, item syntaxes and prose: "
        "(a) exhaustive sequences of <=3 line classes (thorough: <=4) from a 13-letter alphabet per style, (b) seeded random fragment sequences, "
        "(c) structured mostly-valid docstrings per style with seeded perturbations (dropped blank lines, shifted indents), "
        "(d) a malformed stream (tabs, CR, FF, NUL, non-ASCII spaces and letters, very deep indentation, very long lines), "
        "(e) adversarial docstrings derived from the regex ASTs of the tree under test: for every unbounded quantifier of every regex the "
        "shortest text reaching it, a run (30..5000) of its body word or of a character of each class in its body, and a suffix on "
        "which the rest fails, placed in every role (item, annotation, description, continuation, doctest line, plain line) of every "
        "reader; run in a child interpreter under a per-case watchdog and narrowed down to one role when they fail, "
        "(g) histories on one Docstring object: 3..7 operations (parse with/without style and options, assignments to value / parser / "
        "parser_options, reads of parsed / lines / source), always ending with a parse, compared with fresh objects and the model; "
        "(f) regex oracle: random words of each regex, damaged words, generator lines -> model matcher vs CPython re; "
        "x parser options: all 2^8/2^3/2^1 combinations on a rotating subset, random combinations elsewhere; x eleven parents "
        "(None, Module, Class.__init__ Function, Function, property Attribute, Function returning None, a visited module with unresolvable and "
        "cyclic alias members, and visited functions/property whose return annotations are real tuple / Generator / Iterator expressions). "
        "non-trivial = the model yields something other than a single text section; distinct by (style, options, parent, text)")
TRUSTED = ["translator front end: CPython's re._parser.parse gives the parse tree that harness/translate/c12_regexes.py transliterates into "
           "the regex AST (every opcode outside the AST is refused)",
           "characters: the model computes the fields of ASCII characters itself (and rejects inconsistent ones); for the others the harness "
           "supplies str.isalnum/isspace/isdecimal/lower and the case-insensitive ASCII letter found with re.IGNORECASE",
           "oracle side of the feature check: harness/props/c12.py:features evaluates the translated patterns and tables with CPython's re/str",
           "reconstruction: expected text/admonition contents are rebuilt from the model's line indices with str.join/rstrip/lstrip"]
ASSUMPTIONS = ["docstrings are built with the Docstring constructor (value = inspect.cleandoc(text.rstrip())); the cleandoc post-condition "
               "is a hypothesis of the Numpy totality theorems and is checked on every generated text",
               "ignore_init_summary on a Class.__init__ docstring drops the first two lines by design; the plain-text theorems state this offset explicitly",
               "the watchdog (2 s in the child, 8 s before it is killed) separates polynomial from exponential matching for subjects up to "
               "5000 characters: the quadratic doctest-flag substitution needs 0.2 s on 8000 blanks"]

# ---------------------------------------------------------------- own copies of the parsers' tables and regexes
KINDS = ["parameters", "other parameters", "raises", "warns", "examples", "attributes", "functions", "classes", "modules",
         "returns", "yields", "receives", "deprecated"]
K = {k: i for i, k in enumerate(KINDS)}
G_SECTION_KIND = {
    "args": "parameters", "arguments": "parameters", "params": "parameters", "parameters": "parameters",
    "keyword args": "other parameters", "keyword arguments": "other parameters", "other args": "other parameters",
    "other arguments": "other parameters", "other params": "other parameters", "other parameters": "other parameters",
    "raises": "raises", "exceptions": "raises", "returns": "returns", "yields": "yields", "receives": "receives",
    "examples": "examples", "attributes": "attributes", "functions": "functions", "methods": "functions",
    "classes": "classes", "modules": "modules", "warns": "warns", "warnings": "warns",
}
N_SECTION_KIND = {
    "deprecated": "deprecated", "args": "parameters", "arguments": "parameters", "params": "parameters", "parameters": "parameters",
    "keyword args": "other parameters", "keyword arguments": "other parameters", "other args": "other parameters",
    "other arguments": "other parameters", "other params": "other parameters", "other parameters": "other parameters",
    "returns": "returns", "yields": "yields", "receives": "receives", "raises": "raises", "exceptions": "raises", "warns": "warns",
    "examples": "examples", "attributes": "attributes", "functions": "functions", "methods": "functions", "classes": "classes",
    "modules": "modules",
}
G_RE_ADMONITION = re.compile(r"^(?P<type>[\w][\s\w-]*):(\s+(?P<title>[^\s].*))?\s*$", re.IGNORECASE)
_N_NAME = r"\*{0,2}[_a-z][_a-z0-9]*"
N_RE_PARAMETER = re.compile(
    rf"(?P<names>{_N_NAME}(?:,\s{_N_NAME})*)(?:\s:\s(?:(?:\{{(?P<choices>.+)\}})|(?P<type>.+))?)?", re.IGNORECASE)
# order of _field_types: first match wins
S_FIELDS = [(1, ("type",)), (2, ("param", "parameter", "arg", "argument", "key", "keyword")), (3, ("vartype",)), (4, ("var", "ivar", "cvar")),
            (5, ("raises", "raise", "except", "exception")), (6, ("returns", "return")), (7, ("rtype",))]
OPTS = {"google": ["ignore_init_summary", "trim_doctest_flags", "returns_multiple_items", "returns_named_value",
                   "returns_type_in_property_summary", "receives_multiple_items", "receives_named_value", "warn_unknown_params"],
        "numpy": ["ignore_init_summary", "trim_doctest_flags", "warn_unknown_params"],
        "sphinx": ["warn_unknown_params"]}
STYLES = ["google", "numpy", "sphinx"]
PARENTS = ["none", "module", "init", "function", "property", "function-none", "module-alias",
           "function-tuple", "generator", "iterator", "property-tuple"]
ALL_SECTION_KINDS = set(KINDS) | {"text", "admonition"}


def features(line: str) -> list[int]:
    blank = not line.strip()
    m = G_RE_ADMONITION.match(line)
    if m is None:
        gadm = 0
    else:
        t = m.group("type").lower()
        gadm = 2 + K[G_SECTION_KIND[t]] if t in G_SECTION_KIND else 1
    low = line.lower()
    nk = 1 + K[N_SECTION_KIND[low]] if low in N_SECTION_KIND else 0
    pm = N_RE_PARAMETER.match(line)
    npn = len(pm.group("names").split(", ")) if pm else 0
    sf = 0
    for code, names in S_FIELDS:
        if any(line.startswith(":" + n) for n in names):
            sf = code
            break
    ls = line.lstrip()
    c1 = ls.find(":")
    if c1 < 0:
        s1, s2 = ls.count(" "), 0
    else:
        c2 = ls.find(":", c1 + 1)
        s1 = ls.count(" ", 0, c1)
        s2 = ls.count(" ", c1 + 1, c2 if c2 >= 0 else len(ls))
    return [int(blank), int(line == ""), len(line) - len(ls), len(line) - len(line.lstrip(" ")),
            int(low.lstrip(" ").startswith("```")), int(":" in line), gadm,
            int((not blank) and not line.replace("-", "").strip()), nk, npn,
            int(line.startswith(":")), sf, min(2, line.count(":")), min(3, s1), min(3, s2)]


# ---------------------------------------------------------------- implementation side
MAX_HANGS = 3


class Watchdog(BaseException):
    pass


def _alarm(signum, frame):
    raise Watchdog()


EXPR_CODE = """
from typing import Generator, Iterator
def t(x: int = 1, *args: str, **kwargs: float) -> tuple[int, str]: ...
def g(x) -> Generator[tuple[int, str], tuple[float, bytes], tuple[int, str]]: ...
def i(x) -> Iterator[tuple[int, str]]: ...
class C:
    @property
    def p(self) -> tuple[int, str]: ...
"""
EXPR_PARENTS = {"function-tuple": "t", "generator": "g", "iterator": "i", "property-tuple": "C.p"}


def make_parent(kind: str):
    import griffe
    from griffe import Attribute, Class, Function, Module, Parameter, Parameters
    if kind == "none":
        return None
    if kind == "module":
        return Module("m")
    if kind == "init":
        f = Function("__init__", parameters=Parameters(
            Parameter("self"), Parameter("x", annotation="int", default="1"),
            Parameter("args", kind=griffe.ParameterKind.var_positional)), returns="Iterator[int]")
        c = Class("C")
        c.set_member("__init__", f)
        return f
    if kind == "function":
        return Function("g", parameters=Parameters(Parameter("x", annotation="int", default="1"), Parameter("y")),
                        returns="tuple[int, str]")
    if kind == "property":
        a = Attribute("p", annotation="int")
        a.labels.add("property")
        return a
    if kind == "function-none":
        return Function("g", returns=None)
    if kind in EXPR_PARENTS:
        # objects whose annotations are real expressions (built by visiting source), so that the parsers' look-ups into
        # tuple / Generator / Iterator return annotations are exercised
        m = griffe.visit("m", filepath=None, code=EXPR_CODE)
        return m[EXPR_PARENTS[kind]]
    if kind == "module-alias":
        # a visited module inside a collection: `np` is an alias nobody can resolve, `cyc`/`cyc2` form a cycle, `x` is a plain attribute
        mc = griffe.ModulesCollection()
        m = griffe.visit("m", filepath=None, code="import numpy as np\nfrom m import cyc2 as cyc\nfrom m import cyc as cyc2\nx: int = 1\n",
                         modules_collection=mc)
        mc["m"] = m
        return m
    raise ValueError(kind)


def snapshot(obj, depth=0):
    """Observable state of a parent object (and what hangs below / above it)."""
    if obj is None:
        return None
    if obj.is_alias:
        return {"alias": obj.name, "target_path": obj.target_path, "resolved": obj.resolved}
    out = {"cls": type(obj).__name__, "name": obj.name, "labels": sorted(obj.labels), "members": {},
           "doc": None if obj.docstring is None else obj.docstring.value}
    for attr in ("annotation", "returns", "value"):
        if hasattr(obj, attr):
            out[attr] = str(getattr(obj, attr))
    if hasattr(obj, "parameters"):
        out["parameters"] = [(p.name, str(p.annotation), str(p.default), str(p.kind)) for p in obj.parameters]
    if depth < 3:
        for n, m in obj.members.items():
            out["members"][n] = snapshot(m, depth + 1)
        if depth == 0 and obj.parent is not None:
            out["parent"] = {"cls": type(obj.parent).__name__, "name": obj.parent.name, "members": sorted(obj.parent.members),
                             "labels": sorted(obj.parent.labels)}
    return out


def shape_problem(sec) -> str | None:
    """Well-formedness of one returned section, evaluated on the real object. None = fine."""
    from griffe import DocstringSection
    if not isinstance(sec, DocstringSection):
        return f"not a DocstringSection: {type(sec).__name__}"
    try:
        d = sec.as_dict()
    except Exception as e:  # noqa: BLE001
        return f"as_dict raised {type(e).__name__}: {e}"
    if not isinstance(d, dict) or "kind" not in d or "value" not in d:
        return f"as_dict shape {d!r:.100}"
    kind = d["kind"]
    if kind not in ALL_SECTION_KINDS or getattr(sec.kind, "value", None) != kind:
        return f"unknown kind {kind!r}"
    if sec.title is not None and not isinstance(sec.title, str):
        return f"title is {type(sec.title).__name__}"
    v = d["value"]
    if kind == "text":
        return None if isinstance(v, str) else f"text value is {type(v).__name__}"
    def elem(x):
        """A DocstringElement (or its dict): description is a string, name (if any) a string."""
        if hasattr(x, "as_dict"):
            try:
                x = x.as_dict()
            except Exception as e:  # noqa: BLE001
                return f"item as_dict raised {type(e).__name__}: {e}"
        if not (isinstance(x, dict) and isinstance(x.get("description"), str)):
            return f"{kind} item {x!r:.100}"
        if "name" in x and not isinstance(x["name"], str):
            return f"{kind} item name {x['name']!r}"
        return None

    if kind in ("admonition", "deprecated"):
        p = elem(v)
        if p or not isinstance(v.get("annotation"), str):
            return p or f"{kind} annotation {v.get('annotation')!r}"
        return None
    if kind == "examples":
        if not (isinstance(v, list) and v and all(isinstance(x, tuple) and len(x) == 2 and getattr(x[0], "value", x[0]) in ("text", "examples")
                                                   and isinstance(x[1], str) for x in v)):
            return f"examples value {v!r:.100}"
        return None
    if not (isinstance(v, list) and v):
        return f"{kind} value is empty or not a list: {v!r:.60}"
    for it in v:
        p = elem(it)
        if p:
            return p
    return None


def canon_section(sec):
    kind = sec.kind.value
    if kind == "text":
        return ["text", sec.value, sec.title]
    if kind == "admonition":
        return ["admonition", sec.title, str(sec.value.annotation), sec.value.description]
    if kind == "deprecated":
        return [kind, 1, sec.title]
    if kind == "examples":
        return [kind, "*", sec.title]
    return [kind, len(sec.value), sec.title]


def canon_items(sec):
    """[name, annotation as str | None, annotation is an expression, description] per item; None for sections without items."""
    kind = sec.kind.value
    if kind in ("text", "admonition"):
        return None
    if kind == "examples":       # sub-sections: (kind, text)
        return [[getattr(k, "value", k), None, False, t] for k, t in sec.value]
    def one(x):
        a = getattr(x, "annotation", None)
        return [getattr(x, "name", "") or "", a if isinstance(a, str) else None, not (a is None or isinstance(a, str)), x.description]
    if kind == "deprecated":
        return [one(sec.value)]
    return [one(x) for x in sec.value]


def parent_annotations(parent):
    """What the field readers can find on the parent: annotated parameter names, member names n with parent[n].annotation
    present, and whether parent.annotation is there."""
    params, attrs = [], []
    if parent is None:
        return [params, attrs, False]
    for prm in getattr(parent, "parameters", None) or []:
        if prm.annotation is not None and prm.name.isascii():
            params.append(prm.name)
    for n in list(getattr(parent, "members", {})):
        try:
            if parent[n].annotation is not None and n.isascii():
                attrs.append(n)
        except Exception:  # noqa: BLE001
            pass
    return [sorted(params), sorted(attrs), getattr(parent, "annotation", None) is not None]


def run_impl(style: str, text: str, opts: dict, parent_kind: str):
    """-> dict(status ok/err/hang, error, canon, problems[direct property failures], lines)."""
    from griffe import Docstring
    parent = make_parent(parent_kind)
    before_parent = snapshot(parent)
    doc = Docstring(text, parent=parent, lineno=3, endlineno=3 + text.count("\n"))
    before = (doc.value, doc.lineno, doc.endlineno, doc.parser, dict(doc.parser_options), sorted(vars(doc)))
    lines = doc.value.split("\n")
    res = {"lines": lines, "problems": [], "canon": None, "status": "ok", "error": None, "where": None, "sections": None,
           "items": None, "pann": parent_annotations(parent)}
    old = signal.signal(signal.SIGALRM, _alarm)
    signal.setitimer(signal.ITIMER_REAL, 2.0)
    try:
        try:
            secs = doc.parse(style, **opts)
        finally:
            signal.setitimer(signal.ITIMER_REAL, 0)
    except Watchdog:
        res["status"], res["error"] = "hang", "no result within 2 s"
        res["problems"].append("does not terminate within 2 s")
        signal.signal(signal.SIGALRM, old)
        return res
    except Exception as e:  # noqa: BLE001
        import traceback
        tb = traceback.extract_tb(e.__traceback__)[-1]
        res["status"], res["error"], res["where"] = "err", type(e).__name__, tb.name
        res["frames"] = [f.name for f in traceback.extract_tb(e.__traceback__)]
        res["problems"].append(f"raises {type(e).__name__}: {e} at {tb.name}:{tb.lineno}")
        signal.signal(signal.SIGALRM, old)
        return res
    signal.signal(signal.SIGALRM, old)
    if not isinstance(secs, list):
        res["problems"].append(f"result is {type(secs).__name__}, not a list")
        return res
    for s in secs:
        p = shape_problem(s)
        if p:
            res["problems"].append("ill-formed section: " + p)
    if not res["problems"]:
        res["canon"] = [canon_section(s) for s in secs]
        res["items"] = [canon_items(s) for s in secs]
    res["sections"] = secs
    after = (doc.value, doc.lineno, doc.endlineno, doc.parser, dict(doc.parser_options), sorted(vars(doc)))
    if after != before:
        res["problems"].append(f"docstring modified: {before!r:.80} -> {after!r:.80}")
    if doc.parent is not parent or snapshot(parent) != before_parent:
        res["problems"].append("parent modified")
    return res


# ---------------------------------------------------------------- plain text (harness's own reading of "no section syntax")
def is_plain(style: str, lines: list[str], opts: dict, parent_kind: str) -> bool:
    if style == "google":
        if any(G_RE_ADMONITION.match(l) for l in lines):
            return False
        if opts.get("returns_type_in_property_summary") and parent_kind in ("property", "property-tuple"):
            first = next((l for l in lines if l.strip()), "")
            return ":" not in first
        return True
    if style == "numpy":
        return not any(l.strip() and not l.replace("-", "").strip() for l in lines)
    return not any(l.startswith(":") for l in lines)


def norm_text(s: str) -> str:
    """whitespace on otherwise blank lines aside"""
    return "\n".join("" if not l.strip() else l for l in s.split("\n")).strip("\n")


def plain_expectation(style, lines, opts, parent_kind):
    start = 2 if (style != "sphinx" and opts.get("ignore_init_summary") and parent_kind == "init") else 0
    if len(lines) <= start:
        return None          # nothing left to return: no section
    return norm_text("\n".join(lines[start:]))


# ---------------------------------------------------------------- model side
_CH = {}


def ch_record(c: str):
    """One non-ASCII character for the model: code point, \\w, \\s, \\d, case-insensitive ASCII letter, lower()."""
    r = _CH.get(c)
    if r is None:
        o = ord(c)
        if o < 128:
            r = o
        else:
            ci = 0
            for letter in "abcdefghijklmnopqrstuvwxyz":
                if re.fullmatch(letter, c, re.IGNORECASE):
                    ci = ord(letter)
                    break
            r = [o, int(c.isalnum() or c == "_"), int(c.isspace()), int(c.isdecimal()), ci, [ord(x) for x in c.lower()]]
        _CH[c] = r
    return r


def enc_line(line: str):
    return line if line.isascii() else [ch_record(c) for c in line]


def dec_text(v) -> str:
    return v if isinstance(v, str) else "".join(chr(x) for x in v)


def model_input(style, opts, parent_kind, lines, pann=None):
    o = [int(bool(opts.get(k, d))) for k, d in zip(OPTS["google"], (0, 1, 1, 1, 0, 1, 1, 1))]
    return [style, o, [int(parent_kind == "init"), int(parent_kind in ("property", "property-tuple"))],
            pann or [[], [], 0], [enc_line(l) for l in lines]]


def split_model_output(raw):
    """-> (old-style [status, flags, sections|error], features, details, extra)"""
    if isinstance(raw, list) and raw and raw[0] == "ok" and len(raw) == 6:
        return ["ok", raw[1], raw[3]], raw[2], raw[4], raw[5]
    if isinstance(raw, list) and raw and raw[0] == "err" and len(raw) == 4:
        return ["err", raw[1], raw[3]], raw[2], None, None
    return raw, None, None, None


NOT_COMPILED = {("google", "functions"), ("google", "classes"), ("google", "warns"), ("numpy", "functions"), ("numpy", "classes"),
                ("numpy", "modules"), ("numpy", "deprecated")}      # annotations that never go through parse_docstring_annotation


def compiles(src: str) -> bool:
    import ast
    try:
        compile(src, "", "eval", flags=ast.PyCF_ONLY_AST, dont_inherit=True, optimize=2)
    except Exception:  # noqa: BLE001
        return False
    return True


def items_disagreement(style, kind, model_items, impl_items):
    """Model items [name, (annotation)|(), (description)|()] vs implementation items [name, annotation str|None, is_expr, description]."""
    if len(model_items) != len(impl_items):
        return f"{len(model_items)} items in the model, {len(impl_items)} in the implementation"
    for k, (mi, ii) in enumerate(zip(model_items, impl_items)):
        name = dec_text(mi[0])
        if kind not in ("raises", "warns", "deprecated") and name != ii[0]:
            return f"item {k}: name {name!r} (model) vs {ii[0]!r}"
        if mi[2]:
            d = dec_text(mi[2][0])
            if d != ii[3]:
                return f"item {k}: description {d!r:.120} (model) vs {ii[3]!r:.120}"
        if mi[1] and not ii[2]:
            a = dec_text(mi[1][0])
            if ii[1] is not None and a != ii[1] and ((style, kind) in NOT_COMPILED or not compiles(a)):
                # a source that compiles may come back rendered by the expression builder ("2 " -> "2"); that is outside the model
                return f"item {k}: annotation source {a!r:.80} (model) vs {ii[1]!r:.80}"
            if ii[1] is None and not (style == "google" and kind in ("returns", "yields", "receives")):
                return f"item {k}: annotation source {a!r:.80} in the model, none in the implementation"
    return None


def sphinx_disagreement(extra, canon, items):
    """The Sphinx model's parameters / attributes / return / exceptions vs the sections returned
    (canon: [kind, ...] per section; items: [name, annotation str|None, is_expr, description] per item)."""
    params, attrs, ret, excs = extra
    by_kind = {c[0]: it for c, it in zip(canon, items)}

    def ann_ok(ma, g):
        if ma[0] == "str":
            return g[1] == dec_text(ma[1]) and not g[2]
        return (g[1] is not None or g[2]) if ma[0] == "parent" else (g[1] is None and not g[2])

    for kind, mitems in (("parameters", params), ("attributes", attrs)):
        got = by_kind.get(kind) or []
        if len(got) != len(mitems):
            return f"{kind}: {len(mitems)} in the model, {len(got)} in the implementation"
        for m, g in zip(mitems, got):
            if dec_text(m[0]) != g[0] or dec_text(m[2]) != g[3] or not ann_ok(m[1], g):
                return f"{kind}: model {dec_text(m[0])!r} {m[1]} {dec_text(m[2])!r:.60} vs {g}"
    got = by_kind.get("returns") or []
    if bool(ret) != bool(got):
        return f"returns: model {ret} vs {len(got)} items"
    if ret and (dec_text(ret[0][1]) != got[0][3] or not ann_ok(ret[0][0], got[0])):
        return f"returns: model {ret[0][0]} {dec_text(ret[0][1])!r:.60} vs {got[0]}"
    got = by_kind.get("raises") or []
    if len(got) != len(excs):
        return f"raises: {len(excs)} in the model, {len(got)} in the implementation"
    for m, g in zip(excs, got):
        if dec_text(m[0]) != g[1] or dec_text(m[1]) != g[3]:
            return f"raises: model {dec_text(m[0])!r} {dec_text(m[1])!r:.60} vs {g}"
    return None


def expected_from_model(style, lines, secs):
    """Model sections -> the canonical form of canon_section, rebuilt from line indices."""
    out = []
    for s in secs:
        tag = s[0]
        if tag == "text":
            v = "\n".join("" if b else lines[i] for i, b in s[1]).rstrip("\n")
            if s[2]:
                parts = v.lstrip().split("\n")
                _, rest = parts[0].split(":", 1)
                v = "\n".join([rest.lstrip(), *parts[1:]])
            out.append(["text", v, None])
        elif tag == "admonition":
            h, f, la, ind = s[1:]
            m = G_RE_ADMONITION.match(lines[h])
            title = m.group("title") if m.group("title") is not None else m.group("type")
            body = "\n".join([lines[f].lstrip()] + [x[ind:] for x in lines[f + 1:la + 1]]).rstrip("\n")
            out.append(["admonition", title, m.group("type").lower().replace(" ", "-"), body])
        elif tag == "nadmonition":
            title = lines[s[1]]
            kind = title.lower().replace(" ", "-")
            if kind in ("warnings", "notes"):
                kind = kind[:-1]
            out.append(["admonition", title, kind, "\n".join("" if b else lines[i] for i, b in s[2]).rstrip("\n")])
        else:
            title = None
            appended = style == "google" and s is secs[-1] and secs[0][0] == "text" and secs[0][2]   # property-summary Returns
            if style == "google" and not appended:
                m = G_RE_ADMONITION.match(lines[s[1]])
                title = m.group("title") if m else None
            out.append([tag, "*" if tag == "examples" else s[2], title])
    return out


def sections_agree(style, exp, got) -> bool:
    if len(exp) != len(got):
        return False
    for e, g in zip(exp, got):
        if style == "sphinx" and e[0] in ("parameters", "attributes") and g[0] == e[0]:
            if not (1 <= g[1] <= e[1]) or g[2] is not None:     # duplicate names are dropped: model count is an upper bound
                return False
        elif e != g:
            return False
    return True


# ---------------------------------------------------------------- evaluation of a batch of cases
def evaluate(ctx, cases, stream, runner=None, model_max_len=None):
    """cases: list of (style, text, opts, parent_kind).  Returns the cases on which the implementation hung or raised."""
    if ctx.stats["hangs"] >= MAX_HANGS:
        return []       # the non-termination is already reported; every further case would cost the watchdog delay
    runner = runner or run_impl
    impl = []
    bad = []
    t_start = time.time()
    for c in cases:
        r = runner(*c)
        impl.append(r)
        if r["status"] != "ok":
            bad.append(c)
        if r["status"] == "hang":
            ctx.count("hangs")
            if ctx.stats["hangs"] >= MAX_HANGS:
                cases = cases[:len(impl)]
                break
    # a case without result has no lines to give to the model: the direct evaluation below reports it
    with_model = [i for i, r in enumerate(impl) if r["lines"] and ctx.driver is not None
                  and (model_max_len is None or max(len(l) for l in r["lines"]) <= model_max_len)]
    t_impl = time.time()
    mouts = ctx.model([model_input(cases[i][0], cases[i][2], cases[i][3], impl[i]["lines"], impl[i].get("pann")) for i in with_model])
    ctx.stats[f"seconds_impl:{stream}"] = round(ctx.stats[f"seconds_impl:{stream}"] + t_impl - t_start, 2)
    ctx.stats[f"seconds_model:{stream}"] = round(ctx.stats[f"seconds_model:{stream}"] + time.time() - t_impl, 2)
    outs = [None] * len(impl)
    for i, mo in zip(with_model, mouts):
        outs[i] = mo
    for (style, text, opts, pk), r, raw in zip(cases, impl, outs):
        lines = r["lines"]
        case = {"style": style, "text": text, "options": opts, "parent": pk}
        mo, feats, details, extra = split_model_output(raw)
        if mo == ["regex-outside-criterion"]:
            if not ctx.stats["model_refused"]:
                ctx.tie_failure("correspondence", "the model refuses to run: a regex of the parsers is outside the criterion "
                                "(Model/C12_run.v:regexes_ok)", {}, case)
            ctx.count("model_refused")
            mo = None
        if mo is None:
            ctx.case(case, False)
            ctx.observe("stream", stream)
            ctx.observe("impl_status", r["status"] if r["status"] == "ok" else f"{r['status']}:{r['error']}")
            ctx.count("cases")
            ctx.count("cases_direct_only")
            for p in r["problems"]:
                ctx.property_failure(case, {"problem": p, "lines": [l[:200] for l in lines[:14]]})
            if r["status"] == "ok" and r["canon"] is not None and is_plain(style, lines, opts, pk):
                ctx.count("plain_cases")
                want = plain_expectation(style, lines, opts, pk)
                got = r["canon"]
                good = (got == [] if want is None else (len(got) == 1 and got[0][0] == "text" and norm_text(got[0][1]) == want))
                if not good:
                    ctx.property_failure(case, {"problem": "plain text does not come back as a single text section",
                                                "sections": [str(x)[:200] for x in got[:4]]})
            continue
        ok_model = isinstance(mo, list) and len(mo) == 3 and mo[0] in ("ok", "err")
        nontrivial = ok_model and not (mo[0] == "ok" and len(mo[2]) == 1 and mo[2][0][0] == "text")
        ctx.case(case, nontrivial)
        ctx.observe("stream", stream)
        ctx.observe("style", style)
        ctx.observe("parent", pk)
        ctx.observe("n_lines", min(len(lines), 20))
        ctx.observe("impl_status", r["status"] if r["status"] == "ok" else f"{r['status']}:{r['error']}")
        ctx.count("cases")
        # (O) cleandoc post-condition of Docstring.__init__
        post_py = bool(lines) and all("\n" not in l for l in lines) and (lines == [""] or bool(lines[-1].strip()))
        if not post_py:
            ctx.tie_failure("oracle", "cleandoc post-condition of Docstring.value", {"lines_tail": lines[-2:]}, case)
        if not ok_model:
            ctx.tie_failure("correspondence", f"{style}: model rejected its input", {"model": mo}, case)
            continue
        post_m, wf_m = (bool(x) for x in mo[1])
        if post_m != post_py:
            ctx.tie_failure("oracle", "cleandoc_post(model) vs harness evaluation on Docstring.lines", {"model": post_m, "python": post_py}, case)
        if not wf_m:
            ctx.tie_failure("oracle", "lines_wf(model): the feature extractor produced a null line that is not blank", {"lines": lines[:6]}, case)
        # (O) the line features computed inside the model (model matcher on the regenerated regex ASTs and keyword tables,
        # Coq string functions) vs this harness's evaluation with CPython's re and str methods
        want_feats = [features(l) for l in lines]
        if feats != want_feats:
            k = next((i for i, (a, b) in enumerate(zip(feats, want_feats)) if a != b), None)
            ctx.tie_failure("oracle", "line features: model (Coq matcher / string functions) vs CPython re / str",
                            {"line": None if k is None else lines[k][:200], "model": None if k is None else feats[k],
                             "python": None if k is None else want_feats[k]}, case)
        # (C) model vs implementation
        if mo[0] == "err":
            ctx.observe("model_result", f"{style}:err:{mo[2]}")
            if not (r["status"] == "err" and r["error"] == mo[2]):
                ctx.tie_failure("correspondence", f"{style}: model raises {mo[2]}", {"impl": r["status"], "error": r["error"]}, case)
        else:
            for s in mo[2]:
                ctx.observe("model_section", f"{style}:{s[0]}")
                if s[0] not in ("text", "admonition", "nadmonition"):
                    ctx.observe("model_items", min(s[2], 6))
                if s[0] == "text" and s[2]:
                    ctx.observe("model_branch", "property-summary-split")
            ctx.observe("model_n_sections", min(len(mo[2]), 8))
            if r["status"] == "ok" and r["canon"] is not None:
                exp = expected_from_model(style, lines, mo[2])
                if not sections_agree(style, exp, r["canon"]):
                    ctx.tie_failure("correspondence", f"{style}: sections(model) vs Docstring.parse",
                                    {"model": exp, "impl": r["canon"]}, case)
                elif style == "sphinx":
                    d = sphinx_disagreement(extra, r["canon"], r["items"])
                    ctx.observe("item_check", "sphinx:" + ("differs" if d else "agrees"))
                    if d:
                        ctx.tie_failure("correspondence", "sphinx: field values (model) vs Docstring.parse", {"difference": d}, case)
                else:
                    for c, its, dets in zip(r["canon"], r["items"], details):
                        if its is None:
                            continue
                        d = items_disagreement(style, c[0], dets, its)
                        ctx.observe("item_check", f"{style}:{c[0]}:" + ("differs" if d else "agrees"))
                        ctx.observe("item_annotation", "expr" if any(i[2] for i in its) else "str/none")
                        if d:
                            ctx.tie_failure("correspondence", f"{style}: {c[0]} items (model) vs Docstring.parse",
                                            {"difference": d, "model": [[dec_text(x[0]), [dec_text(y) for y in x[1]], [dec_text(y) for y in x[2]]] for x in dets][:6],
                                             "impl": its[:6]}, case)
                            break
            elif r["status"] != "ok":
                ctx.tie_failure("correspondence", f"{style}: model returns sections, implementation {r['status']} {r['error']}",
                                {"model": mo[2]}, case)
        # direct evaluation of the property on the implementation
        for p in r["problems"]:
            ctx.property_failure(case, {"problem": p, "lines": [l[:200] for l in lines[:14]]})
        if r["status"] == "ok" and r["canon"] is not None and is_plain(style, lines, opts, pk):
            ctx.count("plain_cases")
            want = plain_expectation(style, lines, opts, pk)
            got = r["canon"]
            good = (got == [] if want is None else (len(got) == 1 and got[0][0] == "text" and norm_text(got[0][1]) == want))
            if not good:
                ctx.property_failure(case, {"problem": "plain text does not come back as a single text section", "sections": got[:4],
                                            "expected_text": want})
    return bad


# ---------------------------------------------------------------- (T) translator
EX = None          # harness.translate.c12_regexes.Extract of the tree under test; None when the translator failed closed
TRANSLATOR_NAME = "harness/translate/c12_regexes.py"


def translate(ctx):
    """Regenerate coq/Gen/C12_regexes.v (every regex of the parsers as an AST) and coq/Gen/C12_tables.v (keyword tables)."""
    global EX, G_SECTION_KIND, N_SECTION_KIND, G_RE_ADMONITION, N_RE_PARAMETER, S_FIELDS
    from harness.translate import c12_regexes
    EX = None
    EX = c12_regexes.translate(ctx)
    from harness.translate import c12_guards
    ctx.stats["guard_sites"] = len(c12_guards.translate(ctx))      # coq/Gen/C12_guards.v: look-ups on the parent and what is caught
    # from here on the harness's own feature extractor evaluates the regexes and tables of the tree under test with CPython's
    # re and str (the copies at the top of this file are only the fallback for a translator that failed closed)
    G_SECTION_KIND = dict(EX.section_kind["google"])
    N_SECTION_KIND = dict(EX.section_kind["numpy"])
    G_RE_ADMONITION = EX.regexes["google._RE_ADMONITION"].compiled()
    N_RE_PARAMETER = EX.regexes["numpy._RE_PARAMETER"].compiled()
    order = ["FPType", "FParam", "FAType", "FAttr", "FExc", "FRet", "FRType"]
    S_FIELDS = [(order.index(c) + 1, tuple(names)) for c, names in EX.sphinx_fields]


# ---------------------------------------------------------------- implementation in a subprocess (per-case watchdog)
WORKER_CODE = "import sys; sys.path.insert(0, %r); from harness.props import c12; c12.worker_main()"
WORKER_LIMIT = 8.0     # seconds per case before the child is killed; its own 2 s alarm normally answers first


def worker_main():
    logging.getLogger("griffe").setLevel(logging.CRITICAL)
    logging.getLogger("_griffe").setLevel(logging.CRITICAL)
    for line in sys.stdin:
        c = json.loads(line)
        r = run_impl(c["style"], c["text"], c["options"], c["parent"])
        r.pop("sections", None)
        sys.stdout.write(json.dumps(r) + "\n")
        sys.stdout.flush()


class Worker:
    """Runs run_impl in a child interpreter; a case that does not answer within WORKER_LIMIT gets the child killed."""

    def __init__(self):
        self.p = None
        self.killed = 0

    def start(self):
        from harness.common import framework
        env = dict(os.environ, PYTHONPATH=f"{framework.REPO}/src:{framework.VERIF}", PYTHONHASHSEED="0")
        self.p = subprocess.Popen([sys.executable, "-c", WORKER_CODE % str(framework.VERIF)], stdin=subprocess.PIPE,
                                  stdout=subprocess.PIPE, stderr=subprocess.DEVNULL, env=env, text=True, bufsize=1)

    def stop(self):
        if self.p is not None:
            try:
                self.p.kill()
                self.p.wait(timeout=5)
            except Exception:  # noqa: BLE001
                pass
            self.p = None

    def __call__(self, style, text, opts, pk):
        if self.p is None or self.p.poll() is not None:
            self.start()
        dead = {"lines": [], "problems": [], "canon": None, "status": "ok", "error": None, "where": None, "sections": None}
        try:
            self.p.stdin.write(json.dumps({"style": style, "text": text, "options": opts, "parent": pk}) + "\n")
            self.p.stdin.flush()
            ready, _, _ = select.select([self.p.stdout], [], [], WORKER_LIMIT)
        except (BrokenPipeError, OSError):
            ready = [1]
        if not ready:
            self.stop()
            self.killed += 1
            dead.update(status="hang", error=f"no result within {WORKER_LIMIT} s (child interpreter killed)",
                        problems=[f"does not terminate within {WORKER_LIMIT} s"])
            return dead
        line = ""
        try:
            line = self.p.stdout.readline()
        except Exception:  # noqa: BLE001
            pass
        if not line:
            rc = self.p.poll()
            self.stop()
            dead.update(status="err", error="InterpreterDied", problems=[f"the interpreter died while parsing (exit status {rc})"])
            return dead
        r = json.loads(line)
        r["sections"] = None
        return r


# ---------------------------------------------------------------- adversarial inputs derived from the regex ASTs
ADV_CANDIDATES = "xa 0_-:,()*#<>=!.\t{}[]'\"`~"


def _cls_match_py(c, ch, ic):
    if c == ("any",):
        return ch != "\n"
    _, neg, items = c
    r = False
    for it in items:
        if it[0] == "lit":
            r |= ord(ch) == it[1] or (ic and ch.isascii() and ch.isalpha() and it[1] in (ord(ch.lower()), ord(ch.upper())))
        elif it[0] == "range":
            r |= any(it[1] <= ord(x) <= it[2] for x in ({ch, ch.lower(), ch.upper()} if ic and ch.isascii() else {ch}))
        else:
            v = {"word": ch.isalnum() or ch == "_", "space": ch.isspace(), "digit": ch.isdecimal()}[it[1]]
            r |= v != it[2]
    return r != neg


def _reps(c, ic, k):
    """up to k characters of the class: its own literals first, then the stock candidates"""
    own = ""
    if c != ("any",) and not c[1]:
        own = "".join(chr(it[1]) for it in c[2] if it[0] in ("lit", "range") and it[1] < 128)
    out = []
    for ch in own + ADV_CANDIDATES:
        if ch not in out and _cls_match_py(c, ch, ic):
            out.append(ch)
    return out[:k]


def _min_word(t, ic):
    tag = t[0]
    if tag == "chr":
        r = _reps(t[1], ic, 1)
        return r[0] if r else "\x01"
    if tag == "seq":
        return _min_word(t[1], ic) + _min_word(t[2], ic)
    if tag == "alt":
        return _min_word(t[1], ic)
    if tag == "grp":
        return _min_word(t[2], ic)
    return ""


def _classes(t):
    tag = t[0]
    if tag == "chr":
        return [t[1]]
    if tag in ("seq", "alt"):
        return _classes(t[1]) + _classes(t[2])
    if tag in ("opt", "star", "grp"):
        return _classes(t[2])
    return []


def _quantifiers(t, ic, pre=""):
    """(shortest text that leads the matcher to the quantifier, its body) for every unbounded quantifier, outermost first"""
    tag = t[0]
    if tag == "seq":
        yield from _quantifiers(t[1], ic, pre)
        yield from _quantifiers(t[2], ic, pre + _min_word(t[1], ic))
    elif tag == "alt":
        yield from _quantifiers(t[1], ic, pre)
        yield from _quantifiers(t[2], ic, pre)
    elif tag in ("opt", "grp"):
        yield from _quantifiers(t[2], ic, pre)
    elif tag == "star":
        yield pre, t[2]
        yield from _quantifiers(t[2], ic, pre)


def adversarial_lines(rx, lengths):
    """For every unbounded quantifier of the regex: the text that reaches it, then a long run of (a) the shortest word of its
    body, (b) one or two characters of every class in its body, then a suffix on which what follows the quantifier fails:
    nothing, one character of each class of the regex, a character outside all of them; with and without further text."""
    ic = rx.ic
    sufs = [""]
    for c in _classes(rx.tree):
        for ch in _reps(c, ic, 1):
            if ch not in sufs:
                sufs.append(ch)
    sufs = sufs[:7] + ["\x01"]
    out = []
    seen = set()
    for pre, body in _quantifiers(rx.tree, ic):
        pumps = []
        w = _min_word(body, ic)
        if w:
            pumps.append(w)
        for c in _classes(body):
            for ch in _reps(c, ic, 2):
                if ch not in pumps:
                    pumps.append(ch)
        for pump in pumps[:3]:
            for n in lengths:
                for suf in sufs:
                    for tail in ("", " tail"):
                        # inspect.cleandoc expands a tab to up to 8 spaces before the parsers see the text
                        s = pre + pump * (max(1, n // 8) if "\t" in pump else n) + suf + tail
                        if s not in seen:
                            seen.add(s)
                            out.append(s)
    return out


def generic_adversarial_lines(lengths):
    """Not derived from the ASTs (so still there when the translator fails closed): runs of one character after a short opening."""
    out = []
    for pre in ("", "(", "x (", "x: ", "x : ", ":", "# doctest: "):
        for ch in "x ,:(-\t*":
            for n in lengths:
                for suf in ("", ")", ":", "!"):
                    out.append(pre + ch * (max(1, n // 8) if ch == "\t" else n) + suf)
    return out


ADV_CONTEXTS = {
    "google": {
        "item": "Summary.\n\n{H}:\n    {L}\n",
        "description": "Summary.\n\n{H}:\n    x: {L}\n",
        "annotation": "Summary.\n\n{H}:\n    x ({L}): d\n",
        "continuation": "Summary.\n\n{H}:\n    x: d\n        {L}\n",
        "doctest": "Summary.\n\nExamples:\n    >>> {L}\n    {L}\n",
        "line": "Summary.\n\n{L}\n",
    },
    "numpy": {
        "item": "Summary.\n\n{H}\n---\n{L}\n    d\n",
        "annotation": "Summary.\n\n{H}\n---\nx : {L}\n    d\n",
        "description": "Summary.\n\n{H}\n---\nx\n    {L}\n",
        "doctest": "Summary.\n\nExamples\n---\n>>> {L}\n{L}\n",
        "line": "Summary.\n\n{L}\n",
    },
    "sphinx": {
        "name": "Summary.\n\n:param {L}: d\n",
        "value": "Summary.\n\n:param x: {L}\n:type x: {L}\n",
        "line": "Summary.\n\n{L}\n",
    },
}
ADV_HEADERS = {"google": ["Args", "Returns", "Yields", "Receives", "Raises", "Attributes", "Functions"],
               "numpy": ["Parameters", "Returns", "Yields", "Receives", "Raises", "Attributes", "Functions", "Deprecated"],
               "sphinx": [""]}


def adversarial_docstrings(style, line):
    """(one docstring with the line in every role, the single-role docstrings used to narrow a failure down)"""
    singles = []
    for role, tpl in ADV_CONTEXTS[style].items():
        if len(line) > 200 and role in ("description", "continuation", "value"):
            continue        # roles no regex is applied to: short lines only
        # every reader sees the line as an item; the other roles are read by the same code whatever the section
        heads = [""] if "{H}" not in tpl else ADV_HEADERS[style] if role == "item" else ADV_HEADERS[style][:2]
        for h in heads:
            singles.append((f"{role}/{h}" if h else role, tpl.replace("{H}", h).replace("{L}", line)))
    combined = "Summary.\n\n" + "\n".join(d.split("\n\n", 1)[1] for _, d in singles)
    return combined, singles


def adversarial_stream(ctx):
    """Per regex of the parsers (and a generic set): long runs in front of failing suffixes, every docstring parsed in a child
    interpreter under a per-case watchdog.  A docstring that hangs or crashes is narrowed down to one role and reported."""
    lengths = [30, 1000] if ctx.quick else [30, 300, 5000]
    per_style = {st: [] for st in STYLES}
    if EX is not None:
        seen = set()
        for key, rx in EX.regexes.items():
            st = key.split(".")[0]
            st = st if st in STYLES else None
            if (st, rx.pattern) in seen:
                continue
            seen.add((st, rx.pattern))
            ls = adversarial_lines(rx, lengths)
            ctx.observe("adversarial_lines_per_regex", key, len(ls))
            for target in ([st] if st else STYLES):
                per_style[target] += ls
    else:
        ctx.notes.append("adversarial stream: translator failed, generic lines only")
    gen = generic_adversarial_lines(lengths)
    for st in STYLES:
        per_style[st] += gen
    worker = Worker()
    try:
        for st in STYLES:
            lines = list(dict.fromkeys(per_style[st]))
            cases = []
            for i, line in enumerate(lines):
                combined, _ = adversarial_docstrings(st, line)
                opts = {} if i % 3 else random_opts(ctx.rng, st)
                cases.append((st, combined, opts, PARENTS[i % len(PARENTS)]))
            for b in batches(cases, 400):
                bad = evaluate(ctx, b, "adversarial", runner=worker, model_max_len=400)
                for (style, text, opts, pk) in bad[:2]:
                    # narrow down: which single role of which line
                    line = lines[cases.index((style, text, opts, pk))]
                    _, singles = adversarial_docstrings(style, line)
                    for role, doc in sorted(singles, key=lambda x: len(x[1])):
                        if ctx.stats["hangs"] >= MAX_HANGS + 4:
                            break
                        r = worker(style, doc, opts, pk)
                        ctx.observe("adversarial_narrowing", role + ":" + r["status"])
                        if r["problems"]:
                            if r["status"] == "hang":
                                ctx.count("hangs")
                            ctx.property_failure({"style": style, "text": doc, "options": opts, "parent": pk},
                                                 {"problem": r["problems"][0], "role": role, "line_length": len(line)})
                            break
                if ctx.stats["hangs"] >= MAX_HANGS:
                    return
    finally:
        worker.stop()
        ctx.count("worker_killed", worker.killed)
        ctx.count("adversarial_done")


# ---------------------------------------------------------------- (O) the model matcher vs CPython's re
def sample_word(t, ic, rng):
    """A random word of the regex (alternatives, optional parts and repetition counts drawn at random)."""
    tag = t[0]
    if tag == "chr":
        r = _reps(t[1], ic, 6)
        return rng.choice(r) if r else "\x01"
    if tag == "seq":
        return sample_word(t[1], ic, rng) + sample_word(t[2], ic, rng)
    if tag == "alt":
        return sample_word(t[1 + (rng.random() < 0.5)], ic, rng)
    if tag == "opt":
        return sample_word(t[2], ic, rng) if rng.random() < 0.6 else ""
    if tag == "star":
        return "".join(sample_word(t[2], ic, rng) for _ in range(rng.choice([0, 1, 1, 2, 3, 5])))
    if tag == "grp":
        return sample_word(t[2], ic, rng)
    return ""


def regex_oracle(ctx):
    """Every regex of the parsers (AST regenerated from the source, run by the model matcher) against the same pattern compiled
    by CPython's re, on lines drawn from the generators: match / no match, end position, span of every group; and the result
    of sub("", line) for the patterns used that way."""
    if EX is None or ctx.driver is None:
        return
    rng = ctx.rng
    pool = set()
    for _ in range(ctx.budget(260, 2000)):
        style = rng.choice(STYLES)
        text = gen_structured(rng, style) if rng.random() < 0.5 else gen_frags(rng) if rng.random() < 0.5 else gen_malformed(rng, style)
        for l in text.split("\n"):
            if len(l) <= 300:
                pool.add(l)
                pool.add(l.strip())
                if ":" in l:
                    pool.add(l.split(":", 1)[1].strip())
    for key, rx in EX.regexes.items():
        pool.update(adversarial_lines(rx, [12])[:60])
        for _ in range(ctx.budget(60, 400)):       # words of the regex, whole and damaged, alone and inside other text
            w = sample_word(rx.tree, rx.ic, rng)
            pool.add(w)
            if w:
                i = rng.randrange(len(w))
                pool.add(w[:i] + w[i + 1:])
                pool.add(w[:i] + rng.choice(ADV_CANDIDATES) + w[i:])
                pool.add(rng.choice([">>> f()", "x", "  "]) + w)
                pool.add(w.upper() if rng.random() < 0.5 else w.swapcase())
    pool = sorted(pool)
    reqs, meta = [], []
    for key, rx in EX.regexes.items():
        pat = rx.compiled()
        for l in pool:
            reqs.append(["rx", key, enc_line(l)])
            meta.append(("rx", key, l, pat, rx))
            if "USub" in rx.uses:
                reqs.append(["sub", key, enc_line(l)])
                meta.append(("sub", key, l, pat, rx))
    outs = ctx.model(reqs)
    ctx.count("regex_oracle_cases", len(reqs))
    bad = 0
    for (kind, key, l, pat, rx), o in zip(meta, outs):
        if o == ["regex-outside-criterion"]:
            ctx.count("model_refused")
            continue
        if kind == "rx":
            mt = pat.match(l)
            want = ["none"] if mt is None else ["match", mt.end(), [[i, mt.start(i), mt.end(i)] for i in range(1, rx.ngroups + 1) if mt.start(i) >= 0]]
            ctx.observe("regex_oracle", f"{key}:{want[0]}")
            ok = o == want
        else:
            want = pat.sub("", l)
            ctx.observe("regex_oracle", f"{key}:sub:{'changed' if want != l else 'same'}")
            ok = isinstance(o, (str, list)) and o != ["bad-input"] and dec_text(o) == want
        if not ok:
            bad += 1
            if bad <= 5:
                ctx.tie_failure("oracle", f"model matcher vs CPython re on {key} ({kind})", {"line": l, "model": o, "python": want})


# ---------------------------------------------------------------- histories on ONE Docstring object
DEFAULT_OPTS = dict(zip(OPTS["google"], (False, True, True, True, False, True, True, True)))
PUBLIC_ATTRS = {"value", "lineno", "endlineno", "parent", "parser", "parser_options"}


def gen_history(rng):
    """initial docstring + 3..7 operations: parse(style?, **options?), value / parser / parser_options assignments, reads of
    parsed / lines / source; always ends with a parse"""
    def text():
        st = rng.choice(STYLES)
        r = rng.random()
        return gen_structured(rng, st) if r < 0.6 else gen_frags(rng) if r < 0.8 else rng.choice(["plain words", "", "Just prose.\nMore prose."])

    def opts():
        return {k: rng.random() < 0.5 for k in OPTS["google"]}

    def style(none=0.3):
        return None if rng.random() < none else rng.choice(STYLES)

    ops = []
    for _ in range(rng.randint(2, 6)):
        r = rng.random()
        if r < 0.35:
            ops.append(["parse", style(), opts() if rng.random() < 0.4 else None])
        elif r < 0.65:
            ops.append(["setvalue", text()])
        elif r < 0.75:
            ops.append(["setparser", style(0.2)])
        elif r < 0.85:
            ops.append(["setopts", opts()])
        elif r < 0.92:
            ops.append(["parsed"])
        elif r < 0.97:
            ops.append(["lines"])
        else:
            ops.append(["source"])
    ops.append(["parse", style(0.15) if rng.random() < 0.8 else None, opts() if rng.random() < 0.3 else None])
    return {"parent": rng.choice(PARENTS), "text": text(), "parser": style(0.25), "options": opts() if rng.random() < 0.5 else None, "ops": ops}


def model_vs_impl(style, lines, pres, canon, items):
    """One parse observation of the model (history entry) vs the implementation's sections.  None = agree."""
    if pres[0] == "plain":
        want = [["text", "\n".join(lines), None]]
        return None if canon == want else f"no parser: {canon!r:.120} instead of the value as one text section"
    mo, _feats, details, extra = split_model_output(pres[1])
    if not (isinstance(mo, list) and mo and mo[0] == "ok"):
        return f"model result {mo!r:.100}"
    exp = expected_from_model(style, lines, mo[2])
    if not sections_agree(style, exp, canon):
        return f"sections: model {exp!r:.200} vs {canon!r:.200}"
    if style == "sphinx":
        return sphinx_disagreement(extra, canon, items)
    for c, its, dets in zip(canon, items, details):
        if its is not None:
            d = items_disagreement(style, c[0], dets, its)
            if d:
                return f"{c[0]} items: {d}"
    return None


def run_history(h):
    """Execute the history on one Docstring; every parse is compared with a FRESH docstring carrying the current attributes.
    -> (problems, observations for the model comparison, parent annotations)"""
    import inspect
    from griffe import Docstring
    pk = h["parent"]
    n_lines = h["text"].count("\n")
    doc = Docstring(h["text"], parent=make_parent(pk), lineno=3, endlineno=3 + n_lines, parser=h["parser"],
                    parser_options=dict(h["options"]) if h["options"] else None)
    cur = {"value": doc.value, "parser": h["parser"], "options": dict(h["options"]) if h["options"] else {}}
    problems, observed = [], []
    pann = parent_annotations(doc.parent)
    first_parsed = None

    def fresh():
        f = Docstring("", parent=make_parent(pk), lineno=3, endlineno=3 + n_lines, parser=cur["parser"],
                      parser_options=dict(cur["options"]) if cur["options"] else None)
        f.value = cur["value"]
        return f

    def canon_of(secs):
        for sec in secs:
            p = shape_problem(sec)
            if p:
                return None, None, "ill-formed section: " + p
        return [canon_section(x) for x in secs], [canon_items(x) for x in secs], None

    old = signal.signal(signal.SIGALRM, _alarm)
    signal.setitimer(signal.ITIMER_REAL, 6.0)
    try:
        for k, op in enumerate(h["ops"]):
            tag = op[0]
            if tag == "parse":
                kw = dict(op[2]) if op[2] else {}
                got, items, p = canon_of(doc.parse(op[1], **kw))
                want, _, _ = canon_of(fresh().parse(op[1], **kw))
                if p:
                    problems.append(f"op {k}: {p}")
                elif got != want:
                    problems.append(f"op {k}: parse({op[1]!r}) on the used docstring returns {got!r:.200}; a fresh docstring with the "
                                    f"same value, parser and options returns {want!r:.200}")
                style = op[1] or cur["parser"]
                observed.append((k, style, cur["value"].split("\n"), got, items))
            elif tag == "setvalue":
                cur["value"] = inspect.cleandoc(op[1].rstrip())
                doc.value = cur["value"]
            elif tag == "setparser":
                cur["parser"] = op[1]
                doc.parser = op[1]
            elif tag == "setopts":
                cur["options"] = dict(op[1])
                doc.parser_options = dict(op[1])
            elif tag == "parsed":
                secs = doc.parsed
                if first_parsed is None:
                    first_parsed = secs
                    got, items, p = canon_of(secs)
                    want, _, _ = canon_of(fresh().parse())
                    if p:
                        problems.append(f"op {k}: {p}")
                    elif got != want:
                        problems.append(f"op {k}: parsed is {got!r:.200}; a fresh docstring gives {want!r:.200}")
                    observed.append((k, cur["parser"], cur["value"].split("\n"), got, items))
                else:
                    if secs is not first_parsed:
                        problems.append(f"op {k}: parsed is not cached")
                    observed.append((k, None, None, None, None))
            elif tag == "lines":
                if doc.lines != cur["value"].split("\n"):
                    problems.append(f"op {k}: lines is {doc.lines!r:.120}, the value has the lines {cur['value'].split(chr(10))!r:.120}")
            elif tag == "source":
                def src(d):
                    try:
                        return ["ok", d.source]
                    except Exception as e:  # noqa: BLE001
                        return ["err", type(e).__name__]
                a, b = src(doc), src(fresh())
                if a != b:
                    problems.append(f"op {k}: source {a!r:.100} vs fresh {b!r:.100}")
            if (doc.value, doc.parser, doc.parser_options) != (cur["value"], cur["parser"], cur["options"]):
                problems.append(f"op {k} ({tag}): public attributes changed to {(doc.value, doc.parser, doc.parser_options)!r:.160}")
                break
        extra_attrs = set(vars(doc)) - PUBLIC_ATTRS - ({"parsed"} if first_parsed is not None else set())
        if extra_attrs:
            problems.append(f"hidden state left on the docstring: attributes {sorted(extra_attrs)}")
    except Watchdog:
        problems.append("history does not terminate within 6 s")
    except Exception as e:  # noqa: BLE001
        problems.append(f"raises {type(e).__name__}: {e}")
    finally:
        signal.setitimer(signal.ITIMER_REAL, 0)
        signal.signal(signal.SIGALRM, old)
    return problems, observed, pann


def history_model_request(h, pann):
    import inspect
    from griffe import Docstring
    def sty(x):
        return [] if x is None else [x]
    def ob(o):
        return [int(bool(o[k])) for k in OPTS["google"]]
    def ls(t):
        return [enc_line(l) for l in t.split("\n")]
    ops = []
    for op in h["ops"]:
        if op[0] == "parse":
            ops.append(["parse", sty(op[1]), [ob(op[2])] if op[2] else []])
        elif op[0] == "setvalue":
            ops.append(["setvalue", ls(inspect.cleandoc(op[1].rstrip()))])
        elif op[0] == "setparser":
            ops.append(["setparser", sty(op[1])])
        elif op[0] == "setopts":
            ops.append(["setopts", ob(op[1])])
        elif op[0] in ("parsed", "lines"):
            ops.append([op[0]])
        # reading `source` does not exist in the model: it looks at the parent's file only
    pk = h["parent"]
    init = [ls(Docstring(h["text"]).value), sty(h["parser"]), ob(h["options"] or DEFAULT_OPTS)]
    return ["history", [int(pk == "init"), int(pk in ("property", "property-tuple"))], pann, init, ops]


def history_stream(ctx):
    """(C)/(direct) on histories: parse must be a function of the CURRENT value, parser and options (Proofs/C12_history.v)."""
    rng = ctx.rng
    hs = [gen_history(rng) for _ in range(ctx.budget(2500, 30000))]
    results = [run_history(h) for h in hs]
    reqs = [history_model_request(h, r[2]) for h, r in zip(hs, results)] if ctx.driver is not None else []
    outs = ctx.model(reqs) if reqs else [None] * len(hs)
    ctx.count("history_done")
    for h, (problems, observed, _), out in zip(hs, results, outs):
        ctx.case({"history": h}, True)
        ctx.count("cases")
        ctx.observe("stream", "history")
        ctx.observe("history_ops", len(h["ops"]))
        for op in h["ops"]:
            ctx.observe("history_op", op[0])
        seen_set = False
        for op in h["ops"]:
            if op[0] == "setvalue":
                seen_set = True
            elif op[0] == "parse" and seen_set:
                ctx.observe("history_shape", "parse-after-assignment")
                break
        for p in problems:
            ctx.property_failure({"history": h}, {"problem": p})
        if out is None or problems:
            continue
        if out == ["regex-outside-criterion"]:
            ctx.count("model_refused")
            continue
        if not isinstance(out, list) or out == ["bad-input"]:
            ctx.tie_failure("correspondence", "history: model rejected its input", {"model": out}, {"history": h})
            continue
        # the model's observations, in the order of the operations it knows (all but `source`)
        mobs = iter(out)
        by_index = {}
        for k, op in enumerate(h["ops"]):
            if op[0] != "source":
                by_index[k] = next(mobs, None)
        for k, style, lines, canon, items in observed:
            mo = by_index.get(k)
            if lines is None or canon is None or mo is None or mo[0] != "parse":
                continue
            d = model_vs_impl(style, lines, mo[1], canon, items)
            ctx.observe("history_check", "differs" if d else "agrees")
            if d:
                ctx.tie_failure("correspondence", "history: parse observation (model) vs Docstring.parse", {"op": k, "difference": d},
                                {"history": h})
                break


# ---------------------------------------------------------------- generators
FRAGS = ["Args:", "Parameters", "----------", "---", "Returns:", "Returns", "Yields:", "Raises:", "Examples:", "Note:", "Attributes:",
         "Other Parameters", "Receives", "Deprecated", "Warns", "    x: desc", "    x (int): desc", "  y : int, optional", "x : int",
         "    cont", "        more", "", " ", "text", ":param x: d", ":type x: int", ":param int x: d", ":returns: r", ":rtype: int",
         ":raises ValueError: e", ":param:", ":param a b c d: x", ">>> a = 1", "```", "```python", "    >>> f()", ":", "::", "a:",
         "    :", "(int): x", "    int: x", "name : {a, b}", "*args : int", "x, y : int", "Methods", "Classes:", "    f(a): x", "1.0",
         "    Use other", ":var x: v", ":vartype x: int", ":return:", "    ", "\t x", "Args:\tx", "args:", "ARGS:", "Keyword Args:",
         " Args:", "Receives:", "Warns:", "Modules:", "Functions:", "Other Parameters:", "Note: a title", "Tip:", "See Also", "--------",
         "Notes", "-----", "Warnings", "Examples", "Attributes", "Raises", "------", "Yields", "Functions", "Modules", "Classes", "-",
         "  indented two", "      six deep", " one", "   three: x", "    (int): described", "    name (int): described",
         "    >>> print(1)  # doctest: +SKIP", "    <BLANKLINE>", "    ```", "int: the summary", "Summary line.", "More prose here.",
         ":param x", "    continued: here", ":keyword k: v", ":ivar v: d", ":except E: why", ":raise:", ":returns", "  :param q: w",
         ":arg int a: first", ":type: int", ":vartype: y", ":cvar c:", ":rtype:", "x", "x:", "  x", "x y: z", "Returns: title here",
         "Parameters:", "    np: alias", ":var np: d", "np", ":var : d", "    : d", " :", "    **kwargs: extra", "    *args (int): extra", "Deprecated:", "deprecated", "1.2.3", "    since then"]

# alphabets for the exhaustive-small enumeration: one representative per line class
ALPHABET = {
    "google": ["", " ", "text", "Args:", "Returns:", "Note:", "Note: title", "  x: d", "    more", "  nocolon", "x: d", "```", " Examples:"],
    "numpy": ["", " ", "text", "Parameters", "Returns", "Notes", "---", "x : int", "    more", " one", "a, b : int", "```", "Examples"],
    "sphinx": ["", " ", "text", ":param x: d", ":param int x: d", ":type x: int", ":returns: r", ":raises E: e", ":param x", "  cont: x", ":var v: d", ":x:", ":rtype: int"],
}

G_HEADERS = ["Args", "Arguments", "Params", "Parameters", "Keyword Args", "Other Parameters", "Raises", "Exceptions", "Returns", "Yields",
             "Receives", "Examples", "Attributes", "Functions", "Methods", "Classes", "Modules", "Warns", "Warnings", "Note", "Warning",
             "Tip", "See also", "Todo"]
N_HEADERS = ["Deprecated", "Parameters", "Args", "Arguments", "Params", "Keyword Args", "Other Args", "Exceptions", "Other Parameters", "Returns", "Yields", "Receives", "Raises", "Warns", "Examples", "Attributes",
             "Functions", "Methods", "Classes", "Modules", "Notes", "Warnings", "See Also", "References"]
G_ITEMS = ["x: desc", "x (int): desc", "y (str, optional): desc", "(int): desc", "int: desc", "name: desc", "no colon here", "f(a, b): desc",
           "ValueError: when", ": empty name", "(await x): d", "a (lambda: 0): d", "(x := 1): d", "a (f'{x}'): d", "[x for x in y]: d",
           "(a if b else c): d", "(int, str): d", "np: the alias", "cyc: cyclic", "x: known attribute", "*args: more", "z:", ">>> 1 + 1", "2", "```python", "```", "plain words"]
N_ITEMS = ["x : int", "x", "x, y : int, optional", "int", "name : {a, b}, default a", "*args", "ValueError", "f(a)", "1.0", "  leading",
           ">>> 1 + 1", "2", "```", "a: b", ": int", "?bad", ":", " :", " : ", "np", "cyc : ", "x", "a :", "b :", "c : ", "r : int",
           "a : await x", "x := 1", "a : f'{x}'", "b : lambda: 0", "(yield)", "a : [x for x in y]", "a : int, default: 3"]
S_ITEMS = [":param x: d", ":param int x: d", ":parameter y:", ":type x: int or str", ":arg a: b", ":key k: v", ":var v: d", ":ivar i: d",
           ":cvar c: d", ":vartype v: int", ":raises E: e", ":raise E:", ":except E: e", ":exception E: e", ":returns: r", ":return: r",
           ":rtype: int", ":param x", ":param: d", ":param a b c: d", ":paramx: d", ":x: y", ":raises: e", ":raises A B: e",
           ":var : d", ":ivar :", ":vartype : int", ":var np: d", ":cvar cyc: d", ":var x: d", ":param : d", ":type : int", ":raises : e"]


EX_LINES = ["Some text.", "More text: with colon", "", "", ">>> a = 1", ">>> print(a)  # doctest: +SKIP", ">>> f()  #doctest: +ELLIPSIS",
            "... continued", "1", "<BLANKLINE>", "  <BLANKLINE>  ", "```", "```python", "```", "    indented", ">>>", ">>> x # doctest:",
            "text # doctest: +SKIP", "  ", ">>> b = 2   # doctest: +NORMALIZE_WHITESPACE  ", "output # doctest: +X"]


def gen_examples_body(rng, ind):
    """lines of an Examples block: prose, blank lines, doctest prompts with flags, outputs, fences"""
    return [(" " * ind + l) if l.strip() else l for l in (rng.choice(EX_LINES) for _ in range(rng.randint(1, 7)))]


def gen_structured(rng, style):
    lines = []
    if rng.random() < 0.85:
        lines.append(rng.choice(["Summary.", "Do a thing.", "int: The value.", "Title:", "Summary: more"]))
        if rng.random() < 0.8:
            lines.append("")
            if rng.random() < 0.15:
                lines.append("")
    if rng.random() < 0.4:
        lines += [rng.choice(["Some prose.", "More prose: here.", "```", "    indented prose"])] + ([""] if rng.random() < 0.7 else [])
    for _ in range(rng.randint(0, 3)):
        ind = rng.choice([4, 4, 4, 2, 1, 3, 8])
        if style == "google":
            h = rng.choice(G_HEADERS + ["Examples"])
            is_examples = h == "Examples"
            h = rng.choice([h, h, h, h.lower(), h.upper()]) + ":" + rng.choice(["", "", "", " A title", "  "])
            if rng.random() < 0.1:
                h = " " * rng.randint(1, 4) + h
            lines.append(h)
            if rng.random() < 0.12:
                lines.append("")
            if is_examples and rng.random() < 0.8:
                lines += gen_examples_body(rng, ind)
                if rng.random() < 0.75:
                    lines.append("")
                continue
            for _ in range(rng.randint(0, 3)):
                lines.append(" " * ind + rng.choice(G_ITEMS))
                for _ in range(rng.choice([0, 0, 1, 2])):
                    lines.append(rng.choice([" " * (2 * ind) + "continued", " " * (ind + 1) + "odd", "", " " * ind, " " * (2 * ind) + "more: x"]))
        elif style == "numpy":
            h = rng.choice(N_HEADERS + ["Examples"])
            lines.append(rng.choice([h, h, h, h.lower(), h.upper(), " " + h]))
            lines.append(rng.choice(["-" * len(h), "---", "-", "- -", " ---", "--- "]))
            if rng.random() < 0.1:
                lines.append("")
            if h == "Examples" and rng.random() < 0.8:
                lines += gen_examples_body(rng, 0)
                lines.append("")
                continue
            for _ in range(rng.randint(0, 3)):
                lines.append(rng.choice(N_ITEMS))
                for _ in range(rng.choice([0, 0, 1, 2])):
                    lines.append(rng.choice(["    described", "  odd indent", "", "    ", "        deeper"]))
        else:
            for _ in range(rng.randint(1, 4)):
                lines.append(rng.choice(S_ITEMS))
                for _ in range(rng.choice([0, 0, 0, 1, 2])):
                    lines.append(rng.choice(["    continued", "continued: with colon", "", "  :indented colon", "words and  spaces"]))
        if rng.random() < 0.75:
            lines.append("")
        if rng.random() < 0.2:
            lines.append(rng.choice(["Trailing prose.", "Not indented: x", "x"]))
    # perturbations
    for _ in range(rng.choice([0, 0, 0, 1, 2])):
        if not lines:
            break
        i = rng.randrange(len(lines))
        r = rng.random()
        if r < 0.3:
            del lines[i]
        elif r < 0.5:
            lines[i] = " " * rng.randint(0, 9) + lines[i].lstrip()
        elif r < 0.7:
            lines.insert(i, rng.choice(FRAGS))
        elif r < 0.85:
            lines.insert(i, "")
        else:
            lines[i] = lines[i] + rng.choice([":", " :", "::", " ", ": x"])
    return "\n".join(lines)


def gen_frags(rng):
    return "\n".join(rng.choice(FRAGS) for _ in range(rng.randint(0, 12)))


WEIRD = ["\t", "\r", "\x0c", "\x00", "\x0b", "\x1c", "\x85", "\xa0", "\u2028", "\u3000", "\u00e9", "\u4e2d", "\u0130", "\u200b", "\ufeff", "\U0001f600",
         "\ud800", "\udfff", "\\", "'", '"', "#", "(", ")", "[", "{", "*", "`", "$"]


def gen_malformed(rng, style):
    base = gen_structured(rng, style) if rng.random() < 0.6 else gen_frags(rng)
    s = list(base)
    r = rng.random()
    if r < 0.45:
        for _ in range(rng.randint(1, 6)):
            pos = rng.randint(0, len(s))
            s.insert(pos, rng.choice(WEIRD))
        return "".join(s)
    if r < 0.6:
        return base.replace(" ", rng.choice(["\t", "\xa0", "\u3000", " \t"]), rng.randint(1, 8))
    if r < 0.7:
        return base.replace("\n", rng.choice(["\r\n", "\r", "\n\x0c", "\x0b"]), rng.randint(1, 6))
    lines = base.split("\n") or [""]
    i = rng.randrange(len(lines))
    r2 = rng.random()
    if r2 < 0.3:
        lines[i] = " " * rng.choice([60, 500, 3000]) + lines[i].lstrip()
    elif r2 < 0.5:
        lines[i] = lines[i] + rng.choice(["x", ":", " ", "x y ", "-", "not ", ".a", "(", "a, "]) * rng.choice([1500, 6000])
    elif r2 < 0.65:
        lines.insert(i, " " * 700 + "deep: item")
        lines.insert(i + 1, " " * 1400 + "deeper")
    elif r2 < 0.8:
        lines[i] = "".join(rng.choice(WEIRD + [" ", ":", "-", "x"]) for _ in range(rng.randint(1, 12)))
    else:
        lines = lines * rng.choice([3, 8])
    return "\n".join(lines)


def random_opts(rng, style):
    return {k: rng.random() < 0.5 for k in OPTS[style]}


def all_opts(style):
    names = OPTS[style]
    for bits in itertools.product((False, True), repeat=len(names)):
        yield dict(zip(names, bits))


def exhaustive_cases(ctx, maxlen):
    for style in STYLES:
        alpha = ALPHABET[style]
        combos = list(all_opts(style))
        k = 0
        for n in range(0, maxlen + 1):
            for seq in itertools.product(alpha, repeat=n):
                text = "\n".join(seq)
                # rotate options and parents deterministically so every (option combo, parent) recurs often
                yield (style, text, combos[k % len(combos)], PARENTS[(k // 7) % len(PARENTS)])
                k += 1


def batches(it, n):
    buf = []
    for x in it:
        buf.append(x)
        if len(buf) >= n:
            yield buf
            buf = []
    if buf:
        yield buf


def witness_text(w) -> str:
    if "text_expr" in w:      # long or non-ASCII witnesses are stored as an expression over string literals
        return eval(compile(w["text_expr"], "<witness>", "eval", dont_inherit=True), {"__builtins__": {}, "chr": chr})
    return w.get("text", "")


def known_witness(ctx):
    """Replay the listed findings' witnesses on the implementation."""
    for fid, f in ctx.known.items():
        w = f.get("witness", {})
        style = w.get("style", "numpy")
        r = run_impl(style, witness_text(w), w.get("options", {}), w.get("parent", "none"))
        ctx.witness(fid, bool(r["problems"]))      # no finding is listed at present


def corpus_cases():
    from pathlib import Path
    d = Path(__file__).resolve().parents[2] / "corpus" / "C12"
    for f in sorted(d.glob("*.json")):
        for c in json.loads(f.read_text()):
            yield (c["style"], witness_text(c), c.get("options", {}), c.get("parent", "none"))


def explore(ctx):
    logging.getLogger("griffe").setLevel(logging.CRITICAL)
    logging.getLogger("_griffe").setLevel(logging.CRITICAL)
    rng = ctx.rng
    ctx.stats["seconds_before_explore"] = round(ctx.elapsed(), 1)
    known_witness(ctx)
    cc = list(corpus_cases())
    if cc:
        evaluate(ctx, cc, "corpus")
    for b in batches(exhaustive_cases(ctx, 3 if ctx.quick else 4), 4000):
        evaluate(ctx, b, "exhaustive-small")
    ctx.exhaustive = True
    # every option combination x every parent on a rotating subset of texts
    cases = []
    for style in STYLES:
        combos = list(all_opts(style))
        for _ in range(ctx.budget(40, 300)):
            text = gen_structured(rng, style) if rng.random() < 0.7 else gen_frags(rng)
            for i, o in enumerate(combos):
                cases.append((style, text, o, PARENTS[i % len(PARENTS)] if len(combos) > 8 else rng.choice(PARENTS)))
    for b in batches(cases, 4000):
        evaluate(ctx, b, "all-options")
    # seeded random: structured / fragments, random options and parents, every style on every text
    cases = []
    for _ in range(ctx.budget(6000, 90000)):
        home = rng.choice(STYLES)
        text = gen_structured(rng, home) if rng.random() < 0.6 else gen_frags(rng)
        for style in STYLES:
            cases.append((style, text, random_opts(rng, style), rng.choice(PARENTS)))
    for b in batches(cases, 6000):
        evaluate(ctx, b, "random")
    cases = []
    for _ in range(ctx.budget(1500, 20000)):
        home = rng.choice(STYLES)
        text = gen_malformed(rng, home)
        for style in STYLES:
            cases.append((style, text, random_opts(rng, style), rng.choice(PARENTS)))
    for b in batches(cases, 3000):
        evaluate(ctx, b, "malformed")
    adversarial_stream(ctx)
    regex_oracle(ctx)
    history_stream(ctx)
    if not ctx.quick:
        sample = []
        for _ in range(30):
            style = rng.choice(STYLES)
            text = gen_structured(rng, style)
            from griffe import Docstring
            sample.append(model_input(style, random_opts(rng, style), rng.choice(PARENTS), Docstring(text).lines))
        ctx.cross_check_extraction(sample)


def search(ctx):
    """A tie broke and no failing input is known: evaluate the property on the implementation alone over a wider space."""
    logging.getLogger("griffe").setLevel(logging.CRITICAL)
    rng = ctx.rng

    def direct(case):
        style, text, opts, pk = case
        r = run_impl(*case)
        ctx.evaluations += 1
        if r["status"] == "hang":
            ctx.count("hangs")
        cj = {"style": style, "text": text, "options": opts, "parent": pk}
        for p in r["problems"]:
            ctx.property_failure(cj, {"problem": p, "lines": [l[:200] for l in r["lines"][:14]]})
            return True
        if r["canon"] is not None and is_plain(style, r["lines"], opts, pk):
            want = plain_expectation(style, r["lines"], opts, pk)
            got = r["canon"]
            good = (got == [] if want is None else (len(got) == 1 and got[0][0] == "text" and norm_text(got[0][1]) == want))
            if not good:
                ctx.property_failure(cj, {"problem": "plain text does not come back as a single text section", "sections": got[:4]})
                return True
        return False

    if not ctx.stats["history_done"]:
        for _ in range(4000):
            h = gen_history(rng)
            problems, _, _ = run_history(h)
            ctx.evaluations += 1
            for p in problems:
                ctx.property_failure({"history": h}, {"problem": p})
            if problems:
                return
    if not ctx.stats["adversarial_done"]:
        drv, ctx.driver = ctx.driver, None        # implementation only
        try:
            adversarial_stream(ctx)
        finally:
            ctx.driver = drv
        if ctx.prop_failures:
            return
    for case in exhaustive_cases(ctx, 4):
        if direct(case):
            return
    for _ in range(60000):
        style = rng.choice(STYLES)
        r = rng.random()
        text = gen_structured(rng, style) if r < 0.5 else gen_frags(rng) if r < 0.8 else gen_malformed(rng, style)
        if direct((style, text, random_opts(rng, style), rng.choice(PARENTS))):
            return


def replay(ctx, data):
    logging.getLogger("griffe").setLevel(logging.CRITICAL)
    case = data.get("failing_input") or {}
    if "history" in case:
        problems, observed, _ = run_history(case["history"])
        print("history :", json.dumps(case["history"])[:2000])
        print("problems:", problems)
        for o in observed:
            print("  op", o[0], "style", o[1], "->", o[3])
        return 0
    if "text" not in case:
        print("replay names no input:", data.get("no_longer_checks"))
        return 0
    c = (case["style"], case["text"], case.get("options", {}), case.get("parent", "none"))
    r = run_impl(*c)
    print("text   :", repr(case["text"]))
    print("lines  :", r["lines"])
    print("impl   :", r["status"], r["error"], r["canon"])
    print("direct :", r["problems"])
    if ctx.driver is not None and r["lines"]:
        raw = ctx.model([model_input(c[0], c[2], c[3], r["lines"], r.get("pann"))])[0]
        mo, feats, details, extra = split_model_output(raw)
        print("model  :", mo)
        if isinstance(mo, list) and mo and mo[0] == "ok":
            print("expect :", expected_from_model(c[0], r["lines"], mo[2]))
            print("items  :", details, extra)
    return 0
